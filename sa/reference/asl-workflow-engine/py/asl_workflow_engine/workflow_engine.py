#
# Licensed to the Apache Software Foundation (ASF) under one
# or more contributor license agreements.  See the NOTICE file
# distributed with this work for additional information
# regarding copyright ownership.  The ASF licenses this file
# to you under the Apache License, Version 2.0 (the
# "License"); you may not use this file except in compliance
# with the License.  You may obtain a copy of the License at
#
#   http://www.apache.org/licenses/LICENSE-2.0
#
# Unless required by applicable law or agreed to in writing,
# software distributed under the License is distributed on an
# "AS IS" BASIS, WITHOUT WARRANTIES OR CONDITIONS OF ANY
# KIND, either express or implied.  See the License for the
# specific language governing permissions and limitations
# under the License.
#
# Run with:
# PYTHONPATH=.. python3 workflow_engine.py
# PYTHONPATH=.. LOG_LEVEL=DEBUG python3 workflow_engine.py
#
# Run with cProfile enabled:
# PYTHONPATH=.. python3 -m cProfile -s tottime workflow_engine.py > prof-tottime.txt
#
"""
This is the main application entry point to the ASL Workflow Engine.
This class reads the JSON configuration file config.json and stores the config
object for the rest of the application to use, it then creates and starts a
StateEngine and EventDispatcher and a Web Server to handle AWS CLI/SDK REST API.

NOTE Due to the addition of asyncio support Python 3.6 is now required.
"""

import sys
assert sys.version_info >= (3, 6)  # Bomb out if not running Python3.6


import asyncio, json, os
import threading  # Run REST API in its own thread
from asl_workflow_engine.logger import init_logging
from asl_workflow_engine.open_tracing_factory import create_tracer
from asl_workflow_engine.state_engine import StateEngine
from asl_workflow_engine.event_dispatcher import EventDispatcher

import asl_workflow_engine.rest_api
import asl_workflow_engine.rest_api_asyncio

class WorkflowEngine(object):
    def __init__(self, configuration_file):
        """
        :param configuration_file: Path to coordinator configuration file
        :type configuration_file: str
        :raises IOError: If configuration file does not exist, or is not readable
        :raises ValueError: If configuration file does not contain valid JSON
        :raises AssertionError: If configuration file does not contain the required fields
        """
        # Initialise logger
        self.logger = init_logging(log_name="asl_workflow_engine")

        # Load the configuration file.
        try:
            with open(configuration_file, "r") as fp:
                config = json.load(fp)
            self.logger.info("Creating WorkflowEngine")
        except IOError as e:
            self.logger.error(
                "Unable to read configuration file: {}".format(configuration_file)
            )
            raise
        except ValueError as e:
            self.logger.error("Configuration file does not contain valid JSON")
            raise

        # Provide defaults for any unset config key
        config["event_queue"] = config.get("event_queue", {})
        config["notifier"] = config.get("notifier", {})
        config["state_engine"] = config.get("state_engine", {})
        config["rest_api"] = config.get("rest_api", {})
        config["tracer"] = config.get("tracer", {})
        config["metrics"] = config.get("metrics", {})

        """
        Override config values if a field is set as an environment variable.
        There is also a USE_STRUCTURED_LOGGING environment variable used by
        the logger to select between automation friendly structured logging
        or more human readable "traditional" logs.
        """
        eq = config["event_queue"]
        eq["queue_name"] = os.environ.get(
            "EVENT_QUEUE_QUEUE_NAME", eq.get("queue_name")
        )
        eq["instance_id"] = os.environ.get(
            "EVENT_QUEUE_INSTANCE_ID", eq.get("instance_id")
        )
        eq["queue_implementation"] = os.environ.get(
            "EVENT_QUEUE_QUEUE_IMPLEMENTATION",
            eq.get("queue_implementation", "AMQP-0.9.1-asyncio")
        )
        eq["queue_type"] = os.environ.get(
            "EVENT_QUEUE_QUEUE_TYPE", eq.get("queue_type", "classic")
        )
        eq["connection_url"] = os.environ.get(
            "EVENT_QUEUE_CONNECTION_URL", eq.get("connection_url")
        )
        # Not currently used.
        eq["connection_options"] = os.environ.get(
            "EVENT_QUEUE_CONNECTION_OPTIONS", eq.get("connection_options")
        )
        eq["shared_event_consumer_capacity"] = os.environ.get(
            "EVENT_QUEUE_SHARED_EVENT_CONSUMER_CAPACITY", 
            eq.get("shared_event_consumer_capacity")
        )
        eq["instance_event_consumer_capacity"] = os.environ.get(
            "EVENT_QUEUE_INSTANCE_EVENT_CONSUMER_CAPACITY", 
            eq.get("instance_event_consumer_capacity")
        )
        eq["reply_to_consumer_capacity"] = os.environ.get(
            "EVENT_QUEUE_REPLY_TO_CONSUMER_CAPACITY",
            eq.get("reply_to_consumer_capacity")
        )
        # The time in milliseconds to retain "orphaned" Task responses.
        # Default is 10 minutes = 10*60*1000
        eq["orphaned_response_retention_ms"] = os.environ.get(
            "EVENT_QUEUE_ORPHANED_RESPONSE_RETENTION_MS",
            eq.get("orphaned_response_retention_ms", 600000)
        )

        no = config["notifier"]
        no["topic"] = os.environ.get(
            "NOTIFIER_TOPIC", no.get("topic")
        )
        no["message_ttl"] = os.environ.get(
            "NOTIFIER_MESSAGE_TTL", no.get("message_ttl", 0)
        )

        se = config["state_engine"]
        se["store_url"] = os.environ.get("STATE_ENGINE_STORE_URL",
                                         se.get("store_url"))
        se["execution_ttl"] = os.environ.get("STATE_ENGINE_EXECUTION_TTL",
                                             se.get("execution_ttl", 86400))

        ra = config["rest_api"]
        ra["host"] = os.environ.get("REST_API_HOST", ra.get("host"))
        ra["port"] = int(os.environ.get("REST_API_PORT", ra.get("port")))
        ra["region"] = os.environ.get("REST_API_REGION", ra.get("region"))
        ra["validate_asl"] = ra.get("validate_asl", False)
        validate_asl = os.environ.get("REST_API_VALIDATE_ASL")
        if validate_asl:  # Should be "true"/"false" if env var is explicitly set
            if validate_asl.lower() == "true":
                ra["validate_asl"] = True
            elif validate_asl.lower() == "false":
                ra["validate_asl"] = False

        tr = config["tracer"]
        tr["implementation"] = os.environ.get("TRACER_IMPLEMENTATION", 
                                              tr.get("implementation", "None"))

        if tr["implementation"] == "Jaeger":
            # The Jaeger specific env vars are derived from this document:
            # https://www.jaegertracing.io/docs/1.22/client-features/
            tr["config"] = tr.get("config", {})
            tr["config"]["sampler"] = tr["config"].get("sampler", {})

            sampler = tr["config"]["sampler"]
            sampler["type"] = os.environ.get(
                "JAEGER_SAMPLER_TYPE", sampler.get("type", "probabilistic")
            )
            sampler["param"] = os.environ.get(
                "JAEGER_SAMPLER_PARAM", sampler.get("param", 0.01)
            )
        elif tr["implementation"] == "OpenTelemetry":
            tr["config"] = tr.get("config", {})
            tr["config"]["exporter"] = os.environ.get(
                "OTEL_EXPORTER_TYPE", tr["config"].get("exporter", "otlp-proto-grpc")
            )
            """
            Allow configuration of *additional* propagators to add to default
            propagators. This is in addition to also honouring the
            OTEL_PROPAGATORS env var. Initially we default this to jaeger so
            uber-trace-id headers are propagated to facilitate transiion to
            OpenTelemetry. In due course we will default to no additional
            propagators.
            """
            tr["config"]["additional_propagators"] = os.environ.get(
                "OTEL_ADDITIONAL_PROPAGATORS",
                tr["config"].get("additional_propagators", "jaeger")
            )

        metrics = config["metrics"]
        metrics["implementation"] = os.environ.get(
            "METRICS_IMPLEMENTATION", metrics.get("implementation", "None")
        )
        metrics["namespace"] = os.environ.get(
            "METRICS_NAMESPACE", metrics.get("namespace", "")
        )

        """
        Initialise opentracing.tracer before creating the StateEngine,
        EventDispatcher and RestAPIinstances.

        Call asyncio.get_event_loop() here, because if we are using asyncio we
        want the tracer to use the main asyncio event loop rather than create
        a new ThreadLoop, which is the default behaviour unless a tornado IOLoop
        is passed. In recent versions of Tornado that delegates to asyncio loop.
        """
        if eq["queue_implementation"].endswith("-asyncio"):
            # Attempt to use uvloop libuv based event loop if available
            # https://github.com/MagicStack/uvloop
            try:
                import uvloop
                uvloop.install()
                self.logger.info("Using uvloop asyncio event loop")
            except:  # Fall back to standard library asyncio epoll event loop
                self.logger.info("Using standard library asyncio event loop")

            # Create and set event loop explicitly (required for Python 3.10+)
            loop = asyncio.new_event_loop()
            asyncio.set_event_loop(loop)
            create_tracer("asl_workflow_engine", config["tracer"], use_asyncio=True)
        else:
            create_tracer("asl_workflow_engine", config["tracer"])

        self.state_engine = StateEngine(config)
        self.event_dispatcher = EventDispatcher(self.state_engine, config)

        self.config = config

    def start(self):
        if self.event_dispatcher.name.endswith("_asyncio"):
            def global_exception_handler(loop, context):
                """
                Just swallow "exception was never retrieved" as we handle the
                main exceptions that we care about in EventDispatcher.start_asyncio()
                """
                # context["message"] will always be there; but context["exception"] may not
                self.logger.error(context.get("message"))
                exception = context.get("exception")
                if exception:
                    self.logger.error(repr(exception))


            self.rest_api = asl_workflow_engine.rest_api_asyncio.RestAPI(
                self.state_engine, self.event_dispatcher, self.config
            )
            app = self.rest_api.create_app()

            loop = asyncio.get_event_loop()
            loop.set_exception_handler(global_exception_handler)
            loop.create_task(self.event_dispatcher.start_asyncio())
            """
            Start moving towards having Quart run via an external ASGI server
            so it's easier to compare the performance of different ones.
            Doing that is a little bit fiddly as at requires some refactoring
            to make the REST API the main application entry point rather than
            the WorkflowEngine class. Another complication is ensuring the
            EventDispatcher gets passed the correct event loop when refactoring.
            For now just start via the API serve function as described here:
            https://pgjones.gitlab.io/hypercorn/how_to_guides/api_usage.html
            instead of using app.run()
            """
            
            # hypercorn
            #app.run(host=self.rest_api.host, port=self.rest_api.port, loop=loop)

            from hypercorn.asyncio import serve
            from hypercorn.config import Config
            from hypercorn.run import run

            config = Config()
            config.bind = ["{}:{}".format(self.rest_api.host, self.rest_api.port)]

            loop.run_until_complete(serve(app, config))
            
            """
            # uvicorn
            import uvicorn

            # Setting loop="none" in uvicorn.run actually means use current event loop

            #import yappi
            #yappi.set_clock_type("WALL")
            #with yappi.run():

            uvicorn.run(
                app, host=self.rest_api.host, port=self.rest_api.port,
                loop="none", log_level="error"
            )

            #yappi.get_func_stats().print_all(columns={
            #    0: ("name", 140),
            #    1: ("ncall", 8),
            #    2: ("tsub", 8),
            #    3: ("ttot", 8),
            #    4: ("tavg", 8)
            #})
            """
        else:
            self.rest_api = asl_workflow_engine.rest_api.RestAPI(
                self.state_engine, self.event_dispatcher, self.config
            )
            app = self.rest_api.create_app()
            # https://stackoverflow.com/questions/31264826/start-a-flask-application-in-separate-thread/31265602#31265602
            threading.Thread(
                target=app.run,
                kwargs={
                    "host": self.rest_api.host,
                    "port": self.rest_api.port,
                },
                daemon=True,
            ).start()
            self.event_dispatcher.start()

if __name__ == "__main__":
    WorkflowEngine("config.json").start()

