#
# Licensed to the Apache Software Foundation (ASF) under one
# or more contributor license agreements.  See the NOTICE file
# distributed with this work for additional information
# regarding copyright ownership.  The ASF licenses this file
# to you under the Apache License, Version 2.0 (the
# "License"); you may not use this file except in compliance
# with the License.  You may obtain a copy of the License at
#
#   http://www.apache.org/licenses/LICENSE-2.0
#
# Unless required by applicable law or agreed to in writing,
# software distributed under the License is distributed on an
# "AS IS" BASIS, WITHOUT WARRANTIES OR CONDITIONS OF ANY
# KIND, either express or implied.  See the License for the
# specific language governing permissions and limitations
# under the License.
#

"""
-------------------------------- READ ME FIRST ---------------------------------
Note that in JSON and dict manipulation herein there may be a mix of camel case
and fields starting with capitals. This is unfortunate, but somewhat deliberate
as we are trying to follow the patterns used in real AWS Step Functions, which
seems to use camel case in the REST API calls but in the Context object and
indeed in the ASL specification the fields start with capitals. Be aware of this
if suddenly overcome by the urge to "make everything consistent"
--------------------------------------------------------------------------------
"""

"""
This implements the REST API for the ASL Workflow Engine. The intention is to
implement the AWS Step Functions API as described in the AWS documentation:
https://docs.aws.amazon.com/step-functions/latest/apireference/API_Operations.html

By implementing the AWS REST API semantics it becomes possible to use Amazon's
CLI and SDK so applications can use this ASL Workflow Engine as an alternative
to Amazon's for scenarios such as hybrid cloud workloads.


Example actions using AWS CLI:

# List state machines
aws stepfunctions --endpoint http://localhost:4584 list-state-machines --max-results 20

# Create a new state machine
aws stepfunctions --endpoint http://localhost:4584 create-state-machine --name my-state-machine --definition '{"Comment":"A Hello World example of the Amazon States Language using a Pass state","StartAt":"HelloWorld","States":{"HelloWorld":{"Type":"Pass","End":true}}}' --role-arn arn:aws:iam::0123456789:role/service-role/MyRole

# Create a new state machine from a file
aws stepfunctions --endpoint http://localhost:4584 create-state-machine --name simple_state_machine --definition file://<path-to-ASL-JSON> --role-arn arn:aws:iam::0123456789:role/service-role/MyRole

# Update a state machine
aws stepfunctions --endpoint http://localhost:4584 update-state-machine --definition '{"Comment":"A Hello World example of the Amazon States Language using a Pass state","StartAt":"HelloWorld","States":{"HelloWorld":{"Type":"Pass","End":true}}}' --role-arn arn:aws:iam::0123456789:role/service-role/MyRole --state-machine-arn arn:aws:states:local:0123456789:stateMachine:my-state-machine

# Describe state machine
aws stepfunctions --endpoint http://localhost:4584 describe-state-machine --state-machine-arn arn:aws:states:local:0123456789:stateMachine:my-state-machine

# Delete state machine
aws stepfunctions --endpoint http://localhost:4584 delete-state-machine --state-machine-arn arn:aws:states:local:0123456789:stateMachine:my-state-machine

# Start state machine execution
aws stepfunctions --endpoint http://localhost:4584 start-execution --state-machine-arn arn:aws:states:local:0123456789:stateMachine:my-state-machine --name my-execution --input '{"comment":"I am a great input !"}'

# List state machine executions
aws stepfunctions --endpoint http://localhost:4584 list-executions --state-machine-arn arn:aws:states:local:0123456789:stateMachine:my-state-machine

# Describe execution
aws stepfunctions --endpoint http://localhost:4584 describe-execution --execution-arn arn:aws:states:local:0123456789:execution:my-state-machine:my-execution

# Describe state machine related to execution
aws stepfunctions --endpoint http://localhost:4584 describe-state-machine-for-execution --execution-arn arn:aws:states:local:0123456789:execution:my-state-machine:my-execution

# Get execution history
aws stepfunctions --endpoint http://localhost:4584 get-execution-history --execution-arn arn:aws:states:local:0123456789:execution:my-state-machine:my-execution
"""

import sys
assert sys.version_info >= (3, 6)  # Bomb out if not running Python3.6


import asyncio, re, time, uuid, logging, opentracing
from datetime import datetime, timezone
from quart import Quart, request, jsonify
from aioprometheus import Registry, render

from asl_workflow_engine.metrics_system import SystemMetrics

from asl_workflow_engine.logger import init_logging
from asl_workflow_engine.open_tracing_factory import span_context, inject_span
from asl_workflow_engine.arn import *
from asl_workflow_engine.state_engine import MAX_DATA_LENGTH, MAX_STATE_MACHINE_LENGTH

from statelint.statelint import StateLint  # ASL validator

# Even if we use ujson for JSON parsing we need stdlib json for ASL validation,
# because we use object_pairs_hook to detect duplicate State names.
import json as stdjson

try:  # Attempt to use ujson if available https://pypi.org/project/ujson/
    import ujson as json
except:  # Fall back to standard library json
    import json

"""
Base64 decoding needed for processing TaskToken
Attempt to use pybase64 libbase64 based codec if available
pip3 install pybase64
https://github.com/mayeut/pybase64
https://github.com/aklomp/base64
"""
try:
    import pybase64 as base64
except:  # Fall back to standard library base64
    import base64


def valid_name(name):
    return (
        isinstance(name, str)
        and len(name) > 0
        and len(name) < 81
        and not re.search(r"[\n <>{}[\]?*\"#%\\^|~`$&,;:/]", name)
    )

def valid_role_arn(arn):
    return (
        isinstance(arn, str)
        and len(arn) > 0
        and len(arn) < 257
        and re.search(r"^arn:aws:iam::[0-9]+:role\/.+$", arn)
    )

def valid_state_machine_arn(arn):
    return (
        isinstance(arn, str)
        and len(arn) > 0
        and len(arn) < 257
        and re.search(r"^arn:aws:states:.+:[0-9]+:stateMachine:.+$", arn)
    )

def valid_execution_arn(arn):
    return (
        isinstance(arn, str)
        and len(arn) > 0
        and len(arn) < 257
        and re.search(r"^arn:aws:states:.+:[0-9]+:execution:.+$", arn)
    )

def aws_error(code, message=None):
    """
    Boiler plate to return errors in the correct form for the SDKs to throw
    the expected exceptions. The format doesn't seem to be documented anywhere
    so this was grokked by looking at the botocore source code in
    https://github.com/boto/botocore/blob/develop/botocore/parsers.py
    BaseJSONParser._do_error_parse(self, response, shape)
    """
    return jsonify({
        "__type": code,
        "message": message if message else code,
    })

def raise_on_duplicates(ordered_pairs):
    """
    Use an object_pairs_hook to detect and reject duplicate keys in json.loads()
    https://stackoverflow.com/questions/14902299/json-loads-allows-duplicate-keys-in-a-dictionary-overwriting-the-first-value/14902564#14902564
    """
    # Reject duplicate keys.
    d = {}
    for k, v in ordered_pairs:
        if k in d:
            raise ValueError("Duplicate key: %r" % (k,))
        else:
            d[k] = v
    return d

class RestAPI(object):
    def __init__(self, state_engine, event_dispatcher, config):
        """
        """
        self.logger = init_logging(log_name="asl_workflow_engine")
        self.logger.info("Creating {}.RestAPI, using {} JSON parser".format(
            __name__, json.__name__
        ))

        rest_api_config = config.get("rest_api")
        if rest_api_config:
            self.host = rest_api_config.get("host", "0.0.0.0")
            self.port = rest_api_config.get("port", 4584)
            self.region = rest_api_config.get("region", "local")
            self.validate_asl = rest_api_config.get("validate_asl")

        self.asl_store = state_engine.asl_store
        self.executions = state_engine.executions
        self.execution_history = state_engine.execution_history
        self.execution_metrics = state_engine.execution_metrics
        self.task_metrics = state_engine.task_dispatcher.task_metrics
        self.event_dispatcher = event_dispatcher
        self.task_dispatcher = state_engine.task_dispatcher

        self.system_metrics = {}
        metrics_config = config.get("metrics", {})
        if metrics_config.get("implementation", "") == "Prometheus":
            self.system_metrics = SystemMetrics(metrics_config.get("namespace", ""))

        # StateLint used in CreateStateMachine/UpdateStateMachine to validate ASL
        try:
            self.statelint = StateLint()
        except Exception as e:
            self.statelint = None
            self.logger.warning("Unable to create StateLint instance: {}".format(e))

    def create_app(self):
        """
        This is needed to do a "low level" Message send for SendTaskSuccess and
        SendTaskFailure where we create an rpcmessage response that behaves
        like a normal rpcmessage response from an rpcmessage handling processor.

        In the EventDispatcher constructor we have a "Connection Factory" for
        the event queue that lets the messaging implementation used be set
        via the configuration e.g. AMQP-0.9.1-asyncio. Part of that is to set
        the Message implementation class on event_dispatcher globals(), so
        we can do the import of the Message class from event_dispatcher.
        """
        from asl_workflow_engine.event_dispatcher import Message

        app = Quart(__name__)

        # Turn off Quart standard logging
        app.logger.disabled = True
        log = logging.getLogger("quart.serving")
        log.disabled = True

        """
        Prometheus Metrics Exporter endpoint.
        https://github.com/claws/aioprometheus
        https://github.com/claws/aioprometheus/blob/master/examples/frameworks/quart-example.py

        The metrics are intended to emulate Stepfunction CloudWatch metrics.
        https://docs.aws.amazon.com/step-functions/latest/dg/procedure-cw-metrics.html
        """
        registry = Registry()

        for metric in self.system_metrics.values():
            registry.register(metric)
        for metric in self.execution_metrics.values():
            registry.register(metric)
        for metric in self.task_metrics.values():
            registry.register(metric)


        @app.route("/metrics")
        async def handle_metrics():
            if self.system_metrics:
                self.system_metrics.collect()

            content, http_headers = render(
                registry, request.headers.getlist("accept")
            )
            return content, http_headers

        # Have an endpoint to check the health of the ASL engine
        @app.route("/health")
        async def health_check():
            # Check if the session channel is open (alike session.channel.is_open())
            # Give response dependent on outcome of session
            if self.event_dispatcher.session.is_open():
                return "Ok", 200
            else:
                return "Service Unavailable: Service liveness probe failed due to an internal error.", 503
        
        """
        Flask/Quart "catch-all" URL
        see https://gist.github.com/fitiavana07/bf4eb97b20bbe3853681e153073c0e5e

        As Quart is an asynchronous framework based on asyncio, it is necessary
        to explicitly add async and await keywords. The most notable place in
        which to do this is route functions.
        see https://pgjones.gitlab.io/quart/how_to_guides/flask_migration.html
        """
        @app.route("/", defaults={"path": ""}, methods=["POST"])
        @app.route("/<path:path>", methods=["POST"])
        async def handle_post(path):
            """
            Perform initial validation of the HTTP request. The AWS Step 
            Functions API is a slightly "weird" REST API as it mostly seems to
            rely on POST and rather than using HTTP resources it uses the
            x-amz-target header to specify the action to be performed.
            """
            if not request.content_type == "application/x-amz-json-1.0":
                return "Unexpected Content-Type {}".format(request.content_type), 400

            target = request.headers.get("x-amz-target")
            if not target:
                return "Missing header x-amz-target", 400
            if not target.startswith("AWSStepFunctions."):
                return "Malformed header x-amz-target", 400

            action = target.split(".")[1]
            # print(action)

            """
            request.data is one of the common calls that requires awaiting
            https://pgjones.gitlab.io/quart/how_to_guides/flask_migration.html
            """
            data = await request.data

            try:
                params = json.loads(data.decode("utf8"))
            except ValueError as e:
                params = ""
                self.logger.error(
                    "Message body {} does not contain valid JSON".format(data)
                )

            # Every action takes its parameters from a JSON object.
            if not isinstance(params, dict):
                return aws_error("SerializationException"), 400

            # ------------------------------------------------------------------

            """
            Define nested functions as handlers for each supported API action.
            Using nested functions so we can use the context from handle_post.

            That the methods are prefixed with "aws_api_" is a mitigation against
            accidentally or deliberately placing an invalid action in the API.
            """
            async def aws_api_CreateStateMachine():
                """
                https://docs.aws.amazon.com/step-functions/latest/apireference/API_CreateStateMachine.html
                """
                name = params.get("name")
                if not valid_name(name):
                    self.logger.warning(
                        "RestAPI CreateStateMachine: {} is an invalid name".format(name)
                    )
                    return aws_error("InvalidName"), 400

                role_arn = params.get("roleArn")
                if not valid_role_arn(role_arn):
                    self.logger.warning(
                        "RestAPI CreateStateMachine: {} is an invalid Role ARN".format(
                            role_arn
                        )
                    )
                    return aws_error("InvalidArn"), 400

                # Form stateMachineArn from roleArn and name
                arn = parse_arn(role_arn)
                state_machine_arn = create_arn(
                    service="states",
                    region=self.region,
                    account=arn["account"],
                    resource_type="stateMachine",
                    resource=name,
                )

                # Get State Machine type (STANDARD or EXPRESS) if supplied
                type = params.get("type", "STANDARD")
                if type not in {"STANDARD", "EXPRESS"}:
                    self.logger.error(
                        "RestAPI CreateStateMachine: State Machine type {} "
                        "is not supported".format(type)
                    )
                    return aws_error("StateMachineTypeNotSupported"), 400

                """
                Look up stateMachineArn. Use get() not get_cached_view() here as
                calls to CreateStateMachine might reasonably *expect* no match.
                """
                match = self.asl_store.get(state_machine_arn)
                if match:
                    # Info seems more appropriate than error here as creation is
                    # an idempotent action.
                    self.logger.info(
                        "RestAPI CreateStateMachine: State Machine {} already exists".format(
                            state_machine_arn
                        )
                    )
                    return aws_error("StateMachineAlreadyExists"), 400

                definition = params.get("definition", "")
                """
                First check if the definition length has exceeded the 1048576
                character limit described in the CreateStateMachine API page.
                https://docs.aws.amazon.com/step-functions/latest/apireference/API_CreateStateMachine.html
                """
                if len(definition) == 0 or len(definition) > MAX_STATE_MACHINE_LENGTH:
                    self.logger.error(
                        "RestAPI CreateStateMachine: Invalid definition size for State Machine '{}'.".format(name)
                    )
                    return aws_error("InvalidDefinition"), 400

                try:
                    if self.validate_asl:
                        definition = stdjson.loads(
                            definition, object_pairs_hook=raise_on_duplicates
                        )
                    else:
                        definition = stdjson.loads(definition)
                except ValueError as e:
                    definition = None
                    message = "State Machine {} InvalidDefinition {} does not contain valid JSON. {}".format(state_machine_arn, params.get("definition"), e)
                    self.logger.error(
                        "RestAPI CreateStateMachine: {}".format(message)
                    )
                    return aws_error("InvalidDefinition", message), 400

                if self.statelint:  # Make sure StateLint was properly created.
                    problems = self.statelint.validate(definition)
                    if len(problems) > 0:
                        if len(problems) == 1:
                            error_count = "One error:"
                        elif len(problems) > 1:
                            error_count = "{} errors:".format(len(problems))
                        message = "State Machine {} InvalidDefinition {} {}\n{}".format(state_machine_arn, params.get("definition"), error_count, "\n".join(problems))
                        self.logger.error(
                            "RestAPI CreateStateMachine: {}".format(message)
                        )
                        # Only return error if configured to do so.
                        if self.validate_asl:
                            return aws_error("InvalidDefinition", message), 400

                if not (name and role_arn and definition):
                    self.logger.warning(
                        "RestAPI CreateStateMachine: name, roleArn and definition must be specified"
                    )
                    return aws_error("MissingRequiredParameter"), 400

                """
                Handle the configuration describing where execution history
                events are logged and their log level.
                https://docs.aws.amazon.com/step-functions/latest/apireference/API_LoggingConfiguration.html
                https://docs.aws.amazon.com/step-functions/latest/dg/cloudwatch-log-level.html
                https://docs.aws.amazon.com/AmazonCloudWatch/latest/logs/iam-access-control-overview-cwl.html
                """
                logging_configuration = params.get("loggingConfiguration", {})
                # Explicitly set default to OFF if not present in request.
                logging_level = logging_configuration.get("level", "OFF")
                logging_configuration["level"] = logging_level

                if logging_level not in {"OFF", "ALL", "ERROR", "FATAL"}:
                    self.logger.error(
                        "RestAPI CreateStateMachine: Invalid logging configuration for State Machine '{}'.".format(name)
                    )
                    return aws_error("InvalidLoggingConfiguration"), 400

                """
                If level is not set to OFF the destinations field is required.
                It is an array of objects that describes where execution
                history events will be logged. Limited to size 1.
                N.B. At present although destinations field is required for
                levels other than OFF its value is currently ignored by the
                ASL Engine.
                """
                if logging_level != "OFF":
                    destinations = logging_configuration.get("destinations")
                    if not (destinations and
                            isinstance(destinations , list) and
                            len(destinations) == 1):
                        self.logger.error(
                            "RestAPI CreateStateMachine: Invalid logging configuration for State Machine '{}'.".format(name)
                        )
                        return aws_error("InvalidLoggingConfiguration"), 400

                creation_date = time.time()
                self.asl_store[state_machine_arn] = {
                    "creationDate": creation_date,
                    "definition": definition,
                    "loggingConfiguration": logging_configuration,
                    "name": name,
                    "roleArn": role_arn,
                    "stateMachineArn": state_machine_arn,
                    "updateDate": creation_date,
                    "status": "ACTIVE",
                    "type": type,
                }

                resp = {
                    "creationDate": creation_date,
                    "stateMachineArn": state_machine_arn,
                }

                return jsonify(resp), 200

            async def aws_api_ListStateMachines():
                """
                https://docs.aws.amazon.com/step-functions/latest/apireference/API_ListStateMachines.html
                """
                # TODO handle nextToken stuff
                next_token = ""

                """
                Populate response using list and dict comprehensions
                https://www.pythonforbeginners.com/basics/list-comprehensions-in-python
                https://stackoverflow.com/questions/5352546/extract-subset-of-key-value-pairs-from-python-dictionary-object
                """
                state_machines = [
                    {
                        k1: v[k1] for k1 in ("creationDate", "name",
                            "stateMachineArn", "type")
                    }
                    for k, v in self.asl_store.items()
                ]

                resp = {
                    "stateMachines": state_machines
                }
                if next_token:
                    resp["nextToken"] = next_token

                return jsonify(resp), 200

            async def aws_api_DescribeStateMachine():
                """
                https://docs.aws.amazon.com/step-functions/latest/apireference/API_DescribeStateMachine.html
                """
                state_machine_arn = params.get("stateMachineArn")
                if not state_machine_arn:
                    self.logger.warning(
                        "RestAPI DescribeStateMachine: stateMachineArn must be specified"
                    )
                    return aws_error("MissingRequiredParameter"), 400

                if not valid_state_machine_arn(state_machine_arn):
                    self.logger.warning(
                        "RestAPI DescribeStateMachine: {} is an invalid State Machine ARN".format(
                            state_machine_arn
                        )
                    )
                    return aws_error("InvalidArn"), 400

                """
                Look up stateMachineArn. Using get_cached_view() here means that
                the state_machine is JSON serialisable, as the cached view is a
                simple dict rather than say a RedisDict.
                """
                state_machine = self.asl_store.get_cached_view(state_machine_arn)
                if not state_machine:
                    self.logger.info(
                        "RestAPI DescribeStateMachine: State Machine {} does not exist".format(
                            state_machine_arn
                        )
                    )
                    return aws_error("StateMachineDoesNotExist"), 400
                
                """
                In the API the "definition" field is actually a string not a
                JSON object, hence the json.dumps() here. We do the conversion
                here rather than storing it as a string because the State Engine
                uses the deserialised definition as a key part of its core
                state transition behaviour.
                """
                resp = state_machine.copy()
                resp["definition"] = json.dumps(state_machine["definition"])

                return jsonify(resp), 200

            async def aws_api_DescribeStateMachineForExecution():
                """
                https://docs.aws.amazon.com/step-functions/latest/apireference/API_DescribeStateMachineForExecution.html
                """
                execution_arn = params.get("executionArn")
                if not execution_arn:
                    self.logger.warning(
                        "RestAPI DescribeStateMachineForExecution: executionArn must be specified"
                    )
                    return aws_error("MissingRequiredParameter"), 400

                if not valid_execution_arn(execution_arn):
                    self.logger.warning(
                        "RestAPI DescribeStateMachineForExecution: {} is an invalid Execution ARN".format(
                            execution_arn
                        )
                    )
                    return aws_error("InvalidArn"), 400

                # Look up executionArn
                execution = self.executions.get(execution_arn)
                if not execution:
                    self.logger.info(
                        "RestAPI DescribeStateMachineForExecution: Execution {} does not exist".format(
                            execution_arn
                        )
                    )
                    return aws_error("ExecutionDoesNotExist"), 400

                state_machine_arn = execution.get("stateMachineArn")

                if not valid_state_machine_arn(state_machine_arn):
                    self.logger.warning(
                        "RestAPI DescribeStateMachineForExecution: {} is an invalid State Machine ARN".format(
                            state_machine_arn
                        )
                    )
                    return aws_error("InvalidArn"), 400

                # Look up stateMachineArn
                state_machine = self.asl_store.get_cached_view(state_machine_arn)
                if not state_machine:
                    self.logger.info(
                        "RestAPI DescribeStateMachineForExecution: State Machine {} does not exist".format(
                            state_machine_arn
                        )
                    )
                    return aws_error("StateMachineDoesNotExist"), 400

                """
                As with DescribeStateMachine the "definition" field is actually
                a string not a JSON object, hence the json.dumps() here.
                """
                resp = {
                    k: state_machine[k] for k in ("definition", "name", "roleArn",
                        "stateMachineArn", "updateDate")
                }
                resp["definition"] = json.dumps(state_machine["definition"])

                return jsonify(resp), 200

            async def aws_api_UpdateStateMachine():
                """
                https://docs.aws.amazon.com/step-functions/latest/apireference/API_UpdateStateMachine.html
                """
                state_machine_arn = params.get("stateMachineArn")
                if not state_machine_arn:
                    self.logger.warning(
                        "RestAPI UpdateStateMachine: stateMachineArn must be specified"
                    )
                    return aws_error("MissingRequiredParameter"), 400

                if not valid_state_machine_arn(state_machine_arn):
                    self.logger.warning(
                        "RestAPI UpdateStateMachine: {} is an invalid State Machine ARN".format(
                            state_machine_arn
                        )
                    )
                    return aws_error("InvalidArn"), 400

                """
                Look up stateMachineArn. Use get() rather than get_cached_view()
                as we are going to be updating the retrieved State Machine.
                """
                state_machine = self.asl_store.get(state_machine_arn)
                if not state_machine:
                    self.logger.info(
                        "RestAPI UpdateStateMachine: State Machine {} does not exist".format(
                            state_machine_arn
                        )
                    )
                    return aws_error("StateMachineDoesNotExist"), 400

                # Collect the changes and only apply them once the whole request
                # has been validated, so a rejected update leaves the store as it was.
                updates = {}

                role_arn = params.get("roleArn")
                if role_arn:
                    if not valid_role_arn(role_arn):
                        self.logger.warning(
                            "RestAPI UpdateStateMachine: {} is an invalid Role ARN".format(
                                role_arn
                            )
                        )
                        return aws_error("InvalidArn"), 400
                    updates["roleArn"] = role_arn

                definition = params.get("definition", "")
                if definition:
                    """
                    First check if the definition length has exceeded the 1048576
                    character limit described in the UpdateStateMachine API page.
                    https://docs.aws.amazon.com/step-functions/latest/apireference/API_UpdateStateMachine.html
                    """
                    if len(definition) == 0 or len(definition) > MAX_STATE_MACHINE_LENGTH:
                        self.logger.error(
                            "RestAPI UpdateStateMachine: Invalid definition size for State Machine '{}'.".format(state_machine_arn)
                        )
                        return aws_error("InvalidDefinition"), 400

                    try:
                        if self.validate_asl:
                            definition = stdjson.loads(
                                definition, object_pairs_hook=raise_on_duplicates
                            )
                        else:
                            definition = stdjson.loads(definition)
                    except ValueError as e:
                        definition = None
                        message = "State Machine {} InvalidDefinition {} does not contain valid JSON. {}".format(state_machine_arn, params.get("definition"), e)
                        self.logger.error(
                            "RestAPI UpdateStateMachine: {}".format(message)
                        )
                        return aws_error("InvalidDefinition", message), 400

                    if self.statelint:  # Make sure StateLint was properly created.
                        problems = self.statelint.validate(definition)
                        if len(problems) > 0:
                            if len(problems) == 1:
                                error_count = "One error:"
                            elif len(problems) > 1:
                                error_count = "{} errors:".format(len(problems))
                            message = "State Machine {} InvalidDefinition {} {}\n{}".format(state_machine_arn, params.get("definition"), error_count, "\n".join(problems))
                            self.logger.error(
                                "RestAPI UpdateStateMachine: {}".format(message)
                            )
                            # Only return error if configured to do so.
                            if self.validate_asl:
                                return aws_error("InvalidDefinition", message), 400

                    updates["definition"] = definition

                if not role_arn and not definition:
                    self.logger.warning(
                        "RestAPI UpdateStateMachine: either roleArn or definition must be specified"
                    )
                    return aws_error("MissingRequiredParameter"), 400

                update_date = time.time()
                updates["updateDate"] = update_date

                """
                Handle the configuration describing where execution history
                events are logged and their log level.
                https://docs.aws.amazon.com/step-functions/latest/apireference/API_LoggingConfiguration.html
                https://docs.aws.amazon.com/step-functions/latest/dg/cloudwatch-log-level.html
                https://docs.aws.amazon.com/AmazonCloudWatch/latest/logs/iam-access-control-overview-cwl.html
                """
                logging_configuration = params.get("loggingConfiguration", {})
                if logging_configuration:
                    # Explicitly set default to OFF if not present in request.
                    logging_level = logging_configuration.get("level", "OFF")
                    logging_configuration["level"] = logging_level

                    if logging_level not in {"OFF", "ALL", "ERROR", "FATAL"}:
                        self.logger.error(
                            "RestAPI CreateStateMachine: Invalid logging configuration for State Machine '{}'.".format(state_machine_arn)
                        )
                        return aws_error("InvalidLoggingConfiguration"), 400

                    """
                    If level is not set to OFF the destinations field is required.
                    It is an array of objects that describes where execution
                    history events will be logged. Limited to size 1.
                    N.B. At present although destinations field is required for
                    levels other than OFF its value is currently ignored by the
                    ASL Engine.
                    """
                    if logging_level != "OFF":
                        destinations = logging_configuration.get("destinations")
                        if not (destinations and
                                isinstance(destinations , list) and
                                len(destinations) == 1):
                            self.logger.error(
                                "RestAPI CreateStateMachine: Invalid logging configuration for State Machine '{}'.".format(state_machine_arn)
                            )
                            return aws_error("InvalidLoggingConfiguration"), 400

                    updates["loggingConfiguration"] = logging_configuration

                state_machine.update(updates)
                self.asl_store[state_machine_arn] = state_machine

                resp = {"updateDate": update_date}

                return jsonify(resp), 200

            async def aws_api_DeleteStateMachine():
                """
                https://docs.aws.amazon.com/step-functions/latest/apireference/API_DeleteStateMachine.html
                TODO This should really mark the state machine for deletion and
                "The state machine itself is deleted after all executions are 
                completed or deleted."
                """
                state_machine_arn = params.get("stateMachineArn")
                if not state_machine_arn:
                    self.logger.warning(
                        "RestAPI DeleteStateMachine: stateMachineArn must be specified"
                    )
                    return aws_error("MissingRequiredParameter"), 400

                if not valid_state_machine_arn(state_machine_arn):
                    self.logger.warning(
                        "RestAPI DeleteStateMachine: {} is an invalid State Machine ARN".format(
                            state_machine_arn
                        )
                    )
                    return aws_error("InvalidArn"), 400

                # Look up stateMachineArn
                state_machine = self.asl_store.get_cached_view(state_machine_arn)
                if not state_machine:
                    self.logger.info(
                        "RestAPI DeleteStateMachine: State Machine {} does not exist".format(
                            state_machine_arn
                        )
                    )
                    return aws_error("StateMachineDoesNotExist"), 400

                del self.asl_store[state_machine_arn]

                return "", 200

            async def aws_api_StartExecution():
                """
                https://docs.aws.amazon.com/step-functions/latest/apireference/API_StartExecution.html
                """
                # print(params)
                state_machine_arn = params.get("stateMachineArn")
                if not state_machine_arn:
                    self.logger.warning(
                        "RestAPI StartExecution: stateMachineArn must be specified"
                    )
                    return aws_error("MissingRequiredParameter"), 400

                if not valid_state_machine_arn(state_machine_arn):
                    self.logger.warning(
                        "RestAPI StartExecution: {} is an invalid State Machine ARN".format(
                            state_machine_arn
                        )
                    )
                    return aws_error("InvalidArn"), 400

                """
                If name isn't provided create one from a UUID. TODO names should
                be unique within a 90 day period, at the moment there is no code
                to check for uniqueness of provided names so client code that
                doesn't honour this may currently succeed in this implementation
                but fail if calling real AWS StepFunctions.
                """
                name = params.get("name", str(uuid.uuid4()))
                if not valid_name(name):
                    self.logger.warning(
                        "RestAPI StartExecution: {} is an invalid name".format(name)
                    )
                    return aws_error("InvalidName"), 400

                input = params.get("input", "{}")
                """
                First check if the input length has exceeded the 262144 character
                quota described in Stepfunction Quotas page.
                https://docs.aws.amazon.com/step-functions/latest/dg/limits.html
                """
                if len(input) > MAX_DATA_LENGTH:
                    self.logger.error(
                        "RestAPI StartExecution: input size for execution '{}' exceeds "
                        "the maximum number of characters service limit.".format(name)
                    )
                    return aws_error("InvalidExecutionInput"), 400

                try:
                    input = json.loads(input)
                except TypeError as e:
                    self.logger.error("RestAPI StartExecution: Invalid input, {}".format(e))
                    return aws_error("InvalidExecutionInput"), 400
                except ValueError as e:
                    self.logger.error(
                        "RestAPI StartExecution: input {} does not contain valid JSON".format(
                            input
                        )
                    )
                    return aws_error("InvalidExecutionInput"), 400

                # Look up stateMachineArn
                state_machine = self.asl_store.get_cached_view(state_machine_arn)
                if not state_machine:
                    self.logger.info(
                        "RestAPI StartExecution: State Machine {} does not exist".format(
                            state_machine_arn
                        )
                    )
                    return aws_error("StateMachineDoesNotExist"), 400


                # Form executionArn from stateMachineArn and name
                arn = parse_arn(state_machine_arn)
                execution_arn = create_arn(
                    service="states",
                    region=arn.get("region", self.region),
                    account=arn["account"],
                    resource_type="execution",
                    resource=arn["resource"] + ":" + name,
                )

                with opentracing.tracer.start_active_span(
                    operation_name="StartExecution:ExecutionLaunching",
                    child_of=span_context("http_headers", request.headers, self.logger),
                    tags={
                        "component": "rest_api",
                        "execution_arn": execution_arn
                    }
                ) as scope:
                    """
                    The application context is described in the AWS documentation:
                    https://docs.aws.amazon.com/step-functions/latest/dg/input-output-contextobject.html
                    """
                    # https://stackoverflow.com/questions/8556398/generate-rfc-3339-timestamp-in-python
                    start_time = datetime.now(timezone.utc).astimezone().isoformat()
                    context = {
                        "Tracer": inject_span("text_map", scope.span, self.logger),
                        "Execution": {
                            "Id": execution_arn,
                            "Input": input,
                            "Name": name,
                            "RoleArn": state_machine.get("roleArn"),
                            "StartTime": start_time,
                        },
                        "State": {"EnteredTime": start_time, "Name": ""},  # Start state
                        "StateMachine": {
                            "Id": state_machine_arn,
                            "Name": state_machine.get("name"),
                        },
                    }

                    event = {"data": input, "context": context}

                    """
                    threadsafe=True is important here as the RestAPI runs in a
                    different thread to the main event_dispatcher loop.
                    use_shared_queue=True publishes to a queue shared by all
                    workflow engine instances which allows executions to be
                    load-balanced across instances.
                    """
                    try:
                        self.event_dispatcher.publish(
                            event, threadsafe=True, use_shared_queue=True
                        )
                    except:
                        message = ("RestAPI StartExecution: Internal messaging "
                                  "error, start message could not be published.")
                        self.logger.error(message)
                        return aws_error("InternalError", message), 500

                    resp = {"executionArn": execution_arn, "startDate": time.time()}

                    return jsonify(resp), 200

            async def aws_api_StartSyncExecution():
                """
                https://docs.aws.amazon.com/step-functions/latest/apireference/API_StartSyncExecution.html
                """
                # print(params)
                state_machine_arn = params.get("stateMachineArn")
                if not state_machine_arn:
                    self.logger.warning(
                        "RestAPI StartSyncExecution: stateMachineArn must be specified"
                    )
                    return aws_error("MissingRequiredParameter"), 400

                if not valid_state_machine_arn(state_machine_arn):
                    self.logger.warning(
                        "RestAPI StartSyncExecution: {} is an invalid "
                        "State Machine ARN".format(
                            state_machine_arn
                        )
                    )
                    return aws_error("InvalidArn"), 400

                """
                If name isn't provided create one from a UUID. TODO names should
                be unique within a 90 day period, at the moment there is no code
                to check for uniqueness of provided names so client code that
                doesn't honour this may currently succeed in this implementation
                but fail if calling real AWS StepFunctions.
                """
                name = params.get("name", str(uuid.uuid4()))
                if not valid_name(name):
                    self.logger.warning(
                        "RestAPI StartSyncExecution: {} is an invalid name".format(name)
                    )
                    return aws_error("InvalidName"), 400

                input_as_string = params.get("input", "{}")
                """
                First check if the input length has exceeded the 262144 character
                quota described in Stepfunction Quotas page.
                https://docs.aws.amazon.com/step-functions/latest/dg/limits.html
                """
                if len(input_as_string) > MAX_DATA_LENGTH:
                    self.logger.error(
                        "RestAPI StartSyncExecution: input size for execution "
                        "'{}' exceeds the maximum number of characters "
                        "service limit.".format(name)
                    )
                    return aws_error("InvalidExecutionInput"), 400

                try:
                    input = json.loads(input_as_string)
                except TypeError as e:
                    self.logger.error("RestAPI StartSyncExecution: "
                                      "Invalid input, {}".format(e))
                    return aws_error("InvalidExecutionInput"), 400
                except ValueError as e:
                    self.logger.error(
                        "RestAPI StartSyncExecution: input {} does not "
                        "contain valid JSON".format(
                            input
                        )
                    )
                    return aws_error("InvalidExecutionInput"), 400

                # Look up stateMachineArn
                state_machine = self.asl_store.get_cached_view(state_machine_arn)
                if not state_machine:
                    self.logger.info(
                        "RestAPI StartSyncExecution: State Machine {} does "
                        "not exist".format(
                            state_machine_arn
                        )
                    )
                    return aws_error("StateMachineDoesNotExist"), 400

                if state_machine.get("type") != "EXPRESS":
                    self.logger.error(
                        "RestAPI StartSyncExecution: Method is only supported "
                        "by EXPRESS workflows"
                    )
                    return aws_error("StateMachineTypeNotSupported"), 400

                # Form executionArn from stateMachineArn and name
                arn = parse_arn(state_machine_arn)
                execution_arn = create_arn(
                    service="states",
                    region=arn.get("region", self.region),
                    account=arn["account"],
                    resource_type="execution",
                    resource=arn["resource"] + ":" + name,
                )

                with opentracing.tracer.start_active_span(
                    operation_name="StartSyncExecution:ExecutionLaunching",
                    child_of=span_context("http_headers", request.headers, self.logger),
                    tags={
                        "component": "rest_api",
                        "execution_arn": execution_arn
                    }
                ) as scope:
                    """
                    The application context is described in the AWS documentation:
                    https://docs.aws.amazon.com/step-functions/latest/dg/input-output-contextobject.html
                    """
                    # https://stackoverflow.com/questions/8556398/generate-rfc-3339-timestamp-in-python
                    start_time = datetime.now(timezone.utc).astimezone().isoformat()
                    context = {
                        "Tracer": inject_span("text_map", scope.span, self.logger),
                        "Execution": {
                            "Id": execution_arn,
                            "Input": input,
                            "Name": name,
                            "RoleArn": state_machine.get("roleArn"),
                            "StartTime": start_time,
                        },
                        "State": {"EnteredTime": start_time, "Name": ""},  # Start state
                        "StateMachine": {
                            "Id": state_machine_arn,
                            "Name": state_machine.get("name"),
                        },
                    }

                    """
                    Create a future that will allow us to await the result of
                    the state machine that we will be launching. The result
                    will eventually be set by end_execution() in StateMachine
                    which will in turn call TaskDispatcher handle_sfn_response().
                    We pass on_result() as the callback to handle_sfn_response()
                    and use that to call future.set_result() to resolve the
                    future. To avoid blocking forever we set a timeout and use
                    that to call future.set_exception().
                    """
                    future = asyncio.get_event_loop().create_future()

                    def on_result(result):
                        future.set_result(result)  # result is execution_detail

                    def on_timeout():
                        if execution_arn in self.task_dispatcher.pending_requests:
                            del self.task_dispatcher.pending_requests[execution_arn]
                        future.set_exception(Exception("timeout"))

                    """
                    The value for timeout should really be 300000 as the
                    EXPRESS workflow execution quota is 5 minutes. This has
                    been "relaxed" to 30 minutes here because usage of the
                    ASL Engine by the author has often used EXPRESS to avoid
                    recording execution metadata and used the start/end
                    execution AMQP broadcast that emulates CloudWatch Events.
                    As CloudWatch Events aren't supported by AWS EXPRESS
                    Stepfunctions we already have a bit of blurring of lines
                    between EXPRESS and STANDARD. TODO maybe this timeout
                    should be configurable so we can force limits closer to
                    real AWS EXPRESS workflows.
                    """
                    timeout = 1800000
                    timeout_id = self.event_dispatcher.set_timeout(
                        on_timeout, timeout
                    )

                    """
                    The service response message is handled by handle_sfn_response()
                    If the response occurs before the timeout expires the timeout
                    should be cancelled, so we store the timeout_id as well as the
                    required callback in the dict keyed by correlation_id.
                    """
                    self.task_dispatcher.pending_requests[execution_arn] = (
                        None,  # Unused by handle_sfn_response() on this path
                        None,  # Unused by handle_sfn_response() on this path
                        "aws_api_StartSyncExecution",  # Fake resource
                        on_result,
                        None,  # Unused by handle_sfn_response() on this path
                        0,     # Unused by handle_sfn_response() on this path
                        timeout_id,
                        None   # Unused by handle_sfn_response() on this path
                    )

                    """
                    threadsafe=True is important here as the RestAPI runs in a
                    different thread to the main event_dispatcher loop.
                    use_shared_queue=False publishes to the queue associated
                    with this workflow engine instance. That is necessary for
                    StartSyncExecution as we need to be able to correlate the
                    child execution request and its subsequent completion.
                    """
                    event = {"data": input, "context": context}
                    try:
                        self.event_dispatcher.publish(
                            event, threadsafe=True, use_shared_queue=False
                        )
                    except:
                        message = ("RestAPI StartSyncExecution: Internal messaging "
                                  "error, start message could not be published.")
                        self.logger.error(message)
                        return aws_error("InternalError", message), 500

                    try:
                        resp = await future
                        return jsonify(resp), 200
                    except Exception as e:
                        return "Execution Timed Out", 408

            async def aws_api_ListExecutions():
                """
                https://docs.aws.amazon.com/step-functions/latest/apireference/API_ListExecutions.html
                """
                state_machine_arn = params.get("stateMachineArn")
                if not state_machine_arn:
                    self.logger.warning(
                        "RestAPI ListExecutions: stateMachineArn must be specified"
                    )
                    return aws_error("MissingRequiredParameter"), 400

                if not valid_state_machine_arn(state_machine_arn):
                    self.logger.warning(
                        "RestAPI ListExecutions: {} is an invalid State Machine ARN".format(
                            state_machine_arn
                        )
                    )
                    return aws_error("InvalidArn"), 400

                # Look up stateMachineArn
                state_machine = self.asl_store.get_cached_view(state_machine_arn)
                if not state_machine:
                    self.logger.info(
                        "RestAPI ListExecutions: State Machine {} does not exist".format(
                            state_machine_arn
                        )
                    )
                    return aws_error("StateMachineDoesNotExist"), 400

                status_filter = params.get("statusFilter")
                if status_filter and status_filter not in {
                    "RUNNING",
                    "SUCCEEDED",
                    "FAILED",
                    "TIMED_OUT",
                    "ABORTED",
                }:
                    status_filter = None

                """
                Populate response using list and dict comprehensions
                https://www.pythonforbeginners.com/basics/list-comprehensions-in-python
                https://stackoverflow.com/questions/5352546/extract-subset-of-key-value-pairs-from-python-dictionary-object

                TODO handle nextToken stuff.
                Note that ListExecutions is potentially a very expensive call as
                there might well be a large number of executions for any given
                State Machine and moreover the execution details are stored as
                Redis hashes that are themselves keyed by the execution ARN. In
                other words it is not *natively* a list and under the covers
                listing the executions is implemented by a redis.scan. One
                option for improving things might be to use the next_token to
                wrap a scan cursor. That approach should works as the maxResults
                in the API call is only a hint and the actual number of results
                returned per call might be fewer than the specified maximum, so
                that fits somewhat to the constraints of Redis scan cursors.
                """
                next_token = ""

                executions = [
                    {
                        k1: v[k1] for k1 in ("executionArn", "name", "startDate",       
                            "stateMachineArn", "status", "stopDate")
                    }
                    for k, v in self.executions.items()
                    if v["stateMachineArn"] == state_machine_arn
                    and (status_filter == None or v["status"] == status_filter)
                ]

                resp = {
                    "executions": executions
                }
                if next_token:
                    resp["nextToken"] = next_token

                return jsonify(resp), 200

            async def aws_api_DescribeExecution():
                """
                https://docs.aws.amazon.com/step-functions/latest/apireference/API_DescribeExecution.html
                """
                execution_arn = params.get("executionArn")
                if not execution_arn:
                    self.logger.warning(
                        "RestAPI DescribeExecution: executionArn must be specified"
                    )
                    return aws_error("MissingRequiredParameter"), 400

                if not valid_execution_arn(execution_arn):
                    self.logger.warning(
                        "RestAPI DescribeExecution: {} is an invalid Execution ARN".format(
                            execution_arn
                        )
                    )
                    return aws_error("InvalidArn"), 400

                # Look up executionArn
                execution = self.executions.get(execution_arn)
                if not execution:
                    self.logger.info(
                        "RestAPI DescribeExecution: Execution {} does not exist".format(
                            execution_arn
                        )
                    )
                    return aws_error("ExecutionDoesNotExist"), 400

                if not isinstance(execution , dict):  # May be (non JSON) RedisDict
                    execution = dict(execution)
                return jsonify(execution), 200

            async def aws_api_GetExecutionHistory():
                """
                https://docs.aws.amazon.com/step-functions/latest/apireference/API_GetExecutionHistory.html
                """
                # print(params)

                execution_arn = params.get("executionArn")
                if not execution_arn:
                    self.logger.warning(
                        "RestAPI GetExecutionHistory: executionArn must be specified"
                    )
                    return aws_error("MissingRequiredParameter"), 400

                if not valid_execution_arn(execution_arn):
                    self.logger.warning(
                        "RestAPI GetExecutionHistory: {} is an invalid Execution ARN".format(
                            execution_arn
                        )
                    )
                    return aws_error("InvalidArn"), 400

                reverse_order = params.get("reverseOrder", False)

                # Look up executionArn
                history = self.execution_history.get(execution_arn)
                if not history:
                    self.logger.info(
                        "RestAPI GetExecutionHistory: Execution {} does not exist".format(
                            execution_arn
                        )
                    )
                    return aws_error("ExecutionDoesNotExist"), 400

                """
                Reverse via slicing: [start:stop:step] so step is -1
                https://stackoverflow.com/questions/3940128/how-can-i-reverse-a-list-in-python

                TODO handle nextToken stuff.

                Note that GetExecutionHistory is potentially an expensive call
                if the history is large. The store self.execution_history has
                list semantics, but is backed by an external (e.g. Redis) store.
                Under the covers it will do a redis.lrange, so the next_token
                behaviour when implemented should "slice" the appropriate range.
                Note that doing this for GetExecutionHistory should be easier
                than for ListExecutions - see comment in ListExecutions for why.
                """
                if reverse_order:
                    history = history[::-1]
                else:
                    history = history[:]

                next_token = ""

                resp = {"events": history}
                if next_token:
                    resp["nextToken"] = next_token

                return jsonify(resp), 200

            async def aws_api_SendTaskSuccess():
                """
                https://docs.aws.amazon.com/step-functions/latest/apireference/API_SendTaskSuccess.html
                """
                encoded_task_token = params.get("taskToken")
                output = params.get("output")
                if not (encoded_task_token and output):
                    self.logger.warning(
                        "RestAPI SendTaskSuccess: taskToken and output must be specified"
                    )
                    return aws_error("MissingRequiredParameter"), 400

                """
                First check if the output length has exceeded the 262144 character
                quota described in Stepfunction Quotas page.
                https://docs.aws.amazon.com/step-functions/latest/dg/limits.html
                """
                if len(output) > MAX_DATA_LENGTH:
                    self.logger.error(
                        "RestAPI SendTaskSuccess: InvalidOutput: size exceeds "
                        "the maximum number of characters service limit."
                    )
                    return aws_error("InvalidOutput"), 400

                # Check that the supplied output parameter is valid JSON
                try:
                    json.loads(output)
                except ValueError as e:
                    self.logger.error(
                        f"RestAPI SendTaskSuccess: InvalidOutput: invalid JSON {output}"
                    )
                    return aws_error("InvalidOutput"), 400

                try:
                    input_bytes = bytes(encoded_task_token, "utf-8")  # Get bytes from string
                    task_token = base64.b64decode(input_bytes).decode("utf-8")

                    split = task_token.split(":")
                    if len(split) != 2:  # Needs Correlation ID and Reply To
                        raise Exception(f"Malformed TaskToken {task_token}")
                    correlation_id = split[0]
                    reply_to = split[1]

                    if not correlation_id.endswith(".waitForTaskToken"):
                        raise Exception(f"Malformed TaskToken {task_token}")
                except Exception as e:
                    self.logger.error(
                        f"RestAPI SendTaskSuccess: InvalidToken: {encoded_task_token} {e}"
                    )
                    return aws_error("InvalidToken"), 400

                message = Message(
                    output,
                    properties={"x-SendTaskSuccess": True},
                    content_type="application/json",
                    subject=reply_to,
                    correlation_id=correlation_id,
                )

                self.task_dispatcher.producer.send(message, threadsafe=True)

                """
                If the action is successful, the service sends back an HTTP 200
                response with an empty HTTP body.
                """
                return "", 200

            async def aws_api_SendTaskFailure():
                """
                https://docs.aws.amazon.com/step-functions/latest/apireference/API_SendTaskFailure.html
                """
                encoded_task_token = params.get("taskToken")
                if not (encoded_task_token):
                    self.logger.warning(
                        "RestAPI SendTaskFailure: taskToken must be specified"
                    )
                    return aws_error("MissingRequiredParameter"), 400


                """
                The error name is optional, but the outcome of the Task is
                decided from it, so a missing or empty name must still fail
                the Task rather than complete it successfully.
                """
                error = params.get("error") or "States.TaskFailed"
                cause = params.get("cause") or ""  # The cause is optional too.

                """
                First check if the error or cause exceed length limits.
                """
                if len(error) > 256:
                    self.logger.error(
                        "RestAPI SendTaskFailure: ValidationError: error size "
                        "exceeds maximum length of 256."
                    )
                    return aws_error("ValidationError"), 400

                if len(cause) > 32768:
                    self.logger.error(
                        "RestAPI SendTaskFailure: ValidationError: cause size "
                        "exceeds maximum length of 32768."
                    )
                    return aws_error("ValidationError"), 400

                try:
                    input_bytes = bytes(encoded_task_token, "utf-8")  # Get bytes from string
                    task_token = base64.b64decode(input_bytes).decode("utf-8")

                    split = task_token.split(":")
                    if len(split) != 2:  # Needs Correlation ID and Reply To
                        raise Exception(f"Malformed TaskToken {task_token}")
                    correlation_id = split[0]
                    reply_to = split[1]

                    if not correlation_id.endswith(".waitForTaskToken"):
                        raise Exception(f"Malformed TaskToken {task_token}")
                except Exception as e:
                    self.logger.error(
                        f"RestAPI SendTaskSuccess: InvalidToken: {encoded_task_token} {e}"
                    )
                    return aws_error("InvalidToken"), 400

                message = Message(
                    json.dumps({"errorType": error, "errorMessage": cause}),
                    properties={"x-SendTaskFailure": True},
                    content_type="application/json",
                    subject=reply_to,
                    correlation_id=correlation_id,
                )
                
                self.task_dispatcher.producer.send(message, threadsafe=True)

                """
                If the action is successful, the service sends back an HTTP 200
                response with an empty HTTP body.
                """
                return "", 200

            async def aws_api_InvalidAction():
                self.logger.error("RestAPI invalid action: {}".format(action))
                return "InvalidAction", 400

            # ------------------------------------------------------------------

            """
            Use the API action to dynamically invoke the appropriate handler.
            The "aws_api_" prefix mitigates the risk of the action value
            executing an arbitrary function, so disable semgrep warning.
            """
            try:
                # nosemgrep
                value, code = await locals().get("aws_api_" + action, aws_api_InvalidAction)()
                return value, code
            except Exception as e:
                self.logger.error(
                    "RestAPI action {} failed unexpectedly with exception: {}".format(
                        action, e
                    )
                )
                return "InternalError", 500

        return app

