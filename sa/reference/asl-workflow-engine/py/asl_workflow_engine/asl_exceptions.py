#
# Licensed to the Apache Software Foundation (ASF) under one
# or more contributor license agreements.  See the NOTICE file
# distributed with this work for additional information
# regarding copyright ownership.  The ASF licenses this file
# to you under the Apache License, Version 2.0 (the
# "License"); you may not use this file except in compliance
# with the License.  You may obtain a copy of the License at
#
#   http://www.apache.org/licenses/LICENSE-2.0
#
# Unless required by applicable law or agreed to in writing,
# software distributed under the License is distributed on an
# "AS IS" BASIS, WITHOUT WARRANTIES OR CONDITIONS OF ANY
# KIND, either express or implied.  See the License for the
# specific language governing permissions and limitations
# under the License.
#
"""
Defines the exceptions relating to ASL itself as defined in
https://states-language.net/spec.html.
"""

import sys
assert sys.version_info >= (3, 0)  # Bomb out if not running Python3


class Timeout(Exception):
    pass


class TaskFailed(Exception):
    pass


class Permissions(Exception):
    pass


class ResultPathMatchFailure(Exception):
    pass


class ParameterPathFailure(Exception):
    pass


class IntrinsicFailure(Exception):
    pass


class BranchFailed(Exception):
    pass


class NoChoiceMatched(Exception):
    pass


# Not defined in the ASL spec but used in the Choice state path handling.
class PathMatchFailure(Exception):
    pass
