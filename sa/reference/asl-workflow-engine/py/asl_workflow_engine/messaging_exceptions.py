#
# Licensed to the Apache Software Foundation (ASF) under one
# or more contributor license agreements.  See the NOTICE file
# distributed with this work for additional information
# regarding copyright ownership.  The ASF licenses this file
# to you under the Apache License, Version 2.0 (the
# "License"); you may not use this file except in compliance
# with the License.  You may obtain a copy of the License at
#
#   http://www.apache.org/licenses/LICENSE-2.0
#
# Unless required by applicable law or agreed to in writing,
# software distributed under the License is distributed on an
# "AS IS" BASIS, WITHOUT WARRANTIES OR CONDITIONS OF ANY
# KIND, either express or implied.  See the License for the
# specific language governing permissions and limitations
# under the License.
#
"""
Defines the exceptions raised by the messaging subsystem.
"""

import sys
assert sys.version_info >= (3, 0)  # Bomb out if not running Python3


class MessagingError(Exception):
    pass


class ConnectionError(MessagingError):
    pass


class SessionError(MessagingError):
    pass


class ProducerError(MessagingError):
    pass


class ConsumerError(MessagingError):
    pass


class SendError(MessagingError):
    pass


