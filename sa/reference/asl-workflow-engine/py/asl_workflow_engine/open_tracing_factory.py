#
# Licensed to the Apache Software Foundation (ASF) under one
# or more contributor license agreements.  See the NOTICE file
# distributed with this work for additional information
# regarding copyright ownership.  The ASF licenses this file
# to you under the Apache License, Version 2.0 (the
# "License"); you may not use this file except in compliance
# with the License.  You may obtain a copy of the License at
#
#   http://www.apache.org/licenses/LICENSE-2.0
#
# Unless required by applicable law or agreed to in writing,
# software distributed under the License is distributed on an
# "AS IS" BASIS, WITHOUT WARRANTIES OR CONDITIONS OF ANY
# KIND, either express or implied.  See the License for the
# specific language governing permissions and limitations
# under the License.
#
"""
This creates an OpenTracing tracer instance. It will default to the null
opentracing tracer and use either OpenTelemetry or the legacy JaegerTracing
client if configured to do so. For the purposes of migration to OpenTelemetry
the initial ASL Engine default will be JaegerTracing and require explicit
configuration to OpenTelemetry. IDC when that has proved stable the default
will become OpenTelemetry, with the aim of eventually removing Jaeger client.

This module also "patches" the AWS boto3 Python SDK to allow tracing to be
enabled on clients in a fairly transparent non-intrusive way. To do this it
is important to call create_tracer prior to any boto3.client calls, though this
is likely to be a fairly natural pattern.
"""

import sys
assert sys.version_info >= (3, 0)  # Bomb out if not running Python3

import os, opentracing  # Provides a default null opentracing.tracer instance

from asl_workflow_engine.logger import init_logging


def instrument_StartExecution(params, **kwargs):
    """
    boto3 event handler to create an OpenTracing span when Step Function
    StartExecution is called and then to inject (serialise) the span ID onto
    an HTTP header in the StepFunctions REST API so that the trace can be
    tracked through the Step Function execution and out to the Tasks it calls.

    Some background on extending boto3 via its events subsystem:
    https://boto3.amazonaws.com/v1/documentation/api/latest/guide/events.html
    https://github.com/boto/botocore/issues/902
    https://github.com/boto/botocore/blob/develop/botocore/handlers.py#L513
    """

    """
    Start an OpenTracing trace for the boto3 StartExecution request.
    https://opentracing.io/guides/python/tracers/ standard tags are from
    https://opentracing.io/specification/conventions/
    """
    with opentracing.tracer.start_active_span(
        operation_name="StartExecution",
        child_of=opentracing.tracer.active_span,
        tags={
            "component": "boto3",
            "boto3.service_name": "stepfunctions",
            "span.kind": "producer",  # Maybe "client" as it's logically RPC
            "peer.address": params["url"]
        }
    ) as scope:
        params["headers"].update(
            inject_span("http_headers", scope.span, create_tracer.logger)
        )

def patch_boto3():
    """
    Patch botocore/boto3 to enable OpenTracing.
    This first intercepts botocore.session.Session.create_client calls.
    The original approach (for boto3) wrapped boto3.client but that is sub-
    optimal as a) it won't work if we create a client from a custom Session
    b) creating a client from a custom Session is the only mechanism allowed
    in aioboto3. If the client is a stepfunctions client an event handler is
    registered on the StartExecution call that creates a span and injects
    it into the REST API HTTP headers.
    """
    try:
        import botocore

        # Save the original create_client function to use in the wrapper.
        saved_create_client = botocore.session.Session.create_client

        def create_client_wrapper(self, service_name, region_name=None,
            api_version=None, use_ssl=True, verify=None, endpoint_url=None,
            aws_access_key_id=None, aws_secret_access_key=None,
            aws_session_token=None, config=None,
        ):
            client = saved_create_client(self, service_name, region_name,
                api_version, use_ssl, verify, endpoint_url, aws_access_key_id,
                aws_secret_access_key, aws_session_token, config)

            if service_name == "stepfunctions":
                """
                Access boto3 event system and Register instrument_StartExecution
                function to the StartExecution and StartSyncExecution
                event before-call hook.
                """
                client.meta.events.register(
                    "before-call.stepfunctions.StartExecution",
                    instrument_StartExecution
                )
                client.meta.events.register(
                    "before-call.stepfunctions.StartSyncExecution",
                    instrument_StartExecution
                )
            return client

        # Patch boto3 to use create_client_wrapper
        botocore.session.Session.create_client = create_client_wrapper
    except AttributeError as e:
        pass
    except Exception as e:
        create_tracer.logger.warning(f"Failed to add Tracer to boto3: {e}")

def patch_aioboto3():
    """
    Patch aiobotocore/aioboto3 to enable OpenTracing.
    This first intercepts aiobotocore.session.AioSession._create_client calls.
    The original approach (for boto3) wrapped boto3.client but that is sub-
    optimal as a) it won't work if we create a client from a custom Session
    b) creating a client from a custom Session is the only mechanism allowed
    in aioboto3. If the client is a stepfunctions client an event handler is
    registered on the StartExecution call that creates a span and injects
    it into the REST API HTTP headers.
    """
    try:
        import aiobotocore

        # Save the original _create_client function to use in the wrapper.
        saved_create_client = aiobotocore.session.AioSession._create_client

        async def create_client_wrapper(self, service_name, region_name=None,
            api_version=None, use_ssl=True, verify=None, endpoint_url=None,
            aws_access_key_id=None, aws_secret_access_key=None,
            aws_session_token=None, config=None,
        ):
            client = await saved_create_client(self, service_name, region_name,
                api_version, use_ssl, verify, endpoint_url, aws_access_key_id,
                aws_secret_access_key, aws_session_token, config)

            if service_name == "stepfunctions":
                """
                Access boto3 event system and Register instrument_StartExecution
                function to the StartExecution and StartSyncExecution
                event before-call hook.
                """
                client.meta.events.register(
                    "before-call.stepfunctions.StartExecution",
                    instrument_StartExecution
                )
                client.meta.events.register(
                    "before-call.stepfunctions.StartSyncExecution",
                    instrument_StartExecution
                )
            return client

        # Patch aioboto3 to use create_client_wrapper
        aiobotocore.session.AioSession._create_client = create_client_wrapper
    except AttributeError as e:
        pass
    except Exception as e:
        create_tracer.logger.warning(f"Failed to add Tracer to aioboto3: {e}")

def create_tracer(service_name, config, use_asyncio=False):
    create_tracer.logger = init_logging(service_name)

    # Store default tracer in case creating concrete implementation fails.
    tracer = opentracing.tracer
    if config.get("implementation") == "Jaeger":
        create_tracer.logger.info("Creating Jaeger Tracer")
        try:
            # import deferred until Jaeger is selected in config.
            import jaeger_client
            import tornado.ioloop

            """
            If Implementation = Jaeger get the Jaeger config from the config
            dict if available, if not present create a sane default config.
            """
            jaeger_config = config.get("config")
            if not jaeger_config:
                jaeger_config = {
                    "sampler": {
                        "type": "const",
                        "param": 1
                    },
                    "logging": False
                }

            jaeger = jaeger_client.Config(
                service_name=config.get("service_name", service_name),
                config=jaeger_config,
            )

            """
            The init_logging(log_name="tornado") is important, though a bit
            obtuse. Without it all subsequent log messages generated will
            be duplicated. The issue is that "under the covers" Jaeger uses
            the tornado https://www.tornadoweb.org async networking library.
            Tornado's IOLoop creates a log handler if necessary when it
            is started, because if there were no handler configured
            you'd never see any of its event loop exception messages.
            The default handler is created for the root logger and ends up
            resulting in duplicate messages for other logs. By explicitly
            adding a handler for the tornado logger, as the following line
            does, the logging should be correctly handled. See:
            https://stackoverflow.com/questions/30373620/why-does-ioloop-in-tornado-seem-to-add-root-logger-handler
            """
            init_logging(log_name="tornado")

            """
            If we are using asyncio we want the tracer to use the main asyncio
            event loop rather than create a new ThreadLoop (which is the default
            behaviour unless a tornado IOLoop is passed. In recent versions of
            Tornado that delegates to the asyncio event loop so getting the
            current tornado IOLoop and passing that to initialize_tracer will
            cause the tracer to use the main event loop.
            """
            if use_asyncio:
                jaeger.initialize_tracer(io_loop=tornado.ioloop.IOLoop.current())
            else:
                jaeger.initialize_tracer()

            create_tracer.logger.info("Jaeger Tracer initialised")
        except Exception as e:
            create_tracer.logger.warning("Failed to initialise Jaeger Tracer : {}".format(e))
            opentracing.tracer = tracer

    elif config.get("implementation") == "OpenTelemetry":
        create_tracer.logger.info("Creating OpenTelemetry Tracer")
        try:
            """
            Some useful Documents on using OpenTelemetry with Jaeger:
            https://medium.com/jaegertracing/introducing-native-support-for-opentelemetry-in-jaeger-eb661be8183c
            https://msalinas92.medium.com/integrating-a-python-api-with-jaeger-using-opentelemetry-3885e0c80db0
            https://last9.io/blog/how-to-use-jaeger-with-opentelemetry/
            https://opentelemetry.io/docs/migration/opentracing/

            OpenTelemetry Client needs several packages to be installed
            https://opentelemetry.io/docs/languages/python/
            Core API and SDK packages
            pip install opentelemetry-api
            pip install opentelemetry-sdk

            In addition, there are several extension packages which can be
            installed separately (these use ports 4317, 4318, 6831
            respectively) note exporter-jaeger-thrift is considered deprecated
            as Jaeger now supports OTLP natively, but is included here in case
            of any migration issues when using OTLP.
            pip install opentelemetry-exporter-otlp-proto-grpc
            pip install opentelemetry-exporter-otlp-proto-http
            pip install opentelemetry-exporter-jaeger-thrift

            pip install opentelemetry-instrumentation-{instrumentation}
            pip install opentelemetry-opentracing-shim


            By default OpenTelemetry uses the "traceparent" header for
            prpagation, configured via the OTEL_PROPAGATORS env var which
            defaults to "tracecontext,baggage".
            https://dmathieu.com/en/development/opentelemetry-propagation/
            https://opentelemetry-python.readthedocs.io/en/stable/api/propagate.html
            https://opentelemetry.io/docs/languages/python/instrumentation/#change-the-default-propagation-format
            https://opentelemetry.io/docs/specs/otel/configuration/sdk-environment-variables/

            To propagate Jaeger's "uber-trace-id" to/from W3C "traceparent"
            headers when injecting/extracting spans we need Jaeger propagator:
            pip install opentelemetry-propagator-jaeger
            (or pip install opentelemetry-propagator-aws-xray for AWS X-Ray)
            and modify the env var "tracecontext,baggage,jaeger".

            ASL Engine respects that OTEL_PROPAGATORS env var but also provided
            convenience configuration via OTEL_ADDITIONAL_PROPAGATORS env var
            or additional_propagators JSON so we only have to configure any
            additional propagators whilst also respecting the defaults which
            makes it easier to temporarily include Jaeger whilst migrating
            and then remove it to avoid unnecessary propagation headers.

            The config argument contains OpenTelemetry configuration of the form:
            {
                "implementation": "OpenTelemetry",
                "service_name": "asl_workflow_engine",
                "config": {
                    "exporter": "otlp-proto-grpc",
                    "additional_propagators": "jaeger",
                    "sampler": {
                        "type": "probabilistic",
                        "param": 0.01
                    }
                }
            }
            The sampler config mirrors the Jaeger Client values for ease of
            transition and in this example maps to the OpenTelemetry values:
            OTEL_TRACES_SAMPLER=parentbased_traceidratio
            OTEL_TRACES_SAMPLER_ARG=0.01
            """

            # Explicitly add a handler for the opentelemetry logger
            init_logging(log_name="opentelemetry")

            # For exporter, additional_propagators, etc. configuration.
            otel_config = config.get("config", {})

            # Initialise propagators before importing
            ap = otel_config.get("additional_propagators", "")
            propagators = "tracecontext,baggage," + ap if ap else "tracecontext,baggage"

            # Set OTEL_PROPAGATORS with new propagators unless it is already set.
            if "OTEL_PROPAGATORS" in os.environ:
                propagators = os.environ.get("OTEL_PROPAGATORS")
            else:
                os.environ["OTEL_PROPAGATORS"] = propagators

            # imports deferred until OpenTelemetry is selected in config.
            from opentelemetry import trace
            from opentelemetry.sdk.resources import Resource
            from opentelemetry.sdk.trace import TracerProvider

            """
            Use OpenTracing Shim for OpenTelemetry to ease migration from
            OpenTracing to OpenTelemetry, as the shim allows OpenTracing spans
            to be used directly without requiring code rewrites.
            https://opentelemetry-python.readthedocs.io/en/stable/shim/opentracing_shim/opentracing_shim.html
            """
            from opentelemetry.shim import opentracing_shim

            """
            Get service name from env or config. Set env with the result.
            It is possible to configure programmatically via a construct like:
            trace.set_tracer_provider(
                TracerProvider(
                    resource=Resource.create({"service.name": service_name})
                )
            )
            but the approach used here allows OTEL env vars to be respected
            whilst also allowing JSON config and providing useful defaults. 
            """
            service_name = os.environ.get(
                "OTEL_SERVICE_NAME", config.get("service_name", service_name)
            )
            os.environ["OTEL_SERVICE_NAME"] = service_name

            """
            Configure sampler. The default of parentbased_traceidratio/0.01 is
            (I think) equivalent to Jaeger Client probabilistic/0.01. It seems
            particularly important to use sampling with the OpenTelemetry
            Client, especially when using the jaeger-thrift exporter which
            causes a fairly big performance hit compared to the Jaeger Client
            if set with the default parentbased_always_on sampler.
            """
            sampler = otel_config.get("sampler", {})
            sampler_type = os.environ.get(
                "OTEL_TRACES_SAMPLER", sampler.get("type", "const")
            )

            sampler_arg = os.environ.get(
                "OTEL_TRACES_SAMPLER_ARG", sampler.get("param", "1")
            )

            # Map from Jaeger Client config values to OpenTelemetry values
            if sampler_type == "const":
                arg = str(sampler_arg).lower()
                if arg in ['false', '0', 'none']:
                    sampler_type = "parentbased_always_off"
                    sampler_arg = "0.0"
                else:
                    sampler_type = "parentbased_always_on"
                    sampler_arg = "1.0"
            elif sampler_type == "probabilistic":
                sampler_type = "parentbased_traceidratio"

            # Configured values in env will be read by TracerProvider()
            os.environ["OTEL_TRACES_SAMPLER"] = sampler_type
            os.environ["OTEL_TRACES_SAMPLER_ARG"] = str(sampler_arg)

            # Initialise OpenTelemetry tracer.
            trace.set_tracer_provider(TracerProvider())

            """
            For now default to use our AsyncBatchSpanProcessor as that behaves
            in a very similar way to the Jaeger Client Reporter when supplied
            with the configuration we set below for the jaeger.thrift exporter.
            These settings significantly improve throughput performance for the
            case where jaeger.thrift exporter is used and where always_on/const
            sampling has been used. For OTLP exporters or where probabilistic
            sampling has been used the default queue/batch settings work well.
            """
            use_async_bsp_config = os.environ.get("OTEL_USE_ASYNC_BSP", "true")
            use_async_bsp = (
                use_asyncio and
                str(use_async_bsp_config).lower() not in ['false', '0', 'none']
            )

            # Valid values "otlp-proto-grpc"/"otlp-proto-http"/"jaeger-thrift"
            exporter_type = otel_config.get("exporter", "otlp-proto-grpc")
            exporter = None
            if exporter_type == "otlp-proto-grpc":
                from opentelemetry.exporter.otlp.proto.grpc.trace_exporter import OTLPSpanExporter
                exporter = OTLPSpanExporter()
            elif exporter_type == "otlp-proto-http":
                from opentelemetry.exporter.otlp.proto.http.trace_exporter import OTLPSpanExporter
                exporter = OTLPSpanExporter()
            elif exporter_type == "jaeger-thrift":
                """
                This exporter is considered deprecated as Jaeger now supports
                OTLP natively, but is included here in case of any migration
                issues when using OTLP. It will eventually be removed.
                """
                from opentelemetry.exporter.jaeger.thrift import JaegerExporter
                exporter = JaegerExporter()
                #exporter = JaegerExporter(udp_split_oversized_batches=True)

                """
                The config here Matches the queue_capacity and batch_size values
                used in Jaeger Client Reporter:
                https://github.com/jaegertracing/jaeger-client-python/blob/master/jaeger_client/reporter.py
                Setting OTEL_BSP_SYNC_EXPORT to True causes the exporter.export
                method to be called directly again following the approach used
                by Jaeger Client to call agent.emitBatch.
                """
                if use_async_bsp:
                    os.environ["OTEL_BSP_MAX_QUEUE_SIZE"] = "100"
                    os.environ["OTEL_BSP_MAX_EXPORT_BATCH_SIZE"] = "10"
                    os.environ["OTEL_BSP_SYNC_EXPORT"] = "True"
            else:
                raise NotImplementedError(f"Invalid exporter '{exporter_type}'")

            # Configure the trace processor, adding the exporter.
            if use_async_bsp:
                create_tracer.logger.info("Using AsyncBatchSpanProcessor")
                from asl_workflow_engine.otel_async_batch_span_processor import (
                    AsyncBatchSpanProcessor
                )
                trace.get_tracer_provider().add_span_processor(
                    AsyncBatchSpanProcessor(exporter)
                )
            else:
                create_tracer.logger.info("Using BatchSpanProcessor")
                from opentelemetry.sdk.trace.export import BatchSpanProcessor
                trace.get_tracer_provider().add_span_processor(
                    BatchSpanProcessor(exporter)
                )

            # Create an OpenTracing shim and assign it to the global tracer.
            opentracing.tracer = opentracing_shim.create_tracer(
                trace.get_tracer_provider()
            )

            create_tracer.logger.info(
                f"OpenTelemetry Tracer initialised, exporter: {exporter_type}, propagators: {propagators}, sampler: ({sampler_type}, arg: {sampler_arg})"
            )
        except Exception as e:
            create_tracer.logger.warning("Failed to initialise OpenTelemetry Tracer : {}".format(e))
            opentracing.tracer = tracer

    patch_boto3()
    patch_aioboto3()

def span_context(format, carrier, logger):
    """
    Boilerplate to extract the parent OpenTracing SpanContext from the carrier.
    Log a message and start new span if we can't extract SpanContext.
    See https://opentracing.io/docs/overview/inject-extract/
    """
    try:
        span_context = opentracing.tracer.extract(format, carrier)

    except Exception:
        logger.error("Missing trace-id property, unable to deserialise "
                     "SpanContext. Will have to create new trace")
        span_context = opentracing.tracer.start_span(operation_name="dangling_process")

    return span_context

def inject_span(format, span, logger):
    """
    Boilerplate to inject the OpenTracing SpanContext into a carrier in order
    to transport it via HTTP headers, AMQP message headers or ASL Context
    https://opentracing.io/docs/overview/inject-extract/
    """
    carrier = {}
    opentracing.tracer.inject(span, format, carrier)
    logger.debug("Tracing active span: carrier {}".format(carrier))

    return carrier

