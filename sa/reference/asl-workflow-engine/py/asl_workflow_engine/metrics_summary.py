#
# Licensed to the Apache Software Foundation (ASF) under one
# or more contributor license agreements.  See the NOTICE file
# distributed with this work for additional information
# regarding copyright ownership.  The ASF licenses this file
# to you under the Apache License, Version 2.0 (the
# "License"); you may not use this file except in compliance
# with the License.  You may obtain a copy of the License at
#
#   http://www.apache.org/licenses/LICENSE-2.0
#
# Unless required by applicable law or agreed to in writing,
# software distributed under the License is distributed on an
# "AS IS" BASIS, WITHOUT WARRANTIES OR CONDITIONS OF ANY
# KIND, either express or implied.  See the License for the
# specific language governing permissions and limitations
# under the License.
#
"""
With aioprometheus if you want a Summary metric the "obvious" thing to do is to
use the Summary class. The problem with that however is that it directly uses
the quantile.Estimator, which is an implementation of the Cormode, Korn,
Muthukrishnan, and Srivastava algorithm for streaming calculation of targeted
high-percentile epsilon-approximate quantiles. That Estimator retains *all*
observations in a linked list, so what happens is that over time the insert
and query time linearly degrades and gradually degrades the performance of the
application being metricated, which is far from ideal.


The "official" prometheus Python client doesn't store or expose quantiles at all.
https://github.com/prometheus/client_python#summary
This module provides a BasicSummary class that extends aioprometheus Summary to
provide a simple sum + observation count implementation as per the "official"
prometheus Python client.


The "official" prometheus Java client however does expose quantiles, but the
approach that it uses is to create a wrapper around CKMSQuantiles that maintains
a ring buffer of CKMSQuantiles to provide quantiles over a sliding time window.
https://github.com/prometheus/client_java/blob/master/simpleclient/src/main/java/io/prometheus/client/TimeWindowQuantiles.java

This module extends aioprometheus Summary with a TimeWindowSummary that
uses a custom time window Estimator.
"""

import sys
assert sys.version_info >= (3, 0)  # Bomb out if not running Python3

import time, quantile
from aioprometheus import Summary

class TimeWindowEstimator(object):
    """
    Estimator estimates quantile values from sample streams in a time- and
    memory-efficient manner subject to allowed error constraints.

    The Estimator basically follows the same API as quantile.Estimator but
    follows the pattern of the Java Summary, maintaining a ring buffer of
    quantile.Estimators to provide quantiles over a sliding windows of time.
    """
    def __init__(self, *quantiles, max_age_seconds=600, age_buckets=5):
        """Initialize an Estimator.

        Estimator is not concurrency safe.

        Args:
            quantiles: A list of floating point doubles containing the target
                quantile value and allowed error.   [(0.5, 0.01), (0.99, 0.001)]
                are the default if none are provided, signifying that the median
                will be provided at a one percent error limit and the 99th
                percentile at the a 0.1 percent error limit.
            max_age_seconds: The duration of the time window is, i.e. how long
                observations are kept before they are discarded.
                Default is 10 minutes.
            age_buckets: The number of buckets used to implement the sliding
                time window. If your time window is 10 minutes, and you have
                age_buckets=5, buckets will be switched every 2 minutes. The
                value is a trade-off between resources (memory and cpu for
                maintaining the bucket) and how smooth the time window is moved.
                Default value is 5.
        """
        self._quantiles = quantiles
        self._invariants = [quantile._Quantile(q, e) for (q, e) in quantiles]
        self._observations = 0
        self._sum = 0
        self._ring_buffer = []

        for i in range(age_buckets):
            self._ring_buffer.append(quantile.Estimator(*quantiles))

        self._current_bucket = 0
        self._last_rotate_timestamp_millis = time.time() * 1000
        self._duration_between_rotates_millis = (max_age_seconds  * 1000) / age_buckets

    def observe(self, value):
        """
        Samples an observation's value.

        Args:
            value: A numeric value signifying the value to be sampled.
        """
        self._observations += 1
        self._sum += value
        self._rotate()
        for e in self._ring_buffer:
            e.observe(float(value))

    def query(self, rank):
        """
        Retrieves the value estimate for the requested quantile rank.

        The requested quantile rank must be registered in the estimator's
        invariants a priori!

        Args:
            rank: A floating point quantile rank along the interval [0, 1].

        Returns:
            A numeric value for the quantile estimate.
        """
        current = self._rotate()
        if current._observations:
            return current.query(rank)
        else:
            """
            For the case where the current quantile.Estimator has received no
            observations, as would be the case when query is called after a
            period of no observations and an "empty" quantile.Estimator is
            rotated to the head of the ring buffer, it is unclear what the
            'best' value to return is. The Java CKMSQuantiles get() returns NaN
            https://github.com/prometheus/client_java/blob/master/simpleclient/src/main/java/io/prometheus/client/CKMSQuantiles.java
            so we do that here for consistency, however a better approach might
            be to record a reference "tail" of the ring buffer each time an
            observation is made and query that quantile.Estimator.
            """
            return float("NaN")

    def _rotate(self):
        """
        rotate the ring buffer when the time threshold has been exceeded.
        Returns:
            The quantile.Estimator from the current time window bucket.
        """
        time_since_last_rotate_millis = time.time() * 1000 - self._last_rotate_timestamp_millis

        while time_since_last_rotate_millis > self._duration_between_rotates_millis:
            self._ring_buffer[self._current_bucket] = quantile.Estimator(*self._quantiles)

            self._current_bucket += 1
            if self._current_bucket >= len(self._ring_buffer):
                self._current_bucket = 0

            time_since_last_rotate_millis -= self._duration_between_rotates_millis
            self._last_rotate_timestamp_millis += self._duration_between_rotates_millis

        return self._ring_buffer[self._current_bucket]


class TimeWindowSummary(Summary):
    """
    Extend aioprometheus Summary to use our custom time window Estimator.
    """
    def observe(self, labels, value):
        """
        Add a single observation to the summary. It is basically the same as
        aioprometheus Summary add/observe, but delegates to our custom time
        window Estimator rather than directly using quantile.Estimator.
        """
        if type(value) not in (float, int):
            raise TypeError("Summary only works with digits (int, float)")

        try:
            e = self.get_value(labels)
        except KeyError:
            # Initialize quantile estimator
            e = TimeWindowEstimator(*self.invariants)
            self.set_value(labels, e)

        e.observe(float(value))  # type: ignore


class BasicEstimator(object):
    """
    The Estimator basically follows the same API as quantile.Estimator but
    follows the pattern of the basic "official" prometheus client Summary
    to provide a simple summary comprising sum plus observation count.
    """
    def __init__(self):
        """Initialize an Estimator.
        """
        self._invariants = []  # Deliberately empty, but required by Summary.get()
        self._observations = 0
        self._sum = 0

    def observe(self, value):
        """
        Samples an observation's value.

        Args:
            value: A numeric value signifying the value to be sampled.
        """
        self._observations += 1
        self._sum += value

class BasicSummary(Summary):
    """
    Extend aioprometheus Summary to use our basic Estimator.
    """
    def observe(self, labels, value):
        """
        Add a single observation to the summary. It is basically the same as
        aioprometheus Summary add/observe, but delegates to our custom basic
        Estimator rather than directly using quantile.Estimator.
        """
        if type(value) not in (float, int):
            raise TypeError("Summary only works with digits (int, float)")

        try:
            e = self.get_value(labels)
        except KeyError:
            e = BasicEstimator()
            self.set_value(labels, e)

        e.observe(float(value))  # type: ignore

