#
# Licensed to the Apache Software Foundation (ASF) under one
# or more contributor license agreements.  See the NOTICE file
# distributed with this work for additional information
# regarding copyright ownership.  The ASF licenses this file
# to you under the Apache License, Version 2.0 (the
# "License"); you may not use this file except in compliance
# with the License.  You may obtain a copy of the License at
#
#   http://www.apache.org/licenses/LICENSE-2.0
#
# Unless required by applicable law or agreed to in writing,
# software distributed under the License is distributed on an
# "AS IS" BASIS, WITHOUT WARRANTIES OR CONDITIONS OF ANY
# KIND, either express or implied.  See the License for the
# specific language governing permissions and limitations
# under the License.
#
"""
AWS resources are identified by Amazon Resource Names (ARNs) specified here:
http://docs.aws.amazon.com/general/latest/gr/aws-arns-and-namespaces.html
This package comprises simple utility functions for creating and parsing ARNs.
"""

import sys
assert sys.version_info >= (3, 0)  # Bomb out if not running Python3


def create_arn(
    resource="",
    arn="arn",
    partition="aws",
    service="",
    region="",
    account="",
    resource_type=None,
):
    """
    Create an ARN string from its component parts, if this function is called
    passing a dictionary we use the ** operator to perform keyword expansion.
    """
    if isinstance(resource, dict):
        return create_arn(**resource)
    if resource_type:
        resource = resource_type + ":" + resource
    return "{}:{}:{}:{}:{}:{}".format(
        arn, partition, service, region, account, resource
    )

def parse_arn(arn):
    """
    Parse an ARN into a dictionary comprising the component parts of the ARN
    """
    elements = arn.split(":", 5)
    result = {
        "arn": elements[0],
        "partition": elements[1],
        "service": elements[2],
        "region": elements[3],
        "account": elements[4],
        "resource": elements[5],
        "resource_type": None,
    }
    if "/" in result["resource"]:
        result["resource_type"], result["resource"] = result["resource"].split("/", 1)
    elif ':' in result['resource']:
        result["resource_type"], result["resource"] = result["resource"].split(":", 1)
    return result
