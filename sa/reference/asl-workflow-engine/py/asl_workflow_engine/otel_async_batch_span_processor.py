#
# Licensed to the Apache Software Foundation (ASF) under one
# or more contributor license agreements.  See the NOTICE file
# distributed with this work for additional information
# regarding copyright ownership.  The ASF licenses this file
# to you under the Apache License, Version 2.0 (the
# "License"); you may not use this file except in compliance
# with the License.  You may obtain a copy of the License at
#
#   http://www.apache.org/licenses/LICENSE-2.0
#
# Unless required by applicable law or agreed to in writing,
# software distributed under the License is distributed on an
# "AS IS" BASIS, WITHOUT WARRANTIES OR CONDITIONS OF ANY
# KIND, either express or implied.  See the License for the
# specific language governing permissions and limitations
# under the License.
#
"""
The default OpenTelemetry BatchSpanProcessor, which is the most common/useful
OpenTelemetry SpanProcessor implementation providing hooks for SDK’s Span start
and end method invocations, runs as a worker Thread which is inefficient for
asyncio applications.

This is an alternative AsyncBatchSpanProcessor where the worker runs as an
asyncio coroutine task rather than a Thread.

This implementation somewhat based on this Proof of Concept:
https://github.com/open-telemetry/opentelemetry-python/pull/3489
https://github.com/open-telemetry/opentelemetry-python/pull/3489/files

but also the threaded BatchSpanProcessor:
https://github.com/open-telemetry/opentelemetry-python/blob/main/opentelemetry-sdk/src/opentelemetry/sdk/trace/export/__init__.py

and the jaeger_client Reporter:
https://github.com/jaegertracing/jaeger-client-python/blob/master/jaeger_client/reporter.py

Hopefully in due course the official OpenTelemetry SDK will provide better
support for running asyncio workloads and we can then use those directly,
but for now some DIY seems prudent.
"""

import sys
assert sys.version_info >= (3, 9)  # Bomb out if not running Python3.9

import asyncio
import logging
import threading  # Needed for threading.Event
from typing import List, Optional
import os

from opentelemetry import context as context_api
from opentelemetry.sdk.trace import ReadableSpan, Span
from opentelemetry.sdk.trace.export import (
    BatchSpanProcessor,
    SpanExporter,
    SpanProcessor,
)

logger = logging.getLogger(__name__)

class AsyncBatchSpanProcessor(SpanProcessor):
    def __init__(
        self,
        span_exporter: SpanExporter,
        *,
        max_queue_size: Optional[int] = None,
        schedule_delay_millis: Optional[float] = None,
        max_export_batch_size: Optional[int] = None,
        export_timeout_millis: Optional[float] = None,
    ):
        if max_queue_size is None:
            max_queue_size = BatchSpanProcessor._default_max_queue_size()

        if schedule_delay_millis is None:
            schedule_delay_millis = (
                BatchSpanProcessor._default_schedule_delay_millis()
            )

        if max_export_batch_size is None:
            max_export_batch_size = (
                BatchSpanProcessor._default_max_export_batch_size()
            )

        if export_timeout_millis is None:
            export_timeout_millis = (
                BatchSpanProcessor._default_export_timeout_millis()
            )

        BatchSpanProcessor._validate_arguments(
            max_queue_size, schedule_delay_millis, max_export_batch_size
        )

        """
        This config is not in the threaded BatchSpanProcessor. Setting it to
        true directly calls self.span_exporter.export(spans) rather than using
        await asyncio.to_thread(self.span_exporter.export, spans) to launch
        via a ThreadPoolExecutor. Setting this causes AsyncBatchSpanProcessor
        to behave more like the Jaeger Client where self.agent.emitBatch(batch)
        is called directly.

        Doing this without care in an asyncio application _could_ block the
        event loop, however it is how Jaeger Client behaves and causes few/no
        issues likely as the batch size is small and the jaeger-thrift transport
        uses UDP.

        The default is false and it should only be set true if the exporter
        has been set to jaeger-thrift
        """
        sync_export = os.environ.get("OTEL_BSP_SYNC_EXPORT", "false")
        self.sync_export = str(sync_export).lower() not in ['false', '0', 'none']

        self.span_exporter = span_exporter
        self.queue: asyncio.Queue = asyncio.Queue(maxsize=max_queue_size)
        # A sentinel value that may be put on the queue to force a flush
        self.flush_marker = object()
        # Allows force_flush subroutine to block waiting for _force_flush
        # coroutine to complete.
        self.flush_event = threading.Event()

        self.worker_task: asyncio.Task[None]

        self.schedule_delay_millis = schedule_delay_millis
        self.max_export_batch_size = max_export_batch_size
        self.max_queue_size = max_queue_size
        self.export_timeout_millis = export_timeout_millis

        asyncio.get_event_loop().run_until_complete(self._start())

        #self.put_count = 0
        #self.drop_count = 0

    async def _start(self) -> None:
        self.worker_task = asyncio.get_event_loop().create_task(self._consume_queue())

    async def _enqueue(self, span: ReadableSpan) -> None:
        try:
            self.queue.put_nowait(span)
            #self.put_count+=1
            #print(f"put_count {self.put_count}")
        except asyncio.QueueFull:
            # drop the span
            #logger.info("Queue is full, dropping span!")
            #self.drop_count+=1
            #print(f"drop_count {self.drop_count}")
            pass

    async def _consume_queue(self) -> None:
        cancelled = False
        spans = []
        while not cancelled:
            while len(spans) < self.max_export_batch_size:
                try:
                    # A timeout allows for a periodic flush with smaller packets.
                    timeout = self.schedule_delay_millis/1000
                    span = await asyncio.wait_for(self.queue.get(), timeout=timeout)
                    # If self.flush_marker has been enqueued exit inner loop
                    # and export accumulated spans.
                    if span == self.flush_marker:
                        self.queue.task_done()
                        break
                    else:
                        spans.append(span)
                except asyncio.TimeoutError:
                    break
                except asyncio.CancelledError:
                    logger.info("Task _consume_queue cancelled")
                    cancelled = True
                    break

            if spans:
                await self._export_batch(spans)
                for _ in spans:
                    self.queue.task_done()
                spans = []

    async def _export_batch(self, spans: List[ReadableSpan]) -> None:
        # Send a batch of spans to the exporter set at construction time.
        if self.sync_export:
            self.span_exporter.export(spans)
        else:
            """
            Under the hood asyncio.to_thread uses loop.run_in_executor with the
            loop's default Executor. Unfortunately use of ThreadPoolExecutors
            can behave "strangely" in atexit hooks. See
            https://github.com/python/cpython/issues/86813

            One approach is to use a custom ThreadPoolExecutor in a context
            stack and do context_stack.close() in the exit handler to cleanly
            close the thread pool. A simpler approach, that lets us use
            to_thread here rather than explicitly using ThreadPoolExecutor, is
            to check if it fails with RuntimeError then simply try again using
            a direct (potentially blocking) call to span_exporter.export().
            """
            try:
                await asyncio.to_thread(self.span_exporter.export, spans)
            except RuntimeError:
                logging.warn(
                    "ThreadPoolExecutor was already shutdown, exporting "
                    "synchronously in event loop thread. This might be "
                    "running in an atexit hook."
                )
                self.span_exporter.export(spans)

    async def _shutdown(self) -> None:
        self.worker_task.cancel()

    async def _force_flush(self) -> None:
        await self.queue.put(self.flush_marker)
        await self.queue.join()  # await all enqueued items being processed
        self.flush_event.set()   # Notify/unblock force_flush() call

    # SpanProcessor API Calls

    def on_start(
        self, span: Span, parent_context: Optional[context_api.Context] = None,
    ) -> None:
        pass

    def on_end(self, span: ReadableSpan) -> None:
        asyncio.get_event_loop().create_task(self._enqueue(span))

    def shutdown(self) -> None:
        asyncio.get_event_loop().run_until_complete(self._shutdown())

    def force_flush(self, timeout_millis: int = None) -> bool:
        if timeout_millis is None:
            timeout_millis = self.export_timeout_millis

        loop = asyncio.get_event_loop()
        if not loop.is_running():
            logger.warning("Already shutdown, ignoring call to force_flush()")
            return True

        self.flush_event.clear()
        # Launch a coroutine to force any queued spans to be emitted and signal
        # self.flush_event once that has happened.
        loop.create_task(self._force_flush())
        # Wait for flush_event to be signalled by _force_flush().
        return self.flush_event.wait(timeout_millis/1000)

