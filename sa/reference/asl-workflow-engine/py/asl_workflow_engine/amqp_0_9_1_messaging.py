#
# Licensed to the Apache Software Foundation (ASF) under one
# or more contributor license agreements.  See the NOTICE file
# distributed with this work for additional information
# regarding copyright ownership.  The ASF licenses this file
# to you under the Apache License, Version 2.0 (the
# "License"); you may not use this file except in compliance
# with the License.  You may obtain a copy of the License at
#
#   http://www.apache.org/licenses/LICENSE-2.0
#
# Unless required by applicable law or agreed to in writing,
# software distributed under the License is distributed on an
# "AS IS" BASIS, WITHOUT WARRANTIES OR CONDITIONS OF ANY
# KIND, either express or implied.  See the License for the
# specific language governing permissions and limitations
# under the License.
#
"""
Provides a JMS-like Connection/Session/Producer/Consumer/Message abstraction for
AMQP 0.9.1 connections (to RabbitMQ, though may work with other brokers).

By using JMS-like semantics the intention is to have an API that is already
reasonably abstracted from the underlying messaging fabric, so that it should
*hopefully* be a little simpler to build implementations for other fabrics.
"""

import sys
assert sys.version_info >= (3, 0)  # Bomb out if not running Python3

import json

# Tested using Pika 1.0.1, may not work correctly with earlier versions.
import pika  # sudo pip3 install pika

from asl_workflow_engine.logger import init_logging
from asl_workflow_engine.messaging_exceptions import *

class Connection(object):
    def __init__(self, url="amqp://localhost:5672"):
        """
        Creates a connection. A newly created connection must be opened with the
        Connection.open() method before it can be used.

        For RabbitMQ AMQP Connection URL documentation see:
        https://pika.readthedocs.io/en/stable/modules/parameters.html
        https://pika.readthedocs.io/en/stable/examples/using_urlparameters.html
        """
        self.logger = init_logging(log_name="amqp_0_9_1_messaging")
        """
        We want to log the URL, but that would contain the password if present,
        so we create a redacted version for logging purposes.
        """
        p = pika.compat.urlparse(url)
        password = ":xxxxx@" if p.password else "@"
        userpass = p.username + password if p.username else ""
        port = ":" + str(p.port) if p.port else ""
        hostport = p.hostname + port
        netloc = userpass + hostport
        redacted_url = p._replace(netloc=netloc).geturl()
        self.logger.info("Creating Connection with url: {}".format(redacted_url))
        self.parameters = pika.URLParameters(url)

    def open(self, timeout=None):
        """
        Opens the connection.
        """
        if hasattr(self, "connection") and self.connection.is_open:
            raise ConnectionError(
                "Connection to {host}:{port} is already open".format(
                    host=self.parameters.host, port=self.parameters.port
                )
            )

        self.logger.info(
            "Opening Connection to {host}:{port}".format(
                host=self.parameters.host, port=self.parameters.port
            )
        )

        try:
            self.connection = pika.BlockingConnection(self.parameters)
        except pika.exceptions.AMQPConnectionError as e:
            raise ConnectionError(repr(e))

    def is_open(self):
        """
        Return True if the connection is open, False otherwise. 
        """ 
        return hasattr(self, "connection") and self.connection.is_open

    def close(self):
        """
        Closes the connection.
        """
        if self.is_open():
            self.logger.info(
                "Closing Connection to {host}:{port}".format(
                    host=self.parameters.host, port=self.parameters.port
                )
            )
            self.connection.close()

    def session(self, name=None, transactional=False, auto_ack=False):
        """
        Creates a Session object.

        TODO add code so connection can store and retrieve sessions by name.
        TODO with JMS calling createSession should create a Session instance
        and each Session's Consumer MessageListener will run in a different
        thread. Pika is single threaded and moreover generally not thread-safe
        so to have similar behaviour it is (generally) necessary to have a
        separate Pika *connection* per thread. We should threfore create a new
        connection for each session, but for now only support a single Session
        such that the first call to session() will create the Session and
        subsequent calls will return that Session.
        """
        if not hasattr(self, "_session"):
            self._session = Session(self, name, transactional, auto_ack)
        return self._session

    def set_timeout(self, callback, delay):
        """
        Executes the specified callback function after the specified ms delay.
        Intended to have the same semantics as the JavaScript setTimeout().
        NOTE: the timer callbacks are dispatched only in the scope of 
        BlockingConnection.process_data_events() and
        BlockingChannel.start_consuming() e.g. after the start() method below
        has been called.
        Clamp delay to >= 0 as call_later doesn't handle negative values.
        """
        if delay < 0:
            delay = 0
        return self.connection.call_later(delay / 1000, callback)

    def clear_timeout(self, timeout_id):
        """
        Remove a timer if it’s still in the timeout stack.
        Intended to have the same semantics as the JavaScript clearTimeout().
        """
        self.connection.remove_timeout(timeout_id)

    def start(self):
        """
        Starts (or restarts) a connection's delivery of incoming messages.
        A call to start on a connection that has already been started is ignored.

        TODO when multiple sessions are supported start them all.
        There is actually a lot going on in start_consuming as Pika is basically
        single threaded and largely not thread safe the main docs are here
        https://pika.readthedocs.io/en/stable/modules/adapters/blocking.html

        One issue is how to communicate with the Pika dispatch loop from a
        different thread. I *think* that the way to do it is via the
        connection.add_callback_threadsafe(callback) method which requests a
        call to the given function as soon as possible in the context of this
        connection’s thread.

        It's also not clear how to consume on multiple channels as the
        start_consuming call is a method on channel, but it blocks, so how to
        consume on other channels in that case??
        """
        if hasattr(self, "_session"):
            try:
                self._session.channel.start_consuming()
            except pika.exceptions.ConnectionClosedByBroker as e:
                raise ConnectionError(repr(e))

# ------------------------------------------------------------------------------

class Session(object):
    def __init__(self, connection, name, transactional, auto_ack):
        """
        Sessions provide a context for sending and receiving Messages. Messages
        are sent and received using the Producer and Consumer objects associated
        with a Session.

        Each Producer and Consumer is created by supplying either a target or
        source address to the producer and consumer methods of the Session. 
        The address is supplied via a string syntax.
        """
        if not connection.is_open():
            raise SessionError("Unable to create Session as Connection is not open")

        connection.logger.info("Creating Session")  # TODO log name
        self.connection = connection
        self.name = name  # TODO do something useful with name
        # TODO maybe do something with transactional?
        self.auto_ack = auto_ack

        """
        For RabbitMQ AMQP Channel documentation see:
        https://pika.readthedocs.io/en/stable/modules/channel.html
        """
        self.channel = connection.connection.channel()

    def acknowledge(self, message=None, threadsafe=False):
        """
        Acknowledge the given Message. If message is None, then all 
        unacknowledged messages on the session are acknowledged.

        https://www.rabbitmq.com/confirms.html

        param message: the message to acknowledge or None
        type message: Message

        basic_ack(delivery_tag=0, multiple=False)
        If multiple is set to True, the delivery tag is treated as “up to and
        including”, so that multiple messages can be acknowledged with a single
        method. If set to False, the delivery tag refers to a single message.

        If the multiple field is True, and the delivery tag is zero, this 
        indicates acknowledgement of all outstanding messages.
        """
        if message == None:
            def ack():
                """
                The main purpose of this nested function is to make it fairly easy
                to either directly call the underlying pika basic_ack or defer
                to connection.add_callback_threadsafe as a callback.
                """
                self.channel.basic_ack(delivery_tag=0, multiple=True)

            if threadsafe:
                # If called from a foreign thread add ack to the event queue
                # as this is the only thread safe Pika API call.
                self.channel.connection.add_callback_threadsafe(ack)
            else:
                ack()
        else:
            # Only acknowledge the specific message.
            message.acknowledge(multiple=False, threadsafe=threadsafe)

    def recover(self, requeue=False):
        """
        Restarts message delivery with the oldest unacknowledged message. 
        This method asks the server to redeliver all unacknowledged messages on
        a specified channel. Zero or more messages may be redelivered.
        """
        self.channel.basic_recover(requeue)

    def is_open(self):
        """
        Return True if the session is open, False otherwise. 
        """ 
        return self.channel.is_open

    def close(self):
        """
        Closes the session.
        """
        if self.is_open():
            self.logger.info("Closing Session")  # TODO log session name
            self.channel.close()

    def producer(self, target=""):
        """
        Creates a Producer used to send messages to the specified target.
        :param target: The target to which messages will be sent
        :type target: str
        """
        return Producer(self, target)

    def consumer(self, source=""):
        """
        Creates a Consumer used to fetch messages from the specified source.
        :param source: The source of messages
        :type source: str
        """
        return Consumer(self, source)

# ------------------------------------------------------------------------------

class Destination(object):
    def __init__(self):
        """
        For RabbitMQ AMQP Channel documentation see:
        https://pika.readthedocs.io/en/stable/modules/channel.html
        Default values taken from exchange_declare, queue_declare, queue_bind
        """
        self.declare = {
            "queue": "",
            "exchange": "",
            "exchange-type": "direct",
            "passive": False,
            "internal": False,
            "durable": False,
            "exclusive": False,
            "auto-delete": False,
            "arguments": None,
        }

        # Defaults for subscription queues (exclusive and autodelete True)
        self.link_declare = {
            "queue": "",
            "passive": False,
            "internal": False,
            "durable": False,
            "exclusive": True,
            "auto-delete": True,
            "arguments": None,
        }

        """
        The x-subscribe map of a link controls the exclusive and arguments
        fields of a subscription, which relates to the AMQP 0.9.1 basic.consume
        or the AMQP 0.10 message.subscribe protocol commands. This is mainly
        used to request an exclusive subscription. This prevents other
        subscribers from subscribing to the queue.
        """
        self.link_subscribe = {
            "exclusive": False,
            "arguments": None,
        }

        self.bindings = []

    def parse_address(self, address):
        """
        Parses an address string with the following format:

        <name> [ / <subject> ] [ ; <options> ]

        Where options is of the form: { <key> : <value>, ... }

        And values may be numbers, strings, maps (dictionaries) or lists

        The options map permits the following parameters:

        <name> [ / <subject> ] ; {
            node: {
                type: queue | topic,
                durable: True | False,
                auto-delete: True | False,
                x-declare: { ... <declare-overrides> ... },
                x-bindings: [<binding_1>, ... <binding_n>]
            },
            link: {
                name: <link-name>,
                durable: True | False,
                reliability: unreliable | at-most-once | at-least-once | exactly-once,
                x-declare: { ... <declare-overrides> ... },
                x-bindings: [<binding_1>, ... <binding_n>]
            }
        }

        The node refers to the AMQP node e.g. a queue or exchange being referred
        to in the address, whereas the link allows configuration of a logical
        "subscriber queue" that will be created when the address node is an
        exchange such as, for example, news-service/sports.

        Bindings are specified as a map with the following options:

        {
            exchange: <exchange>,
            queue: <queue>,
            key: <key>,
            arguments: <arguments>
        }

        The x-declare map permits protocol specific keys and values to be
        specified when exchanges or queues are declared. These keys and
        values are passed through when creating a node or asserting facts
        about an existing node.

        For Producers the node implicitly defaults to a topic and for Consumers
        it implicitly defaults to a queue, but this may be overridden by setting
        exchange or queue in the x-declare object or by setting node type to
        queue or topic.

        Examples:
        myqueue; {"node": {"x-declare": {"durable": true, "exclusive": true, "auto-delete": true}}}'
        myqueue; {"node": {"x-declare": {"exchange": "test-headers", "exchange-type": "headers", "durable": true, "auto-delete": true}}}

        myqueue; {"node": {"x-declare": {"durable": true, "auto-delete": true}, "x-bindings": [{"exchange": "amq.match", "queue": "myqueue", "key": "data1", "arguments": {"x-match": "all", "data-service": "amqp-delivery", "item-owner": "Sauron"}}]}}

        myqueue; {"node": {"durable": true, "x-bindings": [{"exchange": "amq.match", "queue": "myqueue", "key": "data1", "arguments": {"x-match": "all", "data-service": "amqp-delivery", "item-owner": "Sauron"}}, {"exchange": "amq.match", "queue": "myqueue", "key": "data2", "arguments": {"x-match": "all", "data-service": "amqp-delivery", "item-owner": "Gandalf"}}]}}

        myqueue; {"node": {"x-declare": {"durable": true, "auto-delete": false}}, "link": {"x-subscribe": {"exclusive": true}}}'

        news-service/sports

        news-service/sports; {"node": {"x-declare": {"exchange": "news-service", "exchange-type": "topic"}}}

        news-service/sports; {"node": {"x-declare": {"exchange": "news-service", "exchange-type": "topic", "auto-delete": true}}, "link": {"x-declare": {"queue": "news-queue", "exclusive": false}}}

        Topic exchanges can be declared by message producers as follows:
        ; {"node": {"x-declare": {"exchange": "news-service", "exchange-type": "topic"}}}

        For the case where the address comprises just the options string
        the leading semicolon is optional e.g. the following is also valid:
        {"node": {"x-declare": {"exchange": "news-service", "exchange-type": "topic"}}}

        """
        kv = address.split(";")
        options_string = kv[1] if len(kv) == 2 else "{}"
        kv = kv[0].split("/")
        self.subject = kv[1].strip() if len(kv) == 2 else ""
        self.name = kv[0].strip()

        # Handle case where address comprises just the options string.
        if len(self.name) >= 2 and self.name[0] == "{":
            options_string = self.name
            self.name = ""

        options = json.loads(options_string)

        # print(options_string)
        # print(options)
        # print(self.subject)
        # print(self.name)

        node = options.get("node")
        if node:
            x_declare = node.get("x-declare")
            if x_declare and type(x_declare) == type(self.declare):
                self.declare.update(x_declare)
                if self.name:
                    # If node type is set then set queue or exchange name in
                    # declare if not already explicitly set in x-declare
                    if node.get("type") == "queue" and not self.declare.get("queue"):
                        self.declare["queue"] = self.name
                    if node.get("type") == "topic" and not self.declare.get("exchange"):
                        self.declare["exchange"] = self.name
                else:
                    # Handle case where address comprises just the options string.
                    if node.get("type") == "queue":
                        self.name = self.declare.get("queue", "")
                    if node.get("type") == "topic":
                        self.name = self.declare.get("exchange", "")
                    # Handle edge cases where node type is not explicitly set
                    if not self.name:
                        self.name = self.declare.get("exchange", "")
                    if not self.name:
                        self.name = self.declare.get("queue", "")

            # Can set durable and auto-delete on node as a shortcut if we don't
            # need any other declare overrides.
            if node.get("durable"):
                self.declare["durable"] = True
            if node.get("auto-delete"):
                self.declare["auto-delete"] = True
            # If x-bindings set populate Destination's bindings
            x_bindings = node.get("x-bindings")
            if x_bindings and type(x_bindings) == type(self.bindings):
                self.bindings = x_bindings

        link = options.get("link")
        if link:
            x_declare = link.get("x-declare")
            if x_declare and type(x_declare) == type(self.link_declare):
                self.link_declare.update(x_declare)
            x_subscribe = link.get("x-subscribe")
            if x_subscribe and type(x_subscribe) == type(self.link_subscribe):
                self.link_subscribe.update(x_subscribe)

# ------------------------------------------------------------------------------

class Producer(Destination):
    def __init__(self, session, target):
        """
        A client uses a Producer object to send messages to a destination.
        """
        super().__init__()  # Call Destination constructor

        session.connection.logger.info(
            "Creating Producer with address: {}".format(target)
        )
        self.session = session

        """
        Confirmation delivery_tags/sequence numbers start at 1
        https://www.rabbitmq.com/confirms.html#publisher-confirms
        """
        self.next_publish_seq_no = 1
        self.saved_ack_seq_no = 0
        self.saved_nack_seq_no = 0
        self.saved_seq_no = 0
        self.previous_nack_start = 1

        """
        self.undelivered is used when enable_exceptions(sync=False) has been
        called. It records the sequence numbers of undelivered (unpublished)
        messages as tuples, representing contiguous blocks of unpublished
        messages. This information will be recorded in an exception thrown by
        send() and may be used by applications to identify messages to resend.
        """
        self.undelivered = []

        try:
            self.parse_address(target)
        except ValueError as e:
            raise ProducerError("Failed to parse address: {} {}".format(target, e))

        # Check if an exchange with the name of this destination exists.
        if self.name:
            try:
                # Use temporary channel as the channel gets closed on an exception.
                temp_channel = self.session.connection.connection.channel()
                temp_channel.exchange_declare(self.name, passive=True)
                temp_channel.close()
            except pika.exceptions.ChannelClosedByBroker as e:
                # If 404 NOT_FOUND the specified exchange doesn't exist.
                if e.reply_code == 404:
                    # If no exchange declared assume default direct exchange.
                    if self.name != self.declare.get("exchange"):
                        self.subject = self.name
                        self.name = ""  # Set exchange to default direct.

        if self.declare.get("exchange"):
            # Exchange declare.
            self.session.channel.exchange_declare(
                exchange=self.declare["exchange"],
                exchange_type=self.declare["exchange-type"],
                passive=self.declare["passive"],
                durable=self.declare["durable"],
                auto_delete=self.declare["auto-delete"],
                arguments=self.declare["arguments"],
            )
        # print("name = " + self.name)
        # print("subject = " + self.subject)

    def set_return_callback(self, return_callback):
        """
        Set a callback to be triggered when basic_publish is sent a Message
        that has been rejected and returned by the server because, for example,
        he Message is unroutable.

        For RabbitMQ AMQP Channel documentation see:
        https://pika.readthedocs.io/en/stable/modules/channel.html

        Note that for BlockingConnection we use the underlying channel._impl
        as we actually *want* this to be called asynchronously.

        add_on_return_callback(callback)
        """
        self._return_callback = return_callback
        self.session.channel._impl.add_on_return_callback(self.return_callback)

    def return_callback(self, channel, method, properties, body):
        """
        This is the callback function that will be called when basic_publish is
        sent a message that has been rejected and returned by the server.

        https://pika.readthedocs.io/en/stable/modules/spec.html#pika.spec.Basic.Return
        """
        if hasattr(self, "_return_callback"):
            # Now call the registered return callback
            message = Message(
                body,
                properties=properties.headers,
                content_type=properties.content_type,
                content_encoding=properties.content_encoding,
                durable=(properties.delivery_mode == 2),
                priority=properties.priority,
                correlation_id=properties.correlation_id,
                reply_to=properties.reply_to,
                expiration=properties.expiration,
                message_id=properties.message_id,
                timestamp=properties.timestamp,
                type=properties.type,
                user_id=properties.user_id,
                app_id=properties.app_id,
                cluster_id=properties.cluster_id,
            )
            # These two private attributes are added to Message to enable
            # Message's acknowledge() methods, note however that returned
            # Messages should not be acknowledged.
            message._channel = channel
            message._delivery_tag = 0
            self._return_callback(message)

    def enable_exceptions(self, sync=False):
        """
        With JMS the spec tends towards implying a delivery guarantee, in
        particular if messages are marked persistent. However, most AMQP
        implementations publish asynchronously and have buffering to reduce
        latencies due to protocol round-trips. To meet JMS delivery guarantees
        implementations might allow a sync_publish option, which would wait
        for the basic_ack from the broker. Otherwise any exceptions on send,
        if any, might occur *after* the message that actually caused a failure.

        By default the send() method below publishes asynchronously and does
        *not* raise exceptions unless enabled by calling enable_exceptions().

        When enable_exceptions() is called the default behaviour is to raise an
        exception on the first call to send() after one or more basic_nack has
        been received from the broker.

        The exception contains the sequence numbers of the nacked messages and
        this information may be used by applications to identify messages that
        might need to be resent.

        If sync=True send() will instead block until delivery confirmation by
        the broker. This mode of operation is what the BlockingChannel
        confirm_delivery() does and the underlying basic_publish call will block
        until ack or nack is received. NOTE that setting sync=True could impact
        message throughput and latency considerably and unfortunately the pika
        BlockingChannel doesn't provide a convenient way to block for a batch
        of messages.

        WARNING: do not modify the exception_ack_nack_callback function unless
        you know what you are doing. The gist is that it records the sequence
        numbers of the ack and nack methods returned by the broker.

        The possibility of nacks filling "holes" in the sequencing is part of
        the reason the exception callback is quite complicated. The function
        is basically creating a list of tuples holding each range of undelivered
        messages and we process the Ack method to find self.previous_nack_start
        That is used if the nack sequence number arrives out of sequence so
        we can identify the "hole" to fill.

        One reason to be careful is that the out of sequence case is sporadic
        and only cropped up on edge cases.
        """

        def exception_ack_nack_callback(result):
            method = result.method
            seq_no = method.delivery_tag

            if isinstance(method, pika.spec.Basic.Ack):
                if not method.multiple:
                    prev_seq_no = seq_no
                elif self.saved_nack_seq_no > self.saved_ack_seq_no:
                    prev_seq_no = self.saved_nack_seq_no
                else:
                    prev_seq_no = self.saved_ack_seq_no
                                                        
                if self.saved_seq_no != prev_seq_no - 1:
                    self.previous_nack_start = self.saved_seq_no + 1
                self.saved_seq_no = seq_no

                self.saved_ack_seq_no = seq_no + 1
            elif isinstance(method, pika.spec.Basic.Nack):
                if seq_no < self.saved_ack_seq_no:
                    prev_seq_no = self.previous_nack_start
                else:
                    prev_seq_no = self.saved_ack_seq_no

                if self.undelivered:
                    last = self.undelivered[-1]
                    if last[0] == prev_seq_no:
                        self.undelivered[-1] = (prev_seq_no, seq_no)
                    else:
                        self.undelivered.append((prev_seq_no, seq_no))
                else:
                    self.undelivered.append((prev_seq_no, seq_no))

                self.saved_nack_seq_no = seq_no + 1

        if sync:
            self.session.channel.confirm_delivery()
        else:
            self.saved_ack_seq_no = 1
            self.saved_nack_seq_no = 1

            # Need to access the blocking channel's underlying async channel
            # for this mode of operation.
            self.session.channel._impl.confirm_delivery(
                ack_nack_callback=exception_ack_nack_callback,
            ) 

    def send(self, message, threadsafe=False):
        """
        For RabbitMQ AMQP Channel documentation see:
        https://pika.readthedocs.io/en/stable/modules/channel.html
        https://pika.readthedocs.io/en/stable/modules/spec.html#pika.spec.BasicProperties

        basic_publish(exchange, routing_key, body, properties=None,
                      mandatory=False)
        Delivery mode 2 makes the broker save the message to disk.
        """

        def publish():
            """
            The main purpose of this nested function is to make it fairly easy
            to either directly call the underlying pika basic_publish or defer
            to connection.add_callback_threadsafe as a callback.
            """

            # If message.subject is set use that as the routing_key, otherwise use
            # the Producer target default subject parsed from address string.
            subject = message.subject
            routing_key = subject if subject else self.subject

            # If message.expiration is set to an invalid value (like a
            # non-numeric or a negative value) we "clamp" it to a "0"
            clamped_expiration = None
            if message.expiration is not None:
                try:
                    clamped_expiration=str(int(float(message.expiration)))
                    if clamped_expiration.startswith("-"):
                        clamped_expiration = "0"
                except ValueError as e:
                    clamped_expiration = "0"

            properties = pika.BasicProperties(
                headers=message.properties,
                content_type=message.content_type,
                content_encoding=message.content_encoding,
                delivery_mode=2 if message.durable else 1,
                priority=message.priority,
                correlation_id=message.correlation_id,
                reply_to=message.reply_to,
                expiration=clamped_expiration,
                message_id=message.message_id,
                timestamp=message.timestamp,
                type=message.type,
                user_id=message.user_id,
                app_id=message.app_id,
                cluster_id=message.cluster_id,
            )

            try:
                self.session.channel.basic_publish(
                    exchange=self.name,
                    routing_key=routing_key,
                    body=message.body,
                    properties=properties,
                    mandatory=message.mandatory,
                )
            except pika.exceptions.NackError as e:
                undelivered = [(self.next_publish_seq_no, self.next_publish_seq_no)]
                send_exception = SendError(
                    "Failed to send message: undelivered = {}".format(undelivered)
                )
                send_exception.undelivered = undelivered
                raise send_exception

        if self.undelivered:  # Will only be True if enable_exceptions(sync=False).
            """
            If enable_exceptions() has been called with sync=False (the default)
            the sequence numbers of nacked messages are recorded in undelivered,
            which is a list of tuples each of which records the first and last
            sequence number of groups of messages that failed to be published.
            There may be multiple items if groups of nacked messages are non-
            contiguous. If there are any undelivered/unpublished messages an
            exception is thrown which contains a copy of this list of tuples.
            """
            send_exception = SendError(
                "Failed to send messages: undelivered = {}".format(
                    self.undelivered
                )
            )
            send_exception.undelivered = self.undelivered.copy()
            self.undelivered = []
            raise send_exception
        elif threadsafe:
            self.session.connection.connection.add_callback_threadsafe(publish)
        else:
            publish()

        self.next_publish_seq_no += 1

# ------------------------------------------------------------------------------

class Consumer(Destination):
    def __init__(self, session, source):
        """
        A client uses a Consumer object to receive messages from a destination.
        """
        super().__init__()  # Call Destination constructor

        session.connection.logger.info(
            "Creating Consumer with address: {}".format(source)
        )
        self.session = session

        # Set default capacity/message prefetch to 500
        self._capacity = 500
        self.session.channel.basic_qos(prefetch_count=self._capacity)

        try:
            self.parse_address(source)
        except ValueError as e:
            raise ConsumerError("Failed to parse address: {} {}".format(source, e))

        # Check if an exchange with the name of this destination exists.
        exchange = None
        if self.name:
            try:
                # Use temporary channel as the channel gets closed on an exception.
                temp_channel = self.session.connection.connection.channel()
                temp_channel.exchange_declare(self.name, passive=True)
                temp_channel.close()
                exchange = self.name
            except pika.exceptions.ChannelClosedByBroker as e:
                if self.subject:
                    if self.name == self.declare.get("exchange"):
                        exchange = self.name
                    else:
                        raise ConsumerError(e.reply_text)
                # Otherwise we assume default direct exchange

        if exchange:  # Is this address an exchange?
            # Destination is an exchange, create subscription queue and
            # add binding between exchange and queue with subject as key.
            if self.declare.get("queue"):
                self.name = self.declare.get("queue")
            elif self.link_declare.get("queue"):
                self.name = self.link_declare.get("queue")
            else:
                self.name = ""

            if len(self.bindings) == 0 and self.subject:
                self.bindings.append(
                    {"queue": self.name, "exchange": exchange, "key": self.subject}
                )

        # Declare queue, exchange and bindings as necessary
        if self.declare.get("exchange"):
            # Exchange declare - unusual scenario for Consumer, but handle it.
            self.session.channel.exchange_declare(
                exchange=self.declare["exchange"],
                exchange_type=self.declare["exchange-type"],
                passive=self.declare["passive"],
                durable=self.declare["durable"],
                auto_delete=self.declare["auto-delete"],
                arguments=self.declare["arguments"],
            )
        # Queue declare
        declare = self.declare
        if exchange and not self.declare.get("queue"):
            declare = self.link_declare
        if self.name == "":
            declare["auto-delete"] = True

        result = self.session.channel.queue_declare(
            queue=self.name,
            passive=declare["passive"],
            durable=declare["durable"],
            exclusive=declare["exclusive"],
            auto_delete=declare["auto-delete"],
            arguments=declare["arguments"],
        )
        """
        Get the queue name from the result of the queue_declare to deal with
        the case of server created names when we pass queue="" to queue_declare
        see https://www.rabbitmq.com/tutorials/tutorial-three-python.html
        """
        self.name = result.method.queue

        for binding in self.bindings:
            if binding["exchange"] == "":
                continue  # Can't bind to default
            self.session.channel.queue_bind(
                queue=binding["queue"],
                exchange=binding["exchange"], 
                routing_key=binding.get("key"),
                arguments=binding.get("arguments"),
            )

    def set_message_listener(self, message_listener):
        """
        For RabbitMQ AMQP Channel documentation see:
        https://pika.readthedocs.io/en/stable/modules/channel.html

        basic_consume(queue, on_message_callback, auto_ack=False,
                      exclusive=False, consumer_tag=None, arguments=None,
                      callback=None)

        To specify an exclusive subscription to a queue use an address like:
        myqueue; {"node": {"x-declare": {"durable": true, "auto-delete": false}}, "link": {"x-subscribe": {"exclusive": true}}}'
        """
        ex = self.link_subscribe.get("exclusive", False)
        args = self.link_subscribe.get("arguments", None)
        self._message_listener = message_listener
        try:
            self.session.channel.basic_consume(
                on_message_callback=self.message_listener,
                queue=self.name,
                auto_ack=self.session.auto_ack,
                exclusive=ex,
                arguments=args
            )
        except pika.exceptions.ChannelClosedByBroker as e:
            raise ConsumerError(e.reply_text)

    def message_listener(self, channel, method, properties, body):
        """
        This is the Consumer's default message listener, its job is to create
        a Message instance that encapsulates some of the AMQP details into
        something more akin to a JMS Message, then delegate to the registered
        message listener.

        https://pika.readthedocs.io/en/stable/modules/spec.html#pika.spec.Basic.Deliver
        https://pika.readthedocs.io/en/stable/modules/spec.html#pika.spec.BasicProperties

        channel: pika.Channel
        method: pika.spec.Basic.Deliver
        properties: pika.spec.BasicProperties
        body: bytes
        """
        if hasattr(self, "_message_listener"):
            # Now call the registered message listener
            message = Message(
                body,
                properties=properties.headers,
                content_type=properties.content_type,
                content_encoding=properties.content_encoding,
                redelivered=method.redelivered,
                durable=(properties.delivery_mode == 2),
                priority=properties.priority,
                correlation_id=properties.correlation_id,
                reply_to=properties.reply_to,
                expiration=properties.expiration,
                message_id=properties.message_id,
                timestamp=properties.timestamp,
                type=properties.type,
                user_id=properties.user_id,
                app_id=properties.app_id,
                cluster_id=properties.cluster_id,
            )
            # These two private attributes are added to Message to enable
            # Message's acknowledge() methods
            message._channel = channel
            message._delivery_tag = method.delivery_tag
            self._message_listener(message)

    @property
    def capacity(self):
        return self._capacity

    @capacity.setter
    def capacity(self, capacity):
        self._capacity = capacity
        self.session.channel.basic_qos(prefetch_count=capacity)

# ------------------------------------------------------------------------------

class Message(object):
    def __init__(
        self,
        body="",  # Pika expects empty string not None for no body.
        properties=None,
        content_type=None,
        content_encoding=None,
        redelivered=False,
        durable=True,
        mandatory=False,
        priority=None,
        correlation_id=None,
        reply_to=None,
        expiration=None,
        message_id=None,
        timestamp=None,
        type=None,
        user_id=None,
        app_id=None,
        cluster_id=None,
        subject=None,
    ):
        """
        Provides an abstraction for messages comprising a body, application
        properties and a set of headers used by the messaging fabric to identify
        and route messages and provide additional metadata.
        """
        self.body = body
        self.properties = properties  # Holds application property key/value pairs

        # Values below from:
        # pika.BasicProperties(delivery_mode=2)
        # https://pika.readthedocs.io/en/stable/modules/spec.html#pika.spec.BasicProperties
        # https://stackoverflow.com/questions/18403623/rabbitmq-amqp-basicproperties-builder-values
        self.content_type = content_type
        self.content_encoding = content_encoding
        self.redelivered = redelivered
        self.durable = durable
        self.mandatory = mandatory
        self.priority = priority
        self.correlation_id = correlation_id
        self.reply_to = reply_to
        self.expiration = expiration
        self.message_id = message_id
        self.timestamp = timestamp
        self.type = type
        self.user_id = user_id
        self.app_id = app_id
        self.cluster_id = cluster_id

        if self.properties == None:
            self.properties = {}
        self.subject = subject  # Set subject *after* self.properties initialised.

    def __repr__(self):
        args = []
        for name in [
            "content_type",
            "content_encoding",
            "priority",
            "message_id",
            "type",
            "user_id",
            "app_id",
            "cluster_id",
            "reply_to",
            "correlation_id",
            "expiration",
            "timestamp",
            "redelivered",
            "durable",
            "mandatory",
            "properties",
        ]:
            value = self.__dict__[name]
            if value is not None:
                args.append("%s=%r" % (name, value))
        if self.subject:
            args.append("subject=%r" % self.subject)
        if self.body is not None:
            if args:
                args.append("body=%r" % self.body)
            else:
                args.append(repr(self.body))
        return "Message(%s)" % ", ".join(args)

    """
    Unlike AMQP 1.0 AMQP 0.9.1 doesn't have a Message subject, but it is a
    useful concept as often we wish to publish messages to a generic producer
    Node such as a topic exchange and have messages delivered based on their
    subject. Although basic_publish allows one to achieve the same result it is
    much more coupled with AMQP 0.9.1 (and AMQP 0.10) protocol details than
    if it were a property of the Message, which is also more intuitive.
    We map "subject" to a message property that is unlikely to collide with any
    application set message properties, this will be used by the Producer.send()
    but will also be available to consumers as a Message property.
    """

    @property
    def subject(self):
        return self.properties.get("x-amqp-0-9-1.subject")

    @subject.setter
    def subject(self, subject):
        if subject:
            self.properties["x-amqp-0-9-1.subject"] = subject
            # print(self.properties)

    def acknowledge(self, multiple=True, threadsafe=False):
        """
        Acknowledge this Message.

        Messages that have been received but not acknowledged may be redelivered.

        basic_ack(delivery_tag=0, multiple=False)
        If multiple is set to True, the delivery tag is treated as “up to and
        including”, so that multiple messages can be acknowledged with a single
        method. If set to False, the delivery tag refers to a single message.

        If the multiple field is True, and the delivery tag is zero, this 
        indicates acknowledgement of all outstanding messages.
        """
        if hasattr(self, "_channel"):
            def ack():
                """
                The main purpose of this nested function is to make it fairly easy
                to either directly call the underlying pika basic_ack or defer
                to connection.add_callback_threadsafe as a callback.
                """
                if multiple:
                    """
                    The multiple == True branch behaves like JMS Message.acknowledge()
                    https://docs.oracle.com/javaee/7/api/javax/jms/Message.html#acknowledge--
                    By invoking acknowledge on a consumed message, a client
                    acknowledges all messages consumed by the session that the
                    message was delivered to. 
                    """
                    self._channel.basic_ack(delivery_tag=0, multiple=True)
                elif self._delivery_tag:
                    self._channel.basic_ack(delivery_tag=self._delivery_tag)

            if threadsafe:
                # If called from a foreign thread add ack to the event queue
                # as this is the only thread safe Pika API call.
                self._channel.connection.add_callback_threadsafe(ack)
            else:
                ack()

