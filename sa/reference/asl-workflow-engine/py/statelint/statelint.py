#!/usr/bin/env python3
#
# Licensed to the Apache Software Foundation (ASF) under one
# or more contributor license agreements.  See the NOTICE file
# distributed with this work for additional information
# regarding copyright ownership.  The ASF licenses this file
# to you under the Apache License, Version 2.0 (the
# "License"); you may not use this file except in compliance
# with the License.  You may obtain a copy of the License at
#
#   http://www.apache.org/licenses/LICENSE-2.0
#
# Unless required by applicable law or agreed to in writing,
# software distributed under the License is distributed on an
# "AS IS" BASIS, WITHOUT WARRANTIES OR CONDITIONS OF ANY
# KIND, either express or implied.  See the License for the
# specific language governing permissions and limitations
# under the License.
#
"""
This module creates a J2119 validator for the StateMachine J2119 schema and
uses that to validate the supplied input, it then performs some ASL specific
semantic checks that aren't expressible in a J2119 schema.


Original Ruby version
https://github.com/awslabs/statelint
https://github.com/awslabs/statelint/tree/master/lib

Uses j2119 parser/validator
https://github.com/awslabs/j2119
https://github.com/awslabs/j2119/tree/master/lib
"""

import sys, os
assert sys.version_info >= (3, 6)  # Bomb out if not running Python3.6

import re
from statelint.j2119 import Validator
from statelint.j2119 import JSONPathChecker

class StateLint():
    def __init__(self):
        # Find StateMachine.j2119 schema file on the path
        schema_paths = [i + "/statelint/StateMachine.j2119" for i in sys.path]
        schema_path = ""
        for path in schema_paths:
            if os.path.exists(path):
                schema_path = path
                break

        if not schema_path:
            raise FileNotFoundError(
                "Unable to find StateMachine.j2119 schema file on path"
            )

        #print(schema_path)
        self.validator = Validator(schema_path)

    def validate(self, json):
        problems = self.validator.validate(json)
        checker = StateNode()
        checker.check(json, self.validator.root, problems)
        return problems

#-------------------------------------------------------------------------------

class StateNode():
    """
    Based on https://github.com/awslabs/statelint/blob/master/lib/statelint/state_node.rb
    Handles semantic validation that can't be expressed in a J2119 schema.
    """
    def __init__(self):
        """
        We push States nodes on here when we traverse them then, whenever
        we find a "Next", "Default" or "StartAt" node, we validate that the
        target node exists, and record that the target has an incoming pointer.
        """
        self.current_states_node = []
        self.current_states_incoming = []

        # We keep track of all the state names and complain about dupes
        self.all_state_names = {}

        self.intrinsic_invocation_regex = re.compile(r'^States\.(Format|Array|ArrayPartition|ArrayContains|ArrayRange|ArrayGetItem|ArrayLength|ArrayUnique|Base64Encode|Base64Decode|Hash|JsonMerge|JsonToString|StringToJson|MathRandom|MathAdd|StringSplit)\s*\(.+\)$')
        self.intrinsic_uuid_invocation_regex = re.compile(r'^States\.UUID\s*\(\s*\)$')

    def check(self, node, path, problems):
        if not node or not isinstance(node, dict):
            return

        is_machine_top = "States" in node and isinstance(node["States"], dict)
        if is_machine_top:
            states = node["States"]
            self.current_states_node.append(states)
            start_at = node.get("StartAt")
            if start_at and isinstance(start_at, str):
                self.current_states_incoming.append([start_at])
                if start_at not in states:
                    problems.append(
                        f'StartAt value "{start_at}" not found in ' +
                        f'States field at {path}'
                    )
            else:
                self.current_states_incoming.append([])

            for name, child in states.items():
                if isinstance(child, dict):
                    child_path = path + ".States." + name
                    for field_name in ["Parameters", "ItemSelector", "ResultSelector"]:
                        if field_name in child:
                            self.probe_payload_template(
                                child[field_name],
                                child_path,
                                problems,
                                field_name
                            )

                    if child.get("Type") == "Choice":
                        choices = child.get("Choices")
                        if choices:
                            self.probe_choice_state(
                                choices,
                                child_path + ".Choices",
                                problems
                            )

                if name in self.all_state_names:
                    problems.append(
                        f'State "{name}", defined at {path}.States, ' +
                        f'is also defined at {self.all_state_names[name]}'
                    )
                else:
                    self.all_state_names[name] = f"{path}.States"

        self.check_for_terminal(node, path, problems)
        self.check_next(node, path, problems)
        self.check_States_ALL(node.get("Retry"), path + '.Retry', problems)
        self.check_States_ALL(node.get("Catch"), path + '.Catch', problems)

        for name, val in node.items():
            if isinstance(val, list):
                for i, element in enumerate(val):
                    self.check(element, f"{path}.{name}[{i}]", problems)
            else:
                self.check(val, f"{path}.{name}", problems)

        if is_machine_top:
            states = self.current_states_node.pop()
            incoming = self.current_states_incoming.pop()
            missing = list(set(states.keys()) - set(incoming))
            for state in missing:
                problems.append(f'No transition found to state {path}.States.{state}')


    def check_next(self, node, path, problems):
        self.add_next(node, path, "Next", problems)
        self.add_next(node, path, "Default", problems)

    def add_next(self, node, path, field, problems):
        transition_to = node.get(field)
        if transition_to and isinstance(transition_to, str):
            if len(self.current_states_node) > 0:
                if transition_to in self.current_states_node[-1]:
                    self.current_states_incoming[-1].append(transition_to)
                else:
                    problems.append(
                        f'No state found named "{transition_to}", ' +
                        f'referenced at {path}.{field}'
                    )


    def probe_choice_state(self, node, path, problems):
        if isinstance(node, dict):
            variable = node.get("Variable")
            if variable and not JSONPathChecker().is_path(variable):
                problems.append(
                    f'Field "Variable" of Choice state choice at "{path}" ' +
                    f'is not a JSONPath'
                )

            for op in ["And", "Or", "Not"]:
                if op in node:
                    self.probe_choice_state(node[op], path + "." + op, problems)

        elif isinstance(node, list):
            for i, element in enumerate(node):
                self.probe_choice_state(element, f"{path}[{i}]", problems)

    def probe_payload_template(self, node, path, problems, field_name):
        # Search through Payload Templates for object nodes and check field semantics
        if isinstance(node, dict):
            for name, val in node.items():
                if name.endswith(".$"):
                    if (not self.is_intrinsic_invocation(val) and
                        not JSONPathChecker().is_path(val)):
                        problems.append(
                            f'Field "{name}" of {field_name} at "{path}" is ' +
                            f'not a JSONPath nor intrinsic function expression'
                        )
                else:
                    self.probe_payload_template(val, f"{path}.{name}", problems, field_name)
        elif isinstance(node, list):
            for i, element in enumerate(node):
                self.probe_payload_template(element, f"{path}[{i}]", problems, field_name)

    def is_intrinsic_invocation(self, val):
        return isinstance(val, str) and (self.intrinsic_invocation_regex.match(val) or 
                                         self.intrinsic_uuid_invocation_regex.match(val))

    def check_for_terminal(self, node, path, problems):
        states = node.get("States")
        if states and isinstance(states, dict):
            terminal_found = False
            for state_node in states.values():
                if isinstance(state_node, dict):
                    if state_node.get("Type", "") in ["Succeed", "Fail"]:
                        terminal_found = True
                    elif state_node.get("End", False) == True:
                        terminal_found = True

            if not terminal_found:
                problems.append(
                    f'No terminal state found in machine at {path}.States'
                )

    def check_States_ALL(self, node, path, problems):
        if not isinstance(node, list):
            return

        for i, element in enumerate(node):
            if isinstance(element, dict):
                ee = element.get("ErrorEquals")
                if ee and isinstance(ee, list):
                    if "States.ALL" in ee:
                        if i != len(node) -1 or len(ee) != 1:
                            problems.append(
                                f'{path}[{i}]: States.ALL can only appear ' +
                                f'in the last element, and by itself'
                            )

