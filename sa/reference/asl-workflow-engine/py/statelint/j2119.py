#!/usr/bin/env python3
#
# Licensed to the Apache Software Foundation (ASF) under one
# or more contributor license agreements.  See the NOTICE file
# distributed with this work for additional information
# regarding copyright ownership.  The ASF licenses this file
# to you under the Apache License, Version 2.0 (the
# "License"); you may not use this file except in compliance
# with the License.  You may obtain a copy of the License at
#
#   http://www.apache.org/licenses/LICENSE-2.0
#
# Unless required by applicable law or agreed to in writing,
# software distributed under the License is distributed on an
# "AS IS" BASIS, WITHOUT WARRANTIES OR CONDITIONS OF ANY
# KIND, either express or implied.  See the License for the
# specific language governing permissions and limitations
# under the License.
#
"""
This does the main parsing of IETF RFC 2119 style assertions used as input
https://www.ietf.org/rfc/rfc2119.txt
"""

import sys, os
assert sys.version_info >= (3, 6)  # Bomb out if not running Python3.6

import re
from datetime import datetime, timezone, timedelta

class Validator():
    # Based on https://github.com/awslabs/j2119/blob/master/lib/j2119.rb
    def __init__(self, assertions_source):
        try:
            with open(assertions_source, "r") as f:
                self.parser = Parser(f)
                self.root = self.parser.root

        except IOError as e:
            raise Exception(f"Unable to read file: {e}")

    def validate(self, json):
        problems = []
        validator = NodeValidator(self.parser)
        validator.validate_node(json, self.parser.root, [self.parser.root], problems)
        return problems

    # For call to str().
    def __str__(self):
        return f"J2119 validator for instances of {self.root}"

#-------------------------------------------------------------------------------

class Parser():
    # Based on https://github.com/awslabs/j2119/blob/master/lib/j2119/parser.rb
    def __init__(self, j2119_file):
        ROOT = re.compile(r'This\s+document\s+specifies\s+a\s+JSON\s+object\s+called\s+an?\s+"([^"]+)"\.')
        self.root = None
        self.constraints = RoleConstraints()
        self.finder = RoleFinder()
        self.allowed_fields = AllowedFields()

        lines = j2119_file.readlines()
        for line in lines:
            root_match = ROOT.match(line)
            if root_match:
                if self.root:
                    raise Exception("Only one root declaration permitted")
                else:
                    self.root = root_match.group(1)
                    self.matcher = Matcher(self.root)
                    self.assigner = Assigner(self.constraints,
                                             self.finder,
                                             self.matcher,
                                             self.allowed_fields)
            else:
                if not self.root:
                    raise Exception("Root declaration must come first")
                else:
                    self.proc_line(line)

    def proc_line(self, line):
        #print(line)
        try:
            if self.matcher.is_constraint_line(line):
                self.assigner.assign_constraints(self.matcher.build_constraint(line))
            elif self.matcher.is_only_one_match_line(line):
                self.assigner.assign_only_one_of(self.matcher.build_only_one(line))
            elif self.matcher.is_each_of_line(line):
                eaches, trailer = self.matcher.build_each_ofs(line)
                for each in eaches:
                    self.proc_line(f"A {each} {trailer}")
            elif self.matcher.is_role_def_line(line):
                self.assigner.assign_roles(self.matcher.build_role_def(line))
            else:
                raise Exception(f"Unprocessable line: '{line}'")

        except Exception as e:
            raise Exception(f"Unprocessable line: '{line}': {e}")

    def find_more_roles(self, node, roles):
        return self.finder.find_more_roles(node, roles)

    def find_grandchild_roles(self, roles, name):
        return self.finder.find_grandchild_roles(roles, name)

    def find_child_roles(self, roles, name):
        return self.finder.find_child_roles(roles, name)

    def get_constraints(self, role):
        return self.constraints.get_constraints(role)

    def is_field_allowed(self, roles, child):
        return self.allowed_fields.is_allowed(roles, child)

    def allows_any_field(self, roles):
        return self.allowed_fields.allows_any(roles)

#-------------------------------------------------------------------------------

class NodeValidator():
    # Based on https://github.com/awslabs/j2119/blob/master/lib/j2119/node_validator.rb
    def __init__(self, parser):
        self.parser = parser

    def validate_node(self, node, path, roles, problems):
        #print()
        #print(f"validate_node {node} {path} {roles} {problems}")

        if not isinstance(node, dict):
            if node is not None:
                problems.append(f'{path} should be an Object')
            return

        # May have more roles based on field presence/value etc
        self.parser.find_more_roles(node, roles)

        #print(f"roles: {roles}")

        # constraints are attached per-role
        # TODO - look through the constraints and if there is a
        #  "Field should not exist" constraint, then disable
        #  type and value checking constraints
        for role in roles:
            #print(f"role: {role}")
            for constraint in self.parser.get_constraints(role):
                #print(f"{constraint} {constraint.conditions}")
                if constraint.applies(node, roles):
                    constraint.check(node, path, problems)

        # For each field
        for name, val in node.items():
            #print(f"{name} {val}")
            if not self.parser.is_field_allowed(roles, name):
                problems.append(f'Field "{name}" not allowed in {path}')

            # Only recurse into children if they have roles
            child_roles = self.parser.find_child_roles(roles, name)
            if len(child_roles):
                self.validate_node(val, f"{path}.{name}", child_roles, problems)

            # find inheritance-based roles for that field
            grandchild_roles = self.parser.find_grandchild_roles(roles, name)
            if len(grandchild_roles) and not self.parser.allows_any_field(grandchild_roles):
                # Recurse into grandchildren
                if isinstance(val, dict):
                    for child_name, child_val in val.items():
                        self.validate_node(
                            child_val,
                            f"{path}.{name}.{child_name}",
                            grandchild_roles[:],  # Need to pass a *cloned* copy 
                            problems
                        )
                elif isinstance(val, list):
                    for i, member in enumerate(val):
                        self.validate_node(
                            member,
                            f"{path}.{name}[{i}]",
                            grandchild_roles[:],  # Need to pass a *cloned* copy
                            problems
                        )

#-------------------------------------------------------------------------------

def deduce(value):
    # Based on https://github.com/awslabs/j2119/blob/master/lib/j2119/deduce.rb
    sm = re.match(r'^"(.*)"$', value)
    if sm:
        return sm[1]
    if value == "true":
        return True
    if value == "false":
        return False
    if value == "null":
        return None
    if re.match(r'^\d+$', value):
        return int(value)
    return float(value)

#-------------------------------------------------------------------------------

class RoleConstraints():
    # Based on https://github.com/awslabs/j2119/blob/master/lib/j2119/role_constraints.rb
    def __init__(self):
        self.constraints = {}

    def add(self, role, constraint):
        self.constraints.setdefault(role, []).append(constraint)

    def get_constraints(self, role):
        return self.constraints.get(role, [])

#-------------------------------------------------------------------------------

class JSONPathChecker():
    """
    Based on https://github.com/awslabs/j2119/blob/master/lib/j2119/json_path_checker.rb
    Examines fields which are supposed to be JSONPath expressions or
    Reference Paths, which are JSONPaths that are singular, i.e. don't
    produce array results.

    Note that the original Ruby code failed to match on a number of useful
    valid things like hyphens in identifiers e.g. $.error-info would fail,
    so the regexes have been updated below to add common "punctuation" like
    hyphens, underscores etc. and allow them to be used anywhere in names.
    There is a very fine balance between being strict enough to usefully flag
    real errors whilst being loose enough to allow valid paths without erroring.

    If it becomes too much of a pain it may be simpler to just have is_path
    and is_reference_path just return isinstance(s, str)
    """
    def __init__(self):
        # The original Ruby code uses Unicode Categories e.g. \p{Lu}, \p{Ll} etc.
        # https://github.com/awslabs/j2119/blob/master/lib/j2119/json_path_checker.rb
        # https://www.regular-expressions.info/unicode.html
        # Unfortunately Python re doesn't support \p so use explicit matches
        # taken from https://difnet.com.br/opensource/unicode_hack.py.txt
        # so we can use the standard library re and avoid additional dependencies
        Lu = '\u0041-\u005a\u00c0-\u00d6\u00d8-\u00de\u0100\u0102\u0104\u0106\u0108\u010a\u010c\u010e\u0110\u0112\u0114\u0116\u0118\u011a\u011c\u011e\u0120\u0122\u0124\u0126\u0128\u012a\u012c\u012e\u0130\u0132\u0134\u0136\u0139\u013b\u013d\u013f\u0141\u0143\u0145\u0147\u014a\u014c\u014e\u0150\u0152\u0154\u0156\u0158\u015a\u015c\u015e\u0160\u0162\u0164\u0166\u0168\u016a\u016c\u016e\u0170\u0172\u0174\u0176\u0178\u0179\u017b\u017d\u0181\u0182\u0184\u0186\u0187\u0189-\u018b\u018e-\u0191\u0193\u0194\u0196-\u0198\u019c\u019d\u019f\u01a0\u01a2\u01a4\u01a6\u01a7\u01a9\u01ac\u01ae\u01af\u01b1-\u01b3\u01b5\u01b7\u01b8\u01bc\u01c4\u01c7\u01ca\u01cd\u01cf\u01d1\u01d3\u01d5\u01d7\u01d9\u01db\u01de\u01e0\u01e2\u01e4\u01e6\u01e8\u01ea\u01ec\u01ee\u01f1\u01f4\u01f6-\u01f8\u01fa\u01fc\u01fe\u0200\u0202\u0204\u0206\u0208\u020a\u020c\u020e\u0210\u0212\u0214\u0216\u0218\u021a\u021c\u021e\u0220\u0222\u0224\u0226\u0228\u022a\u022c\u022e\u0230\u0232\u023a\u023b\u023d\u023e\u0241\u0243-\u0246\u0248\u024a\u024c\u024e\u0386\u0388-\u038a\u038c\u038e\u038f\u0391-\u03a1\u03a3-\u03ab\u03d2-\u03d4\u03d8\u03da\u03dc\u03de\u03e0\u03e2\u03e4\u03e6\u03e8\u03ea\u03ec\u03ee\u03f4\u03f7\u03f9\u03fa\u03fd-\u042f\u0460\u0462\u0464\u0466\u0468\u046a\u046c\u046e\u0470\u0472\u0474\u0476\u0478\u047a\u047c\u047e\u0480\u048a\u048c\u048e\u0490\u0492\u0494\u0496\u0498\u049a\u049c\u049e\u04a0\u04a2\u04a4\u04a6\u04a8\u04aa\u04ac\u04ae\u04b0\u04b2\u04b4\u04b6\u04b8\u04ba\u04bc\u04be\u04c0\u04c1\u04c3\u04c5\u04c7\u04c9\u04cb\u04cd\u04d0\u04d2\u04d4\u04d6\u04d8\u04da\u04dc\u04de\u04e0\u04e2\u04e4\u04e6\u04e8\u04ea\u04ec\u04ee\u04f0\u04f2\u04f4\u04f6\u04f8\u04fa\u04fc\u04fe\u0500\u0502\u0504\u0506\u0508\u050a\u050c\u050e\u0510\u0512\u0531-\u0556\u10a0-\u10c5\u1e00\u1e02\u1e04\u1e06\u1e08\u1e0a\u1e0c\u1e0e\u1e10\u1e12\u1e14\u1e16\u1e18\u1e1a\u1e1c\u1e1e\u1e20\u1e22\u1e24\u1e26\u1e28\u1e2a\u1e2c\u1e2e\u1e30\u1e32\u1e34\u1e36\u1e38\u1e3a\u1e3c\u1e3e\u1e40\u1e42\u1e44\u1e46\u1e48\u1e4a\u1e4c\u1e4e\u1e50\u1e52\u1e54\u1e56\u1e58\u1e5a\u1e5c\u1e5e\u1e60\u1e62\u1e64\u1e66\u1e68\u1e6a\u1e6c\u1e6e\u1e70\u1e72\u1e74\u1e76\u1e78\u1e7a\u1e7c\u1e7e\u1e80\u1e82\u1e84\u1e86\u1e88\u1e8a\u1e8c\u1e8e\u1e90\u1e92\u1e94\u1ea0\u1ea2\u1ea4\u1ea6\u1ea8\u1eaa\u1eac\u1eae\u1eb0\u1eb2\u1eb4\u1eb6\u1eb8\u1eba\u1ebc\u1ebe\u1ec0\u1ec2\u1ec4\u1ec6\u1ec8\u1eca\u1ecc\u1ece\u1ed0\u1ed2\u1ed4\u1ed6\u1ed8\u1eda\u1edc\u1ede\u1ee0\u1ee2\u1ee4\u1ee6\u1ee8\u1eea\u1eec\u1eee\u1ef0\u1ef2\u1ef4\u1ef6\u1ef8\u1f08-\u1f0f\u1f18-\u1f1d\u1f28-\u1f2f\u1f38-\u1f3f\u1f48-\u1f4d\u1f59\u1f5b\u1f5d\u1f5f\u1f68-\u1f6f\u1fb8-\u1fbb\u1fc8-\u1fcb\u1fd8-\u1fdb\u1fe8-\u1fec\u1ff8-\u1ffb\u2102\u2107\u210b-\u210d\u2110-\u2112\u2115\u2119-\u211d\u2124\u2126\u2128\u212a-\u212d\u2130-\u2133\u213e\u213f\u2145\u2183\u2c00-\u2c2e\u2c60\u2c62-\u2c64\u2c67\u2c69\u2c6b\u2c75\u2c80\u2c82\u2c84\u2c86\u2c88\u2c8a\u2c8c\u2c8e\u2c90\u2c92\u2c94\u2c96\u2c98\u2c9a\u2c9c\u2c9e\u2ca0\u2ca2\u2ca4\u2ca6\u2ca8\u2caa\u2cac\u2cae\u2cb0\u2cb2\u2cb4\u2cb6\u2cb8\u2cba\u2cbc\u2cbe\u2cc0\u2cc2\u2cc4\u2cc6\u2cc8\u2cca\u2ccc\u2cce\u2cd0\u2cd2\u2cd4\u2cd6\u2cd8\u2cda\u2cdc\u2cde\u2ce0\u2ce2\uff21-\uff3a'

        Ll = '\u0061-\u007a\u00aa\u00b5\u00ba\u00df-\u00f6\u00f8-\u00ff\u0101\u0103\u0105\u0107\u0109\u010b\u010d\u010f\u0111\u0113\u0115\u0117\u0119\u011b\u011d\u011f\u0121\u0123\u0125\u0127\u0129\u012b\u012d\u012f\u0131\u0133\u0135\u0137\u0138\u013a\u013c\u013e\u0140\u0142\u0144\u0146\u0148\u0149\u014b\u014d\u014f\u0151\u0153\u0155\u0157\u0159\u015b\u015d\u015f\u0161\u0163\u0165\u0167\u0169\u016b\u016d\u016f\u0171\u0173\u0175\u0177\u017a\u017c\u017e-\u0180\u0183\u0185\u0188\u018c\u018d\u0192\u0195\u0199-\u019b\u019e\u01a1\u01a3\u01a5\u01a8\u01aa\u01ab\u01ad\u01b0\u01b4\u01b6\u01b9\u01ba\u01bd-\u01bf\u01c6\u01c9\u01cc\u01ce\u01d0\u01d2\u01d4\u01d6\u01d8\u01da\u01dc\u01dd\u01df\u01e1\u01e3\u01e5\u01e7\u01e9\u01eb\u01ed\u01ef\u01f0\u01f3\u01f5\u01f9\u01fb\u01fd\u01ff\u0201\u0203\u0205\u0207\u0209\u020b\u020d\u020f\u0211\u0213\u0215\u0217\u0219\u021b\u021d\u021f\u0221\u0223\u0225\u0227\u0229\u022b\u022d\u022f\u0231\u0233-\u0239\u023c\u023f\u0240\u0242\u0247\u0249\u024b\u024d\u024f-\u0293\u0295-\u02af\u037b-\u037d\u0390\u03ac-\u03ce\u03d0\u03d1\u03d5-\u03d7\u03d9\u03db\u03dd\u03df\u03e1\u03e3\u03e5\u03e7\u03e9\u03eb\u03ed\u03ef-\u03f3\u03f5\u03f8\u03fb\u03fc\u0430-\u045f\u0461\u0463\u0465\u0467\u0469\u046b\u046d\u046f\u0471\u0473\u0475\u0477\u0479\u047b\u047d\u047f\u0481\u048b\u048d\u048f\u0491\u0493\u0495\u0497\u0499\u049b\u049d\u049f\u04a1\u04a3\u04a5\u04a7\u04a9\u04ab\u04ad\u04af\u04b1\u04b3\u04b5\u04b7\u04b9\u04bb\u04bd\u04bf\u04c2\u04c4\u04c6\u04c8\u04ca\u04cc\u04ce\u04cf\u04d1\u04d3\u04d5\u04d7\u04d9\u04db\u04dd\u04df\u04e1\u04e3\u04e5\u04e7\u04e9\u04eb\u04ed\u04ef\u04f1\u04f3\u04f5\u04f7\u04f9\u04fb\u04fd\u04ff\u0501\u0503\u0505\u0507\u0509\u050b\u050d\u050f\u0511\u0513\u0561-\u0587\u1d00-\u1d2b\u1d62-\u1d77\u1d79-\u1d9a\u1e01\u1e03\u1e05\u1e07\u1e09\u1e0b\u1e0d\u1e0f\u1e11\u1e13\u1e15\u1e17\u1e19\u1e1b\u1e1d\u1e1f\u1e21\u1e23\u1e25\u1e27\u1e29\u1e2b\u1e2d\u1e2f\u1e31\u1e33\u1e35\u1e37\u1e39\u1e3b\u1e3d\u1e3f\u1e41\u1e43\u1e45\u1e47\u1e49\u1e4b\u1e4d\u1e4f\u1e51\u1e53\u1e55\u1e57\u1e59\u1e5b\u1e5d\u1e5f\u1e61\u1e63\u1e65\u1e67\u1e69\u1e6b\u1e6d\u1e6f\u1e71\u1e73\u1e75\u1e77\u1e79\u1e7b\u1e7d\u1e7f\u1e81\u1e83\u1e85\u1e87\u1e89\u1e8b\u1e8d\u1e8f\u1e91\u1e93\u1e95-\u1e9b\u1ea1\u1ea3\u1ea5\u1ea7\u1ea9\u1eab\u1ead\u1eaf\u1eb1\u1eb3\u1eb5\u1eb7\u1eb9\u1ebb\u1ebd\u1ebf\u1ec1\u1ec3\u1ec5\u1ec7\u1ec9\u1ecb\u1ecd\u1ecf\u1ed1\u1ed3\u1ed5\u1ed7\u1ed9\u1edb\u1edd\u1edf\u1ee1\u1ee3\u1ee5\u1ee7\u1ee9\u1eeb\u1eed\u1eef\u1ef1\u1ef3\u1ef5\u1ef7\u1ef9\u1f00-\u1f07\u1f10-\u1f15\u1f20-\u1f27\u1f30-\u1f37\u1f40-\u1f45\u1f50-\u1f57\u1f60-\u1f67\u1f70-\u1f7d\u1f80-\u1f87\u1f90-\u1f97\u1fa0-\u1fa7\u1fb0-\u1fb4\u1fb6\u1fb7\u1fbe\u1fc2-\u1fc4\u1fc6\u1fc7\u1fd0-\u1fd3\u1fd6\u1fd7\u1fe0-\u1fe7\u1ff2-\u1ff4\u1ff6\u1ff7\u2071\u207f\u210a\u210e\u210f\u2113\u212f\u2134\u2139\u213c\u213d\u2146-\u2149\u214e\u2184\u2c30-\u2c5e\u2c61\u2c65\u2c66\u2c68\u2c6a\u2c6c\u2c74\u2c76\u2c77\u2c81\u2c83\u2c85\u2c87\u2c89\u2c8b\u2c8d\u2c8f\u2c91\u2c93\u2c95\u2c97\u2c99\u2c9b\u2c9d\u2c9f\u2ca1\u2ca3\u2ca5\u2ca7\u2ca9\u2cab\u2cad\u2caf\u2cb1\u2cb3\u2cb5\u2cb7\u2cb9\u2cbb\u2cbd\u2cbf\u2cc1\u2cc3\u2cc5\u2cc7\u2cc9\u2ccb\u2ccd\u2ccf\u2cd1\u2cd3\u2cd5\u2cd7\u2cd9\u2cdb\u2cdd\u2cdf\u2ce1\u2ce3\u2ce4\u2d00-\u2d25\ufb00-\ufb06\ufb13-\ufb17\uff41-\uff5a'
    
        Lt = '\u01c5\u01c8\u01cb\u01f2\u1f88-\u1f8f\u1f98-\u1f9f\u1fa8-\u1faf\u1fbc\u1fcc\u1ffc'

        Lm = '\u02b0-\u02c1\u02c6-\u02d1\u02e0-\u02e4\u02ee\u037a\u0559\u0640\u06e5\u06e6\u07f4\u07f5\u07fa\u0e46\u0ec6\u10fc\u17d7\u1843\u1d2c-\u1d61\u1d78\u1d9b-\u1dbf\u2090-\u2094\u2d6f\u3005\u3031-\u3035\u303b\u309d\u309e\u30fc-\u30fe\ua015\ua717-\ua71a\uff70\uff9e\uff9f'
    
        Lo = '\u01bb\u01c0-\u01c3\u0294\u05d0-\u05ea\u05f0-\u05f2\u0621-\u063a\u0641-\u064a\u066e\u066f\u0671-\u06d3\u06d5\u06ee\u06ef\u06fa-\u06fc\u06ff\u0710\u0712-\u072f\u074d-\u076d\u0780-\u07a5\u07b1\u07ca-\u07ea\u0904-\u0939\u093d\u0950\u0958-\u0961\u097b-\u097f\u0985-\u098c\u098f\u0990\u0993-\u09a8\u09aa-\u09b0\u09b2\u09b6-\u09b9\u09bd\u09ce\u09dc\u09dd\u09df-\u09e1\u09f0\u09f1\u0a05-\u0a0a\u0a0f\u0a10\u0a13-\u0a28\u0a2a-\u0a30\u0a32\u0a33\u0a35\u0a36\u0a38\u0a39\u0a59-\u0a5c\u0a5e\u0a72-\u0a74\u0a85-\u0a8d\u0a8f-\u0a91\u0a93-\u0aa8\u0aaa-\u0ab0\u0ab2\u0ab3\u0ab5-\u0ab9\u0abd\u0ad0\u0ae0\u0ae1\u0b05-\u0b0c\u0b0f\u0b10\u0b13-\u0b28\u0b2a-\u0b30\u0b32\u0b33\u0b35-\u0b39\u0b3d\u0b5c\u0b5d\u0b5f-\u0b61\u0b71\u0b83\u0b85-\u0b8a\u0b8e-\u0b90\u0b92-\u0b95\u0b99\u0b9a\u0b9c\u0b9e\u0b9f\u0ba3\u0ba4\u0ba8-\u0baa\u0bae-\u0bb9\u0c05-\u0c0c\u0c0e-\u0c10\u0c12-\u0c28\u0c2a-\u0c33\u0c35-\u0c39\u0c60\u0c61\u0c85-\u0c8c\u0c8e-\u0c90\u0c92-\u0ca8\u0caa-\u0cb3\u0cb5-\u0cb9\u0cbd\u0cde\u0ce0\u0ce1\u0d05-\u0d0c\u0d0e-\u0d10\u0d12-\u0d28\u0d2a-\u0d39\u0d60\u0d61\u0d85-\u0d96\u0d9a-\u0db1\u0db3-\u0dbb\u0dbd\u0dc0-\u0dc6\u0e01-\u0e30\u0e32\u0e33\u0e40-\u0e45\u0e81\u0e82\u0e84\u0e87\u0e88\u0e8a\u0e8d\u0e94-\u0e97\u0e99-\u0e9f\u0ea1-\u0ea3\u0ea5\u0ea7\u0eaa\u0eab\u0ead-\u0eb0\u0eb2\u0eb3\u0ebd\u0ec0-\u0ec4\u0edc\u0edd\u0f00\u0f40-\u0f47\u0f49-\u0f6a\u0f88-\u0f8b\u1000-\u1021\u1023-\u1027\u1029\u102a\u1050-\u1055\u10d0-\u10fa\u1100-\u1159\u115f-\u11a2\u11a8-\u11f9\u1200-\u1248\u124a-\u124d\u1250-\u1256\u1258\u125a-\u125d\u1260-\u1288\u128a-\u128d\u1290-\u12b0\u12b2-\u12b5\u12b8-\u12be\u12c0\u12c2-\u12c5\u12c8-\u12d6\u12d8-\u1310\u1312-\u1315\u1318-\u135a\u1380-\u138f\u13a0-\u13f4\u1401-\u166c\u166f-\u1676\u1681-\u169a\u16a0-\u16ea\u1700-\u170c\u170e-\u1711\u1720-\u1731\u1740-\u1751\u1760-\u176c\u176e-\u1770\u1780-\u17b3\u17dc\u1820-\u1842\u1844-\u1877\u1880-\u18a8\u1900-\u191c\u1950-\u196d\u1970-\u1974\u1980-\u19a9\u19c1-\u19c7\u1a00-\u1a16\u1b05-\u1b33\u1b45-\u1b4b\u2135-\u2138\u2d30-\u2d65\u2d80-\u2d96\u2da0-\u2da6\u2da8-\u2dae\u2db0-\u2db6\u2db8-\u2dbe\u2dc0-\u2dc6\u2dc8-\u2dce\u2dd0-\u2dd6\u2dd8-\u2dde\u3006\u303c\u3041-\u3096\u309f\u30a1-\u30fa\u30ff\u3105-\u312c\u3131-\u318e\u31a0-\u31b7\u31f0-\u31ff\u3400\u4db5\u4e00\u9fbb\ua000-\ua014\ua016-\ua48c\ua800\ua801\ua803-\ua805\ua807-\ua80a\ua80c-\ua822\ua840-\ua873\uac00\ud7a3\uf900-\ufa2d\ufa30-\ufa6a\ufa70-\ufad9\ufb1d\ufb1f-\ufb28\ufb2a-\ufb36\ufb38-\ufb3c\ufb3e\ufb40\ufb41\ufb43\ufb44\ufb46-\ufbb1\ufbd3-\ufd3d\ufd50-\ufd8f\ufd92-\ufdc7\ufdf0-\ufdfb\ufe70-\ufe74\ufe76-\ufefc\uff66-\uff6f\uff71-\uff9d\uffa0-\uffbe\uffc2-\uffc7\uffca-\uffcf\uffd2-\uffd7\uffda-\uffdc'

        Nl = '\u16ee-\u16f0\u2160-\u2182\u3007\u3021-\u3029\u3038-\u303a'

        Mn = '\u0300-\u036f\u0483-\u0486\u0591-\u05bd\u05bf\u05c1\u05c2\u05c4\u05c5\u05c7\u0610-\u0615\u064b-\u065e\u0670\u06d6-\u06dc\u06df-\u06e4\u06e7\u06e8\u06ea-\u06ed\u0711\u0730-\u074a\u07a6-\u07b0\u07eb-\u07f3\u0901\u0902\u093c\u0941-\u0948\u094d\u0951-\u0954\u0962\u0963\u0981\u09bc\u09c1-\u09c4\u09cd\u09e2\u09e3\u0a01\u0a02\u0a3c\u0a41\u0a42\u0a47\u0a48\u0a4b-\u0a4d\u0a70\u0a71\u0a81\u0a82\u0abc\u0ac1-\u0ac5\u0ac7\u0ac8\u0acd\u0ae2\u0ae3\u0b01\u0b3c\u0b3f\u0b41-\u0b43\u0b4d\u0b56\u0b82\u0bc0\u0bcd\u0c3e-\u0c40\u0c46-\u0c48\u0c4a-\u0c4d\u0c55\u0c56\u0cbc\u0cbf\u0cc6\u0ccc\u0ccd\u0ce2\u0ce3\u0d41-\u0d43\u0d4d\u0dca\u0dd2-\u0dd4\u0dd6\u0e31\u0e34-\u0e3a\u0e47-\u0e4e\u0eb1\u0eb4-\u0eb9\u0ebb\u0ebc\u0ec8-\u0ecd\u0f18\u0f19\u0f35\u0f37\u0f39\u0f71-\u0f7e\u0f80-\u0f84\u0f86\u0f87\u0f90-\u0f97\u0f99-\u0fbc\u0fc6\u102d-\u1030\u1032\u1036\u1037\u1039\u1058\u1059\u135f\u1712-\u1714\u1732-\u1734\u1752\u1753\u1772\u1773\u17b7-\u17bd\u17c6\u17c9-\u17d3\u17dd\u180b-\u180d\u18a9\u1920-\u1922\u1927\u1928\u1932\u1939-\u193b\u1a17\u1a18\u1b00-\u1b03\u1b34\u1b36-\u1b3a\u1b3c\u1b42\u1b6b-\u1b73\u1dc0-\u1dca\u1dfe\u1dff\u20d0-\u20dc\u20e1\u20e5-\u20ef\u302a-\u302f\u3099\u309a\ua806\ua80b\ua825\ua826\ufb1e\ufe00-\ufe0f\ufe20-\ufe23'

        Mc = '\u0903\u093e-\u0940\u0949-\u094c\u0982\u0983\u09be-\u09c0\u09c7\u09c8\u09cb\u09cc\u09d7\u0a03\u0a3e-\u0a40\u0a83\u0abe-\u0ac0\u0ac9\u0acb\u0acc\u0b02\u0b03\u0b3e\u0b40\u0b47\u0b48\u0b4b\u0b4c\u0b57\u0bbe\u0bbf\u0bc1\u0bc2\u0bc6-\u0bc8\u0bca-\u0bcc\u0bd7\u0c01-\u0c03\u0c41-\u0c44\u0c82\u0c83\u0cbe\u0cc0-\u0cc4\u0cc7\u0cc8\u0cca\u0ccb\u0cd5\u0cd6\u0d02\u0d03\u0d3e-\u0d40\u0d46-\u0d48\u0d4a-\u0d4c\u0d57\u0d82\u0d83\u0dcf-\u0dd1\u0dd8-\u0ddf\u0df2\u0df3\u0f3e\u0f3f\u0f7f\u102c\u1031\u1038\u1056\u1057\u17b6\u17be-\u17c5\u17c7\u17c8\u1923-\u1926\u1929-\u192b\u1930\u1931\u1933-\u1938\u19b0-\u19c0\u19c8\u19c9\u1a19-\u1a1b\u1b04\u1b35\u1b3b\u1b3d-\u1b41\u1b43\u1b44\ua802\ua823\ua824\ua827'

        Nd = '\u0030-\u0039\u0660-\u0669\u06f0-\u06f9\u07c0-\u07c9\u0966-\u096f\u09e6-\u09ef\u0a66-\u0a6f\u0ae6-\u0aef\u0b66-\u0b6f\u0be6-\u0bef\u0c66-\u0c6f\u0ce6-\u0cef\u0d66-\u0d6f\u0e50-\u0e59\u0ed0-\u0ed9\u0f20-\u0f29\u1040-\u1049\u17e0-\u17e9\u1810-\u1819\u1946-\u194f\u19d0-\u19d9\u1b50-\u1b59\uff10-\uff19'

        Pc = '\u005f\u203f\u2040\u2054\ufe33\ufe34\ufe4d-\ufe4f\uff3f'

        Pd = '\u002d\u058a\u1806\u2010-\u2015\u2e17\u301c\u3030\u30a0\ufe31\ufe32\ufe58\ufe63\uff0d'

        #INITIAL_NAME_CLASSES = [ 'Lu', 'Ll', 'Lt', 'Lm', 'Lo', 'Nl' ]  # original
        # modified version to use explicit matches
        INITIAL_NAME_CLASSES = [Lu, Ll, Lt, Lm, Lo, Nl]

        #NON_INITIAL_NAME_CLASSES = [ 'Mn', 'Mc', 'Nd', 'Pc' ]  # original
        # Modified version to use explicit matches and also allow additional
        # punctuation to be used in the JSON names.
        NON_INITIAL_NAME_CLASSES = [Mn, Mc, Nd, Pd, Pc, r"\.`¬!£$%^&+=|;:@#~/?,<>"]

        FOLLOWING_NAME_CLASSES = INITIAL_NAME_CLASSES + NON_INITIAL_NAME_CLASSES
        DOT_SEPARATOR = r'\.\.?'

        def classes_to_re(classes):
            #re_classes = list(map(lambda x: f"\\p{{{x}}}", classes))  # original
            #return f"[{''.join(re_classes)}]"  # original
            return fr"[{''.join(classes)}]"  # modified with explicit matches

        # Modified to only use FOLLOWING_NAME_CLASSES, as the original would
        # fail on names starting with allowed punctuation e.g. $._error
        name_re = (#classes_to_re(INITIAL_NAME_CLASSES) +
                   classes_to_re(FOLLOWING_NAME_CLASSES) + '*')
        dot_step = DOT_SEPARATOR + r'((' + name_re + r')|(\*))'
        rp_dot_step = DOT_SEPARATOR + name_re
        bracket_step = r'\[' + "'" + name_re + r"'" + r'\]'
        rp_num_index = r'\[-?\d+\]'  # Original was '\[\d+\]' which didn't allow minus
        num_index = r'\[\d+(, *\d+)?\]'
        star_index = r'\[\*\]'
        colon_index = r'\[(-?\d+)?:(-?\d+)?\]'
        # The original Ruby code had this block for matching indices
        #index = '((' + num_index + ')|(' + star_index + ')|(' + colon_index + '))'
        # However that fails to match filter/script expressions e.g. ?() or ()
        # for example $..book[(@.length-1)], $..book[?(@.isbn)], $..book[?(@.price<10)]
        # We add a script_index block to match this case.
        script_index = r'\[\??\(.*\)\]'
        index = (r'((' + num_index + r')|(' + star_index + r')|' + 
                  r'(' + script_index + r')|(' + colon_index + r'))')

        step = (r'((' + dot_step + r')|(' + bracket_step + r')|' + 
                 r'(' + index + r'))' + r'(' + index + r')?')
        # Original rp_step ends with 0 or 1 match ? which fails to match
        # $.ledgers[0][22][315].foo I think it should be a 0 or more match *
        #rp_step = '((' + rp_dot_step + ')|(' + bracket_step + '))' + '(' + rp_num_index + ')?'
        rp_step = r'((' + rp_dot_step + r')|(' + bracket_step + r'))' + r'(' + rp_num_index + r')*'
        path = r'^\$\$?' + r'(' + step + r')*$'
        reference_path = r'^\$' + r'(' + rp_step + r')*$'

        self.path_re = re.compile(path)
        self.reference_path_re = re.compile(reference_path)

    def is_path(self, s):
        #if isinstance(s, str): print(self.path_re.match(s))
        return isinstance(s, str) and self.path_re.match(s)

    def is_reference_path(self, s):
        #if isinstance(s, str): print(self.reference_path_re.match(s))
        return isinstance(s, str) and self.reference_path_re.match(s)

#-------------------------------------------------------------------------------

class Constraint():
    """
    Based on https://github.com/awslabs/j2119/blob/master/lib/j2119/constraints.rb#L24
    These all respond_to
    check(node, path, problem)
     - node is the JSON node being checked
     - path is the current path, for reporting practices
     - problems is a list of problem reports
    TODO: Add a "role" argument to enrich error reporting
    """
    def __init__(self):
        self.conditions = []

    def add_condition(self, condition):
        #print("Constraint add_condition")
        self.conditions.append(condition)

    def applies(self, node, role):
        #print(f"Constraint applies {node} {role} {self.conditions}")
        return (len(self.conditions) == 0 or
                any(c.constraint_applies(node, role) for c in self.conditions))

#-------------------------------------------------------------------------------

class OnlyOneOfConstraint(Constraint):
    # Based on https://github.com/awslabs/j2119/blob/master/lib/j2119/constraints.rb#L41
    # Verify that there is only one of a selection of fields
    def __init__(self, fields):
        super().__init__()
        #print(f"OnlyOneOfConstraint {fields}")
        self.fields = fields

    def check(self, node, path, problems):
        #print(f"OnlyOneOfConstraint (check only one of {self.fields}) {node} {path} {problems}")
        if len(list(filter(lambda f: f in self.fields, node.keys()))) > 1:
            problems.append(f'{path} may have only one of {self.fields}')

#-------------------------------------------------------------------------------

class NonEmptyConstraint(Constraint):
    # Based on https://github.com/awslabs/j2119/blob/master/lib/j2119/constraints.rb#L57
    # Verify that array field is not empty
    def __init__(self, name):
        super().__init__()
        #print(f"NonEmptyConstraint {name}")
        self.name = name

    def check(self, node, path, problems):
        #print(f"NonEmptyConstraint (check {self.name} is non empty) {node} {path} {problems}")
        value = node.get(self.name)
        if isinstance(value, list) and len(value) == 0:
            problems.append(f'{path}.{self.name} is empty, non-empty required')

#-------------------------------------------------------------------------------

class HasFieldConstraint(Constraint):
    # Based on https://github.com/awslabs/j2119/blob/master/lib/j2119/constraints.rb#L78
    # Verify node has the named field, or one of the named fields
    def __init__(self, names):
        super().__init__()
        self.names = names if isinstance(names, list) else [names]
        #print(f"HasFieldConstraint {self.names}")

    def check(self, node, path, problems):
        #print(f"-------- HasFieldConstraint (check has {self.names} field) {node} {path} {problems}")
        # Check if any of the contraint names are present in the supplied node
        if not any(name in node for name in self.names):
            if len(self.names) == 1:
                problems.append(f'{path} does not have required field "{self.names[0]}"')
            else:
                problems.append(f'{path} does not have required field from {self.names}')

#-------------------------------------------------------------------------------

class DoesNotHaveFieldConstraint(Constraint):
    # Based on https://github.com/awslabs/j2119/blob/master/lib/j2119/constraints.rb#L108
    # Verify node does not have the named field
    def __init__(self, name):
        super().__init__()
        #print(f"DoesNotHaveFieldConstraint {name}")
        self.name = name

    def check(self, node, path, problems):
        #print(f"DoesNotHaveFieldConstraint (check does not have field {self.name}) {node} {path} {problems}")
        if self.name in node:
            problems.append(f'{path} has forbidden field "{self.name}"')

#-------------------------------------------------------------------------------

class FieldTypeConstraint(Constraint):
    # Based on https://github.com/awslabs/j2119/blob/master/lib/j2119/constraints.rb#L129
    # Verify type of a field in a node
    def __init__(self, name, type, is_array, is_nullable):
        super().__init__()
        #print(f"FieldTypeConstraint {name}, {type}, {is_array}, {is_nullable}")
        self.name = name
        self.type = type
        self.is_array = is_array
        self.is_nullable = is_nullable

    def check(self, node, path, problems):
        #print(f"FieldTypeConstraint (check {self.name} is {self.type}) {node} {path} {problems}")

        # type-checking is orthogonal to existence checking
        if self.name not in node:
            return

        value = node.get(self.name)
        path = f"{path}.{self.name}"

        #print(f"path: {path}")
        #print(f"value: {value}")

        if value == None:
            if not self.is_nullable:
                problems.append(f'{path} should be non-null')
            return

        if self.is_array:
            if isinstance(value, list):
                for i, element in enumerate(value):
                    self.value_check(element, "{path}[{i}]", problems)
            else:
                self.report(path, value, "an Array", problems)
        else:
            self.value_check(value, path, problems)

    def value_check(self, value, path, problems):
        #print(f"FieldTypeConstraint value_check {value} {path} {problems}")
        #print(f"self.type: {self.type}")

        if self.type == "object" and not isinstance(value, dict):
             self.report(path, value, "an Object", problems)
        elif self.type == "array" and not isinstance(value, list):
             self.report(path, value, "an Array", problems)
        elif self.type == "string" and not isinstance(value, str):
             self.report(path, value, "a String", problems)
        elif self.type == "integer" and not isinstance(value, int):
             self.report(path, value, "an Integer", problems)
        elif self.type == "float" and not isinstance(value, float):
             self.report(path, value, "a Float", problems)
        elif self.type == "boolean" and value != True and value != False:
             self.report(path, value, "a Boolean", problems)
        elif self.type == "numeric" and not (isinstance(value, int) or 
                                             isinstance(value, float)):
             self.report(path, value, "a Numeric", problems)
        elif self.type == "JSONPath" and not JSONPathChecker().is_path(value):
             self.report(path, value, "a JSONPath", problems)
        elif self.type == "referencePath"and not JSONPathChecker().is_reference_path(value):
             self.report(path, value, "a Reference Path", problems)
        elif self.type == "timestamp":
            # Only a (non-empty) string can be a timestamp, any other JSON
            # value is reported, like a malformed string, not sliced.
            if not isinstance(value, str) or len(value) == 0:
                self.report(path, value, "an RFC3339 timestamp", problems)
                return

            # Preprocess RFC3339 into template strptime format
            if value[-1] == "Z":
                date = value[:-1]
            else:
                date = value[:-6]

            if "." not in date:
                date = date + ".0"

            try:
                datetime.strptime(date, "%Y-%m-%dT%H:%M:%S.%f")
            except Exception as e:
                self.report(path, value, "an RFC3339 timestamp", problems)
        elif self.type == "URI" and not (isinstance(value, str) and
                                         re.match(r"[a-z]+:", value)):
             self.report(path, value, "a URI", problems)

    def report(self, path, value, message, problems):
        #print(f"FieldTypeConstraint report {path} {value} {message} {problems}")
        if isinstance(value, str):
            value = '"' + value + '"'
        problems.append(f'{path} is {value} but should be {message}')

#-------------------------------------------------------------------------------

class FieldValueConstraint(Constraint):
    # Based on https://github.com/awslabs/j2119/blob/master/lib/j2119/constraints.rb#L221
    # Verify constraints on values of a named field
    def __init__(self, name, params):
        super().__init__()
        #print(f"FieldValueConstraint {name} {params}")
        self.name = name
        self.params = params

    def check(self, node, path, problems):
        #print(f"FieldValueConstraint {self.name} {self.params} check {node} {path} {problems}")

        # value-checking is orthogonal to existence checking
        if self.name not in node:
            return

        value = node.get(self.name)
        if "enum" in self.params:
            enum = self.params.get("enum")
            if value not in enum:
                problems.append(
                    f'{path}.{self.name} is "{value}", ' +
                    f'not one of the allowed values {enum}'
                )
            # if enum constraints are provided, others are ignored
            return

        if "equal" in self.params:
            equal = self.params.get("equal")
            try:
                if value != equal:
                    problems.append(
                        f'{path}.{self.name} is {value}, ' +
                        f'but required value is {equal}'
                    )
            except: # Wrong type should be reported by type constraint
                pass 

        if "floor" in self.params:
            floor = self.params.get("floor")
            try:
                if value <= floor:
                    problems.append(
                        f'{path}.{self.name} is {value}, ' +
                        f'but allowed floor is {floor}'
                    )
            except: # Wrong type should be reported by type constraint
                pass 

        if "min" in self.params:
            min = self.params.get("min")
            try:
                if value < min:
                    problems.append(
                        f'{path}.{self.name} is {value}, ' +
                        f'but allowed minimum is {min}'
                    )
            except: # Wrong type should be reported by type constraint
                pass 

        if "ceiling" in self.params:
            ceiling = self.params.get("ceiling")
            try:
                if value >= ceiling:
                    problems.append(
                        f'{path}.{self.name} is {value}, ' +
                        f'but allowed ceiling is {ceiling}')
            except: # Wrong type should be reported by type constraint
                pass 

        if "max" in self.params:
            max = self.params.get("max")
            try:
                if value > max:
                    problems.append(
                        f'{path}.{self.name} is {value}, ' +
                        f'but allowed maximum is {max}')
            except: # Wrong type should be reported by type constraint
                pass 

#-------------------------------------------------------------------------------

class RoleFinder():
    """
    Based on https://github.com/awslabs/j2119/blob/master/lib/j2119/role_finder.rb
    This is about figuring out which roles apply to a node and
    potentially to its children in object and array valued fields
    """
    def __init__(self):
        # roles of the form: If an object with role X has field Y which
        # is an object, that object has role R
        self.child_roles = {}

        # roles of the form: If an object with role X has field Y which
        # is an object/array, the object-files/array-elements have role R
        self.grandchild_roles = {}

        # roles of the form: If an object with role X has a field Y with
        # value Z, it has role R
        # map[role][field_name][field_val] => child_role
        self.field_value_roles = {}

        # roles of the form: If an object with role X has a field Y, then
        # it has role R
        # map[role][field_name] => child_role
        self.field_presence_roles = {}

        # roles of the form: A Foo is a Bar
        self.is_a_roles = {}

    def add_is_a_role(self, role, other_role):
        self.is_a_roles.setdefault(role, []).append(other_role)

    def add_field_value_role(self, role, field_name, field_value, new_role):
        self.field_value_roles.setdefault(role, {}).setdefault(field_name, {})
        field_value = deduce(field_value)
        self.field_value_roles[role][field_name][field_value] = new_role

    def add_field_presence_role(self, role, field_name, new_role):
        self.field_presence_roles.setdefault(role, {})[field_name] = new_role

    def add_child_role(self, role, field_name, child_role):
        self.child_roles.setdefault(role, {})[field_name] = child_role

    def add_grandchild_role(self, role, field_name, child_role):
        self.grandchild_roles.setdefault(role, {})[field_name] = child_role


    def find_more_roles(self, node, roles):
        """
        Consider a node which has one or more roles. It may have more
        roles based on the presence or value of child nodes. This method
        addes any such roles to the "roles" list
        """
        # find roles depending on field values
        for role in roles:
            per_field_name = self.field_value_roles.get(role)
            if per_field_name:
                for field_name, value_roles in per_field_name.items():
                    for field_value, child_role in value_roles.items():
                        if field_value == node.get(field_name):
                            roles.append(child_role)

        # find roles depending on field presence
        for role in roles:
            per_field_name = self.field_presence_roles.get(role)
            if per_field_name:
                for field_name, child_role in per_field_name.items():
                    if field_name in node:
                        roles.append(child_role)

        # is_a roles
        for role in roles:
            other_roles = self.is_a_roles.get(role)
            if other_roles:
                roles.extend(other_roles)

    def find_child_roles(self, roles, field_name):
        """
        A node has a role, and one of its fields might be object-valued
        and that value is given a role
        """
        newroles = []
        for role in roles:
            if field_name in self.child_roles.get(role, {}):
                newroles.append(self.child_roles[role][field_name])

        return newroles

    def find_grandchild_roles(self, roles, field_name):
        """
        A node has a role, and one of its field is an object or an
        array whose fields or elements are given a role
        """
        newroles = []
        for role in roles:
            if field_name in self.grandchild_roles.get(role, {}):
                newroles.append(self.grandchild_roles[role][field_name])

        return newroles

#-------------------------------------------------------------------------------

class RoleNotPresentCondition():
    """
    Based on https://github.com/awslabs/j2119/blob/master/lib/j2119/conditional.rb
    to be applied to a role/constraint combo, so the constraint is applied
    conditionally

    These all respond_to
    constraint_applies(node, roles)
     - node is the JSON node being checked
     - roles is the roles the node currently has
    """
    def __init__(self, exclude_roles):
        #print("RoleNotPresentCondition {exclude_roles}")
        self.excluded_roles = exclude_roles

    def constraint_applies(self, node, roles):
        #print("RoleNotPresentCondition constraint_applies")
        return not any(role in self.excluded_roles for role in roles)

#-------------------------------------------------------------------------------

class AllowedFields():
    """
    Based on https://github.com/awslabs/j2119/blob/master/lib/j2119/allowed_fields.rb
    The States language is draconian/must-understand; no fields may appear
    which aren't explicitly blessed by a MUST/MAY clause
    """
    def __init__(self):
        self.allowed = {}
        self.any = []

    def set_allowed(self, role, child):
        self.allowed.setdefault(role, []).append(child)

    def set_any(self, role):
        self.any.append(role)

    def is_allowed(self, roles, child):
        allows_any = self.allows_any(roles)
        #print(f"AllowedFields is_allowed {roles} {child} {allows_any or any(child in self.allowed.get(role, []) for role in roles)}")
        return allows_any or any(child in self.allowed.get(role, []) for role in roles)

    def allows_any(self, roles):
        return any(role in self.any for role in roles)

#-------------------------------------------------------------------------------

class Matcher():
    """
    Based on https://github.com/awslabs/j2119/blob/master/lib/j2119/matcher.rb
    Matches and extracts the IETF RFC 2119 style assertions using regular
    expressions with named groups for captures.
    """
    def __init__(self, root):
        self.roles = []
        self.add_role(root)

    def add_role(self, role):
        self.roles.append(role)
        self.role_matcher = "|".join(set(self.roles))  # set() gets unique values
        self.reconstruct()

    def make_type_regex(self):
        types = [
            'array', 'object', 'string', 'boolean', 'numeric', 'integer',
            'float', 'timestamp', 'JSONPath', 'referencePath', 'URI'
        ]

        # Add modified numeric types
        number_types = ['float', 'integer', 'numeric']
        number_modifiers = ['positive', 'negative', 'nonnegative']

        for number_type in number_types:
            for number_modifier in number_modifiers:
                types.append(f"{number_modifier}-{number_type}")

        # Add array types
        array_types = list(map(lambda t: f"{t}-array", types))
        types = types + array_types
        nonempty_array_types = list(map(lambda t: f"nonempty-{t}", types))
        types = types + nonempty_array_types
        nullable_types = list(map(lambda t: f"nullable-{t}", types))
        types = types + nullable_types

        self.type_regex = r"|".join(types)

    def reconstruct(self):
        self.make_type_regex()

        MUST = r'(?P<modal>MUST|MAY|MUST NOT)'

        RELATIONS = r"|".join([
            r'equal to', 'greater than', 'less than',
            r'greater than or equal to', 'less than or equal to'
        ])
        RELATION = fr"((?P<relation>{RELATIONS})\s+)"

        S = r'"[^"]*"' # string
        V = r'\S+'     # non-string value: number, true, false, null
        RELATIONAL = fr"{RELATION}(?P<target>{S}|{V})"

        CHILD_ROLE = (r';\s+((its\s+(?P<child_type>value))|' +
            r'each\s+(?P<child_type_each>field|element))' +
            r'\s+is\s+an?\s+' +
            r'"(?P<child_role>[^"]+)"')

        strings = Oxford().re(S, capture_name="strings")
        enums = fr"one\s+of\s{strings}"
        predicate = fr"({RELATIONAL}|{enums})"

        # Conditional clause
        excluded_roles = (r'not\s+' +
            Oxford().re(
                self.role_matcher, capture_name="excluded", use_article=True
            ) +
        r'\s+')
        conditional = r"which\s+is\s+" + excluded_roles

        # regex for matching constraint lines
        c_start = fr'^An?\s+(?P<role>{self.role_matcher})\s+({conditional})?{MUST}\s+have\s+an?\s+'
        #print("++++++++++++++")
        #print(c_start)
        #print("++++++++++++++")

        field_list = (r"one\s+of\s+" +
            Oxford().re(r'"[^"]+"', capture_name="field_list"))

        c_match = (c_start + 
            fr"((?P<type>{self.type_regex})\s+)?" +
            r"field\s+named\s+" +
            fr"((\"(?P<field_name>[^\"]+)\")|({field_list}))" +
            fr"(\s+whose\s+value\s+MUST\s+be\s+{predicate})?" +
            fr"({CHILD_ROLE})?" +
            r"\.")

        """
        regex for matching lines of the form:
        "An X MUST have only one of "Y", "Z", and "W".
        There's a pattern here, building a separate regex rather than
        adding more complexity to constraint_matcher. Any further additions
        should be done this way, and
        TODO: Break constraint_matcher into a bunch of smaller patterns
        like this.
        """
        oo_start = (r"^An?\s+" +
            fr"(?P<role>{self.role_matcher})\s+" +
            fr"{MUST}\s+have\s+only\s+")
        oo_field_list = (r"one\s+of\s+" +
            Oxford().re(r'"[^"]+"', capture_name="field_list", connector="and"))
        oo_match = oo_start + oo_field_list

        # regex for matching role-def lines
        val_match = (r'whose\s+"(?P<fieldtomatch>[^"]+)"' +
            r'\s+field\'s\s+value\s+is\s+' +
            r'(?P<valtomatch>("[^"]*")|([^"\s]\S+))\s+')
        with_a_match = r'with\s+an?\s+"(?P<with_a_field>[^"]+)"\s+field\s'
        rd_match = (r'^An?\s+' +
            fr'(?P<role>{self.role_matcher})\s+' +
            fr'((?P<val_match_present>{val_match})|({with_a_match}))?' +
            r'is\s+an?\s+' +
            r'"(?P<newrole>[^"]*)"\.\s*$')

        # regex for matching each of lines
        eo_start = r"^Each\s+of\s"
        eo_match = (eo_start +
            Oxford().re(
                self.role_matcher, capture_name="each_of", use_article=True, connector="and"
            ) +
        r"\s+(?P<trailer>.*)$")

        self.roledef_line = re.compile(r'is\s+an?\s+"[^"]*"\.\s*$')
        self.roledef_match = re.compile(rd_match)
        self.constraint_start = re.compile(c_start)
        self.constraint_match = re.compile(c_match)
        self.only_one_start = re.compile(oo_start)
        self.only_one_match = re.compile(oo_match)
        self.eachof_start = re.compile(eo_start)
        self.eachof_match = re.compile(eo_match)

    def is_constraint_line(self, line):
        return self.constraint_start.match(line)

    def is_only_one_match_line(self, line):
        return self.only_one_start.match(line)

    def is_each_of_line(self, line):
        return self.eachof_start.match(line)

    def is_role_def_line(self, line):
        #return self.roledef_line.match(line)
        return self.roledef_line.search(line)

    def build(self, re, line):
        match = re.match(line)
        if not match:
            raise Exception(f"Matcher unable to build line")

        # Use dict comprehension to return dict with only non-None values
        return {k:v for (k, v) in match.groupdict().items() if v}

    def build_constraint(self, line):
        constraint = self.build(self.constraint_match, line)
        # Original Ruby code uses duplicate child_type capture group name, which
        # re disallows, so copy the child_type_each result across if present
        if "child_type_each" in constraint:
            constraint["child_type"] = constraint["child_type_each"]

        return constraint

    def build_only_one(self, line):
        return self.build(self.only_one_match, line)

    def build_each_ofs(self, line):
        eaches_line = self.eachof_match.match(line)
        eaches = Oxford().break_role_list(self, eaches_line["each_of"])
        return eaches, eaches_line["trailer"]

    def build_role_def(self, line):
        return self.build(self.roledef_match, line)

#-------------------------------------------------------------------------------

class Oxford():
    """
    Based on https://github.com/awslabs/j2119/blob/master/lib/j2119/oxford.rb
    We have to recognise lots of lists like so:
    X
    X or X
    X, X, or X
    Examples:
    one of "Foo", "Bar", or "Baz"
    a Token1, a Token2, or a Token3
    """
    def re(self, particle, **kwargs):
        BASIC = r"(?P<CAPTURE>X((((,\s+X)+,)?)?\s+or\s+X)?)"
        has_capture, inter, has_connector, last = BASIC.split("X")

        connector = kwargs.get("connector")
        if connector:
            has_connector = has_connector.replace('or', connector)

        if kwargs.get("use_article"):
            particle = fr"an?\s+({particle})"
        else:
            particle = fr"({particle})"

        capture_name = kwargs.get("capture_name")
        if capture_name:
            has_capture = has_capture.replace('CAPTURE', capture_name)
        else:
            has_capture = has_capture.replace('?<CAPTURE>', '')

        return particle.join([has_capture, inter, has_connector, last])

    def break_string_list(self, list):
        pieces = []
        breaker = re.compile(r"^[^\"]*\"([^\"]*)\"")
        m = breaker.match(list)
        while m:
            pieces.append(m[1])
            list = list[len(m[0]):]
            m = breaker.match(list)
        return pieces

    def break_role_list(self, matcher, list):
        pieces = []
        breaker = re.compile(fr"^an?\s+({matcher.role_matcher})(,\s+)?")
        m = breaker.match(list)
        while m:
            pieces.append(m[1])
            list = list[len(m[0]):]
            m = breaker.match(list)

        breaker = re.compile(fr"^\s*(and|or)\s+an?\s+({matcher.role_matcher})")
        m = breaker.match(list)
        if m:
            pieces.append(m[2])

        return pieces

#-------------------------------------------------------------------------------

class Assigner():
    """
    Based on https://github.com/awslabs/j2119/blob/master/lib/j2119/assigner.rb
    Looks at the parsed form of the J2119 lines and figures out,
    by looking at which part of the regexes match, 
    the assignments of roles to nodes and constraints to roles
    """
    def __init__(self, role_constraints, role_finder, matcher, allowed_fields):
        self.constraints = role_constraints
        self.roles = role_finder
        self.matcher = matcher
        self.allowed_fields = allowed_fields

    def assign_roles(self, assertion):
        role = assertion.get("role")
        val_match_present = assertion.get("val_match_present")
        with_a_field = assertion.get("with_a_field")
        fieldtomatch = assertion.get("fieldtomatch")
        valtomatch = assertion.get("valtomatch")
        newrole = assertion.get("newrole")

        if val_match_present:
            self.roles.add_field_value_role(
                role, fieldtomatch, valtomatch, newrole
            )
            self.matcher.add_role(newrole)
        elif with_a_field:
            self.roles.add_field_presence_role(
                role, with_a_field, newrole
            )
            self.matcher.add_role(newrole)
        else:
            self.roles.add_is_a_role(role, newrole)
            self.matcher.add_role(newrole)

    def assign_only_one_of(self, assertion):
        #print(f"assign_only_one_of: {assertion}")
        role = assertion.get("role")
        field_list_string = assertion.get("field_list", "")
        values = Oxford().break_string_list(field_list_string)
        self.add_constraint(role, OnlyOneOfConstraint(values), None)

    def assign_constraints(self, assertion):
        #print(f"assign_constraints: {assertion}")
        role = assertion.get("role")
        modal = assertion.get("modal")
        type = assertion.get("type")
        field_name = assertion.get("field_name")
        field_list_string = assertion.get("field_list")
        relation = assertion.get("relation")
        target = assertion.get("target")
        strings = assertion.get("strings")
        child_type = assertion.get("child_type")
        vals = assertion.get("vals")
        excluded = assertion.get("excluded")

        condition = None
        if excluded:
            excluded_roles = Oxford().break_role_list(self.matcher, excluded)
            condition = RoleNotPresentCondition(excluded_roles)

        if relation:
            self.add_relation_constraint(role, field_name, relation, target, condition)

        if strings:
            # of the form MUST have a <type> field named <field_name> whose value
            #  MUST be one of "a", "b", or "c"
            fields = Oxford().break_string_list(strings)
            params = {"enum": fields}
            self.add_constraint(role, FieldValueConstraint(field_name, params), condition)

        if type:
            self.add_type_constraints(role, field_name, type, condition)

        if field_list_string:
            field_list = Oxford().break_string_list(field_list_string)

        # register allowed fields
        if field_list_string:
            for field in field_list:
                self.allowed_fields.set_allowed(role, field)
        elif field_name:
            self.allowed_fields.set_allowed(role, field_name)

        if modal == "MUST":
            if field_list_string:
                # Of the form MUST have a <type>? field named one of "a", "b", or "c".
                self.add_constraint(role, HasFieldConstraint(field_list), condition)
            else:
                self.add_constraint(role, HasFieldConstraint(field_name), condition)
        elif modal == "MUST NOT":
            self.add_constraint(role, DoesNotHaveFieldConstraint(field_name), condition)

        # There can be role defs there too
        if child_type:
            self.matcher.add_role(assertion["child_role"])
            if child_type == "value":
                self.roles.add_child_role(role, field_name, assertion["child_role"])
            elif child_type == "element" or child_type == "field":
                self.roles.add_grandchild_role(role, field_name, assertion["child_role"])
        else:
            anyOrObjectOrArray = not type or type == "object" or type == "array"
            # untyped field without a defined child role
            if field_name and anyOrObjectOrArray and modal != "MUST NOT":
                self.roles.add_grandchild_role(role, field_name, field_name)
                self.allowed_fields.set_any(field_name)

    def add_constraint(self, role, constraint, condition):
        if condition:
            constraint.add_condition(condition)
        self.constraints.add(role, constraint)

    def add_relation_constraint(self, role, field, relation, target, condition):
        target = deduce(target)
        operations = {
            "equal to": "equal",
            "greater than": "floor",
            "less than": "ceiling",
            "greater than or equal to": "min",
            "less than or equal to": "max"
        }

        params = {operations[relation]: target}
        self.add_constraint(role, FieldValueConstraint(field, params), condition)

    def add_type_constraints(self, role, field, type, condition):
        is_array = "-array" in type
        is_nullable = "nullable-" in type

        types = [
            'array', 'object', 'string', 'boolean', 'numeric', 'integer',
            'float', 'timestamp', 'JSONPath', 'referencePath', 'URI'
        ]

        value_operations = {
            "positive": "floor",
            "nonnegative": "min",
            "negative": "ceiling"
        }

        for part in type.split("-"):
            if part in types:
                if part == "array" and is_array:
                    return

                self.add_constraint(
                    role,
                    FieldTypeConstraint(field, part, is_array, is_nullable),
                    condition
                )
            if part in value_operations:
                params = {value_operations[part]: 0}
                self.add_constraint(role, FieldValueConstraint(field, params), condition)
            if part == "nonempty":
                self.add_constraint(role, NonEmptyConstraint(field), condition)

