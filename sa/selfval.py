"""E13: self-validation of a property's rules on scratch copies of the CURRENT /repo tree (thorough tier).

* benign twins  - reformat / rename-all-locals / noise / swap-independent-assignments / all-combined variants of the current tree: the rules must report exactly the
                  same finding keys as on the current tree (never more: that would be a false alarm on code where the
                  property holds exactly as much as before; never fewer: that would be a rule keyed on spelling).
* rule-coverage variants - selftest/*/patch.diff: one breaking edit per rule that no seeded change exercises, and the reverse of every
                  fix: commit, written by the author of the checks (tools/gen_selftest.py); same treatment as seeded changes.
* breaking variants - every committed seeded change (seeded/*/patch.diff) that this property's rules are recorded to catch
                  (seeded/MATRIX.json) is applied to a scratch copy; the rules must fire.  A patch that no longer applies
                  to the current tree is skipped and listed.
Scratch copies live under tempfile.mkdtemp() (outside /repo and /verif) and are removed in `finally`.
Results are evidence; a twin that changes the verdict or a breaking variant that is not caught is ANALYSIS-ERROR (exit 2):
the rules cannot be trusted on this tree.  They never create a VIOLATION.
"""
import json
import os
import shutil
import subprocess
import sys
import tempfile
from concurrent.futures import ThreadPoolExecutor

VERIF = os.path.dirname(os.path.dirname(os.path.abspath(__file__)))


def _keys(prop, root):
    """finding keys (rule | key) the property's quick rules report on a tree, via a sub-process of the CLI"""
    env = dict(os.environ, VERIF_NO_EVIDENCE="1", VERIF_DUMP_KEYS="1")
    env.pop("VERIF_TIER", None)
    p = subprocess.run([sys.executable, "-B", os.path.join(VERIF, "sa", "main.py"), prop, "--tier", "quick", "--root", root],
                       cwd=VERIF, stdout=subprocess.PIPE, stderr=subprocess.STDOUT, text=True, env=env)
    keys = set()
    for l in p.stdout.splitlines():
        if l.startswith("KEY\t"):
            keys.add(l[4:])
    return p.returncode, keys, p.stdout


def _copy(src_root):
    tmp = tempfile.mkdtemp(prefix="sv-")
    shutil.copytree(os.path.join(src_root, "asl-workflow-engine"), os.path.join(tmp, "asl-workflow-engine"),
                    ignore=shutil.ignore_patterns("__pycache__", "*.pyc"))
    return tmp


def _twin(prop, src_root, kind):
    from . import variants
    tmp = _copy(src_root)
    try:
        if kind == "combo":
            n = variants.rename_locals(tmp) + variants.swap_independent(tmp) + variants.noise(tmp)
        else:
            n = {"reformat": variants.reformat, "rename": variants.rename_locals, "noise": variants.noise, "swap": variants.swap_independent}[kind](tmp)
        rc, keys, out = _keys(prop, tmp)
        return {"variant": "benign:" + kind, "items": n, "rc": rc, "keys": keys}
    except Exception as e:
        return {"variant": "benign:" + kind, "error": "%s: %s" % (type(e).__name__, e), "rc": 2, "keys": set()}
    finally:
        shutil.rmtree(tmp, ignore_errors=True)


def _strip_rn(k):
    return k.replace("_rn", "")


def _breaking(prop, src_root, mut, base="seeded"):
    d = os.path.join(VERIF, base, mut)
    tmp = _copy(src_root)
    try:
        p = subprocess.run(["git", "apply", os.path.join(d, "patch.diff")], cwd=tmp, stdout=subprocess.PIPE, stderr=subprocess.STDOUT, text=True)
        if p.returncode:
            # written against an earlier reviewed HEAD: try with context fuzz before giving up
            p = subprocess.run("patch -p1 -F3 --no-backup-if-mismatch -s < %s" % os.path.join(d, "patch.diff"), shell=True, cwd=tmp, stdout=subprocess.PIPE, stderr=subprocess.STDOUT, text=True)
        if p.returncode:
            return {"variant": base + ":" + mut, "skipped": "patch does not apply to the current tree"}
        rc, keys, out = _keys(prop, tmp)
        return {"variant": base + ":" + mut, "rc": rc, "keys": keys}
    finally:
        shutil.rmtree(tmp, ignore_errors=True)


def run(chk, src_root, jobs=16):
    prop = chk.prop
    base_keys = {"%s | %s" % (f["rule"], f["key"]) for f in chk.findings}
    try:
        with open(os.path.join(VERIF, "seeded", "MATRIX.json")) as f:
            matrix = json.load(f).get("results", {})
    except Exception:
        matrix = {}
    muts = sorted(m for m, r in matrix.items() if prop in r.get("caught_by", []))
    # rule-coverage variants written by the author of the checks (selftest/): one breaking edit per rule no seeded change exercises,
    # and the reverse of every fix: commit
    try:
        with open(os.path.join(VERIF, "selftest", "INDEX.json")) as f:
            sidx = json.load(f)
    except Exception:
        sidx = {}
    selfs = sorted(k for k, v in sidx.items() if not v.get("problem") and (v.get("property") == prop or prop in v.get("caught_by", [])))
    # behaviour-preserving changes written by independent sub-agents (benign/): those recorded as silent for every property must
    # leave this property's finding keys unchanged (the ones that are not silent are the known false alarms listed in DESIGN.md 8.9)
    try:
        with open(os.path.join(VERIF, "benign", "MATRIX.json")) as f:
            bmx = json.load(f).get("results", {})
    except Exception:
        bmx = {}
    bens = sorted(m for m, r in bmx.items() if m.startswith(prop + "-") and not r.get("violation") and not r.get("analysis_error") and not r.get("error"))
    tasks = [("twin", k) for k in ("reformat", "rename", "noise", "swap", "combo")] + [("mut", m) for m in muts] + [("self", m) for m in selfs] + [("ben", m) for m in bens]
    results = []
    with ThreadPoolExecutor(max_workers=min(jobs, max(1, len(tasks)))) as ex:
        futs = [ex.submit(_twin, prop, src_root, k) if t == "twin" else ex.submit(_breaking, prop, src_root, k, {"mut": "seeded", "self": "selftest", "ben": "benign"}[t]) for t, k in tasks]
        for fu in futs:
            results.append(fu.result())
    problems = []
    summary = []
    for r in results:
        v = r["variant"]
        if "skipped" in r:
            summary.append({"variant": v, "result": "skipped: " + r["skipped"]})
            continue
        if "error" in r:
            problems.append("%s could not be built: %s" % (v, r["error"]))
            continue
        if v.startswith("benign:") and v[7:] in bmx:
            same = {_strip_rn(k) for k in r["keys"]} == base_keys and r["rc"] in (0, 1)
            summary.append({"variant": "independent-" + v, "same_finding_keys": same})
            if not same:
                problems.append("the behaviour-preserving change %s changes the verdict of %s (extra: %s)" % (v, prop, sorted({_strip_rn(k) for k in r["keys"]} - base_keys)[:2]))
        elif v.startswith("benign:"):
            same = {_strip_rn(k) for k in r["keys"]} == base_keys
            summary.append({"variant": v, "items_transformed": r.get("items"), "same_finding_keys": same, "findings": len(r["keys"])})
            if not same:
                extra = sorted({_strip_rn(k) for k in r["keys"]} - base_keys)[:3]
                missing = sorted(base_keys - {_strip_rn(k) for k in r["keys"]})[:3]
                problems.append("%s changes the verdict of %s (extra: %s; missing: %s)" % (v, prop, extra, missing))
        else:
            fired = bool({_strip_rn(k) for k in r["keys"]} - base_keys)
            summary.append({"variant": v, "fired": fired, "new_findings": len(r["keys"] - base_keys)})
            if not fired:
                problems.append("%s applies to the current tree but %s's rules do not fire on it" % (v, prop))
    chk.extra["self_validation"] = {"benign_twins": 5, "independent_behaviour_preserving_changes": len(bens), "breaking_variants": len(muts), "rule_coverage_variants": len(selfs), "results": summary}
    for s in summary[:6]:
        chk.sample({"self_validation": s})
    for pb in problems:
        chk.floor_failures.append("self-validation: " + pb)
    return problems
