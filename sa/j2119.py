"""E9: pure-text reader of statelint/StateMachine.j2119 (no statelint code is run)."""
import re

from .core import AnalysisError, LINT

REL = LINT + "/StateMachine.j2119"


class Schema:
    def __init__(self, repo):
        self.text = repo.text(REL)
        self.lines = [l.strip() for l in self.text.splitlines() if l.strip()]
        self.types = self._one_of(r'^A State MUST have a string field named "Type" whose value MUST be one of (.*)\.$')
        self.operators = self._one_of(r'^A Comparison MUST have a field named one of (.*)\.$')
        if not self.types or not self.operators:
            raise AnalysisError("J2119 schema: Type list or Comparison operator list not found")

    def _one_of(self, pat):
        for l in self.lines:
            m = re.match(pat, l)
            if m:
                return re.findall(r'"([^"]+)"', m.group(1))
        return []

    def field_rules(self, role):
        """[(modal, type-or-None, name, tail)] for lines 'A <role> MUST|MAY have a[n] <type> field named "X"...'"""
        out = []
        for l in self.lines:
            m = re.match(r'^(?:A|An) (.+?) (MUST NOT|MUST|MAY) have an? (?:([A-Za-z-]+) )?field named "([^"]+)"(.*)$', l)
            if m and m.group(1) == role:
                out.append((m.group(2), m.group(3), m.group(4), m.group(5)))
            m = re.match(r'^Each of (.+?) (MUST NOT|MUST|MAY) have an? (?:([A-Za-z-]+) )?field named "([^"]+)"(.*)$', l)
            if m and role in re.findall(r'an? ([A-Z][A-Za-z ]+?)(?:,| and|$)', m.group(1) + ","):
                out.append((m.group(2), m.group(3), m.group(4), m.group(5)))
        return out
