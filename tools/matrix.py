#!/venv/bin/python
"""Run every check against every seeded change (on scratch copies of /repo's working tree) and record who catches what.

usage: tools/matrix.py [--jobs N] [mutant ...]      -> writes seeded/MATRIX.json and prints a table
Scratch copies live under tempfile.mkdtemp() and are removed as soon as a mutant is done.
"""
import json
import os
import shutil
import subprocess
import sys
import tempfile
from concurrent.futures import ProcessPoolExecutor

VERIF = os.path.dirname(os.path.dirname(os.path.abspath(__file__)))
PROPS = ["C%02d" % i for i in range(1, 21)]


def one(mut):
    d = os.path.join(VERIF, "seeded", mut)
    tmp = tempfile.mkdtemp(prefix="mx-")
    res = {"mutant": mut, "caught_by": [], "analysis_error": [], "rules": {}}
    try:
        meta = json.load(open(os.path.join(d, "meta.json")))
        if meta.get("retired"):
            res["retired"] = meta["retired"].get("why", "retired")
    except Exception:
        pass
    try:
        shutil.copytree("/repo/asl-workflow-engine", os.path.join(tmp, "asl-workflow-engine"), ignore=shutil.ignore_patterns("__pycache__", "*.pyc"))
        p = subprocess.run(["git", "apply", os.path.join(d, "patch.diff")], cwd=tmp, stdout=subprocess.PIPE, stderr=subprocess.STDOUT, text=True)
        if p.returncode:
            p2 = subprocess.run("patch -p1 -F3 --no-backup-if-mismatch -s < %s" % os.path.join(d, "patch.diff"), shell=True, cwd=tmp, stdout=subprocess.PIPE, stderr=subprocess.STDOUT, text=True)
            if p2.returncode:
                res["error"] = "patch does not apply: " + p.stdout[-200:]
                return res
        env = dict(os.environ, VERIF_NO_EVIDENCE="1", VERIF_REPO=tmp)
        for prop in PROPS:
            q = subprocess.run([os.path.join(VERIF, "check"), prop, "--root", tmp], cwd=VERIF, stdout=subprocess.PIPE, stderr=subprocess.STDOUT, text=True, env=env, timeout=600)
            if q.returncode == 1:
                res["caught_by"].append(prop)
                rules = sorted({l.strip().split(" ", 1)[0][5:] for l in q.stdout.splitlines() if l.strip().startswith("rule=")})
                cons = [l.strip()[11:] for l in q.stdout.splitlines() if l.strip().startswith("construct:")]
                res["rules"][prop] = {"rules": rules, "constructs": cons[:3]}
            elif q.returncode != 0:
                res["analysis_error"].append(prop)
    finally:
        shutil.rmtree(tmp, ignore_errors=True)
    return res


def main():
    args = sys.argv[1:]
    jobs = 16
    if "--jobs" in args:
        i = args.index("--jobs")
        jobs = int(args[i + 1])
        del args[i:i + 2]
    outname = None
    if "--out" in args:
        i = args.index("--out")
        outname = args[i + 1]
        del args[i:i + 2]
    if "--match" in args:
        i = args.index("--match")
        pat = args[i + 1]
        del args[i:i + 2]
        args = [m for m in sorted(os.listdir(os.path.join(VERIF, "seeded"))) if pat in m]
    muts = args or sorted(os.listdir(os.path.join(VERIF, "seeded")))
    muts = [m for m in muts if os.path.isdir(os.path.join(VERIF, "seeded", m))]
    with ProcessPoolExecutor(jobs) as ex:
        results = list(ex.map(one, muts))
    out = {r["mutant"]: r for r in results}
    path = os.path.join(VERIF, "seeded", outname or "MATRIX.json")
    if outname or not args:
        head = subprocess.run(["git", "-C", "/repo", "rev-parse", "--short", "HEAD"], stdout=subprocess.PIPE, text=True).stdout.strip()
        with open(path, "w") as f:
            json.dump({"repo_head": head, "results": out}, f, indent=1)
    retired = [m for m in muts if out[m].get("retired")]
    for m in retired:
        r = out[m]
        print("%-5s RETIRED (must be silent: %s) %s" % (m, "silent" if not r["caught_by"] and not r["analysis_error"] else "ALARM " + ",".join(r["caught_by"] + r["analysis_error"]), r["retired"][:90]))
    muts = [m for m in muts if m not in retired]
    for m in muts:
        r = out[m]
        own = m[:3]
        mark = "OWN" if own in r["caught_by"] else ("other" if r["caught_by"] else "MISS")
        print("%-5s %-5s caught_by=%s %s %s" % (m, mark, ",".join(r["caught_by"]) or "-", ("err=" + ",".join(r["analysis_error"])) if r["analysis_error"] else "", r.get("error", "")))
    missed = [m for m in muts if not out[m]["caught_by"]]
    notown = [m for m in muts if out[m]["caught_by"] and m[:3] not in out[m]["caught_by"]]
    print("total %d, caught %d, caught by own property %d, missed: %s, not by own: %s" % (len(muts), len(muts) - len(missed), len(muts) - len(missed) - len(notown), missed, notown))


if __name__ == "__main__":
    main()
