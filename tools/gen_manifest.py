#!/venv/bin/python
"""Regenerate MANIFEST.json from the table below (claimed properties = those with a rules module)."""
import json
import os

VERIF = os.path.dirname(os.path.dirname(os.path.abspath(__file__)))

LEVEL_TEXT = {
    "C01": "Decides the pipeline-order, Next/End/Choice-order and status-source clauses on every handler of the current source by def-use templates; does not decide output values for all machines x inputs.",
    "C02": "Decides single-writer / who-may-call / record-shape clauses and 'exactly one continuation on every CFG path of every handler' by a path-sensitive typestate fixpoint; does not decide behaviour under late or reordered events.",
    "C03": "Decides 'no consequence after the ack' and 'every path disposes of the event id' on all CFG paths of all handlers, the shape of the ack primitive, multiple=False at every Message.acknowledge site and the pairing of pending/canceller bookkeeping; does not decide the drain/liveness clauses under arbitrary interleavings.",
    "C09": "Decides single-appender/numbering shape, EXPRESS gating, exhaustiveness of the history event-type table against every type string that can reach it (guard-sensitive enumeration over the call graph), ExecutionStarted/StateEntered placement and 'no history in a Task.Terminated arm'; does not decide timestamps or ordering under schedules.",
    "C14": "Decides operator-table exhaustiveness against the J2119 schema, name-to-semantics agreement of all 27 operator handlers and their typed helpers, the missing-Variable marker/flag discipline, single effective input, fnmatch metacharacter neutralisation and combinator/first-match shape; does not decide truth tables over all values.",
    "C16": "Decides the limit constants, the strict-comparison shape and rejecting arm of all 13 enforcement points, that what is measured is the received/serialised text (not bytes, not a re-serialisation) and the must-pass-through of the state-output size test; given len() semantics the boundary clause is the operator and the constant.",
    "C17": "Decides separator-subset-of-forbidden-class and any-position rejection from the validator's regex AST, the mint and split templates at all 5+3 sites (including region/account provenance), NAME provenance at every mint site and create_arn/parse_arn field-order agreement; does not enumerate strings.",
    "C18": "Decides Type-table agreement schema vs engine, that the validator's early return is silent only for null (kind evaluation over 12 JSON kinds), schema bounds on fan-out loop fields, catch-all coverage of deferred callbacks and of notify's prelude, poison-arm executability, attribute-call guarding in the semantic checker and uniqueness bookkeeping order; does not decide validator/engine agreement on all machines.",
    "C01": "Decides, for every state handler, that the data argument of each path/template stage is def-use-derived from the stage the States Language puts before it (with the spec defaults), the Next/End/Choice/Fail shape, the retry/catch scan that defines 'unhandled error', and lists where success/failure is decided from payload content; does not decide output values for all machines x inputs.",
    "C04": "Reads 'crash at any instant' as an invariant at every CFG node: broker-owned before the ack, all consequences issued after it (typestate on all handler paths), reply acked after its callback, redelivery guard exactly `not redelivered` on every send/publish/Scheduled entry and not on registrations, correlation id = event id = stamped message id, durable queues/messages, deadline anchors in the context, lazy join state; does not decide equality of outcomes with and without the crash.",
    "C05": "Decides index-only writes of join results (so arrival order cannot reach the result), the completeness guard, agreement of all pending-slot predicates on the marker set, the MaxConcurrency slice/batch/Range arithmetic and that the batch start is re-read from the event's own context, and fan-out identity; does not decide interleavings or in-flight counts.",
    "C06": "Decides the unrecoverable error set, sibling agreement of the three reply paths on the termination gate and on 'no history for Task.Terminated', dominance of the termination gate over handler dispatch and history in notify, the cancellation bookkeeping of check_pending_results/cancel_task (key agreement, delete-before-callback, unconditional pending mark); does not decide behaviour under arrival orders.",
    "C07": "Decides first-match-decides (unconditional break) for retriers and catchers, predicate agreement, back-off formula/defaults/strict attempt test/ms units, catch transfer shape, counter-leak prevention in change_state and the fan-out delegates, and the unrecoverable set; does not decide sequences of task outcomes.",
    "C08": "Decides full-width reads of the fixed-layout RFC 3339 offset (index sets), decimal parsing of fractional seconds, no handler-manufactured delays, provenance/units/clamping/selection of Wait and Task delays and identity-based execution-timeout arm, timer pairing on every completion path, and the ExecutionTimeout mapping; does not decide instants on a clock.",
    "C10": "Decides 'no InternalError' by propagating every JSON kind of every request value to every kind-sensitive sink in all 24 handlers (plus unbound names), 'rejected requests leave the store untouched' by a clean/dirty typestate with path facts, front-end agreement action by action, error typing of every lookup/validator, and the update/create/delete/list discipline; does not decide equality with a reference model over call sequences.",
    "C11": "Decides one-source-of-truth def-use identities in end/start execution and the history writer, notification subject/shape, the save-convert-restore pairing of the dates on every normal path, and that both front ends read the engine's own stores directly; does not decide agreement at every moment across threads/instances/Redis.",
    "C12": "Decides purity of all read functions by an effect analysis with alias closure, defaults/failure behaviour including a kind evaluation of the constant-returning guard, may-alias of the placed result with the raw input (return-identity summaries), fresh intermediate nodes, tokeniser class vs bracket quoting, and exception discipline of placement; does not decide the algebraic laws over all documents.",
    "C13": "Decides prefix-guarding of all six dynamic dispatch sites, exception discipline of every may-raise sink in the 19 intrinsics and the tokeniser, hash-seed independence, literal-only str.format, escaping of data-built regexes, the nested-call alternative of the tokeniser (regex AST) and validator/engine agreement on intrinsic names; does not decide values of intrinsics on all arguments.",
    "C15": "Decides resource-table agreement, dominance of the three refusals over the child launch, correlation identity of sync children, the task-token codec and header agreement end to end, delete-before-callback on all completion paths, constant-folded field renaming over the record's key set, unconditional cancel cascade, and records that SendTask* accepts tokens on format alone; does not decide two-execution interleavings.",
    "C19": "Decides which publish sites use the shared queue, queue-name construction, the folded consumer address strings for both queue types (parsed as name; JSON) and their agreement across start/start_asyncio, that every option key used is honoured unconditionally down to queue_declare/basic_consume, the identity field mapping in both directions in both bindings, the expiration clamp, absence of shared mutable Message state, the ack mapping and the RPC request fields; does not decide delivery affinity or wire frames.",
    "C20": "Decides interface agreement of the four store kinds, Redis key-prefix agreement and namespace disjointness, TTL pairing at every record creation, cache bound and who-may-create cache entries (read path only), unconditional write-through and load-failure handling of the JSON store, and the lockset of the cache; does not decide dictionary conformance over histories or behaviour against a real Redis.",
}
TECHNIQUE = {
    "C01": "def-use stage templates over all state handlers with flow-sensitive reaching definitions; Next/End arm shapes; payload-taint listing",
    "C04": "path-sensitive typestate over handler CFGs + control-dependence of send/publish on the redelivery flag + def-use of correlation ids + constant-folded durability options",
    "C05": "AST/def-use templates of fan-out and join, dominance of the completeness test, sibling agreement of pending predicates, reaching definitions of the batch start",
    "C06": "sibling differ over the three reply paths, CFG dominance of the termination gate, key-agreement and dominance checks on cancellation bookkeeping, typestate contract of the gate",
    "C07": "structural analysis of the two scan loops (break placement, predicate agreement), AST normal form of the back-off expression, dominance of counter deletion over publish",
    "C08": "index-set computation on constant slices, reaching-definition templates of the delay computation, dominance of timer clearing over callbacks",
    "C10": "JSON-kind lattice abstract interpretation of every request value, symtable unbound-name pass, clean/dirty typestate with branch facts, sibling differ of the two front ends",
    "C11": "def-use identity checks, literal shape checks, CFG must-pass-through for save/convert/restore, who-reads-what over the front ends",
    "C12": "effect analysis with alias closure, kind evaluation of guards, may-alias via return-identity summaries, regex AST, raise/handler discipline",
    "C13": "reaching-definition check of dispatch keys, may-raise sink coverage, set-iteration-order rule, regex AST of the tokeniser, table agreement with statelint",
    "C15": "table agreement, CFG dominance, def-use of correlation keys, codec reader/writer agreement, constant folding of the key renaming over the record key set",
    "C19": "who-publishes-where over resolved call sites, constant folding + JSON parsing of address strings, kwarg-mapping templates in both bindings, sibling agreement",
    "C20": "class/method table agreement, key-construction templates, CFG must-pass-through (TTL, write-through, eviction), who-may-call on the cache writer, lockset",
    "C09": "who-may-append + dominance on CFG + guard-sensitive string-set enumeration of event types over the call graph vs the log_dict table",
    "C14": "schema-text table vs resolved prefix-dispatch handlers; AST templates per operator family; reaching-definition checks on the marker and parsed instants",
    "C16": "constant folding + enumeration of every comparison against a limit constant, def-use of the measured operand, dominance of the size test over publish",
    "C17": "regex AST (re._parser) of the name validator + AST templates and def-use at every ARN mint/split site",
    "C18": "J2119 text tables vs engine handlers; three-valued kind evaluation of validator guards; typestate exception edges; may-raise sink coverage; guard analysis of attribute calls",
    "C01": "AST def-use templates over the state handlers (stage order, raw-input argument, defaults)",
    "C02": "who-may-write/who-may-call over the resolved call graph + path-sensitive typestate fixpoint on per-function CFGs with verified callee contracts",
    "C03": "path-sensitive typestate (ack/consequence ordering, id disposal) on CFGs + dominance checks on the ack primitive and completion paths",
}

# clauses added after the third blind round (sa/rules/round3.py); appended to the level text
ROUND3 = {
    "C01": " Also (shared): aliasing of a selected value with the raw input, typed Choice helpers, Task.Terminated conversion only for the Task's own branch.",
    "C02": " Also: functions handed the execution record never write it; the terminated range is the launched batch window.",
    "C03": " Also: a retained reply is acknowledged only by its expiry handler (or when replaced); dispatch's drop arms acknowledge the delivery itself; the id-table acknowledge is lookup/ack-one/delete inside a catch-all.",
    "C04": " Also: the orphan sweep re-arms on every path; JSONStore writes through on every path.",
    "C05": " Also: terminated range = launched batch window; a __TERMINATED__ write is guarded by its own group's terminated flag; correlation keys unique per event.",
    "C07": " Also (shared): a late sibling failure after the state was caught is converted to Task.Terminated.",
    "C08": " Also: both transports pass the delay through unchanged except the clamp at 0; a request's timer is cleared only where the request is removed.",
    "C09": " Also: start_execution re-creates record and history under the STANDARD test only, before ExecutionStarted.",
    "C10": " Also: record/history re-creation unconditional for STANDARD; the validator's checker is built per validation.",
    "C11": " Also: ListExecutions enumerates the whole store with exactly the ARN and status filters; record re-creation on every start.",
    "C13": " Also (shared): where the templates are evaluated (once per state / per Map item).",
    "C14": " Also (shared): Variable lookup through apply_jsonpath for falsy inputs.",
    "C15": " Also: the error name SendTaskFailure publishes is never falsy.",
    "C16": " Also: the reply size test measures the received body and precedes parsing.",
    "C18": " Also: checker per validation; drop arms acknowledge directly; no hash-requiring use of a document value without a string test; membership/subscript on document values guarded.",
    "C19": " Also: the REST front ends never consult the instance's own queue identity; callbacks go to the token's reply queue unchanged.",
    "C20": " Also: UpdateStateMachine assigns the record back before answering 200.",
}
RV = (" Also (Cnn.RV): every function whose behaviour is the subject of this property is identical to its reviewed version or proved interchangeable with it "
      "(decision-table equivalence against the reviewed copy in sa/reference: same effects in the same order under every assignment of the conditions, same exits, same values read afterwards); "
      "a difference with a witness is reported. Refactorings that are provably behaviour-preserving are normalised away before any rule runs.")
NOTE = ("Trusted base: CPython ast/symtable; broker redelivery; third-party libraries behave as documented; engine-internal calls do not raise "
        "(exception edges come from the may-raise table in sa/flow.py); the decision-table equivalence of sa/dtable.py treats conditions as independent atoms and calls on different receivers as non-interfering. The check reads /repo source only and never imports or runs it. "
        "A green result means the listed structural clauses hold on all paths of the current source, not that the behaviour holds.")


def main():
    props = [json.loads(l) for l in open(os.path.join(VERIF, "properties.jsonl"))]
    checks, na = [], []
    for p in props:
        pid = p["id"]
        if os.path.exists(os.path.join(VERIF, "sa", "rules", pid.lower() + ".py")) and pid in LEVEL_TEXT:
            checks.append({
                "property_id": pid,
                "quick_cmd": "./check %s --tier quick" % pid,
                "thorough_cmd": "./check %s --tier thorough" % pid,
                "evidence_file": "evidence/%s.json" % pid,
                "replay_cmd_template": "./check --replay {path}",
                "engine": "sa",
                "level_claimed": {"category": "other", "text": LEVEL_TEXT[pid] + ROUND3.get(pid, "") + RV, "design_ref": "DESIGN.md section 5, " + pid},
                "level_note": NOTE,
                "technique": "static analysis: " + TECHNIQUE[pid] + "; equivalence-guarded normalisation and reviewed-behaviour comparison by decision tables over the AST",
            })
        else:
            na.append({"property_id": pid, "reason": "check not built yet (build in progress; see DESIGN.md section 5)"})
    m = {
        "version": 1,
        "setup_cmd": "true",
        "hooks": {"guard": "none", "enable": "none (static analysis reads /repo source; no instrumentation, no hook commits)",
                  "baseline_off_cmd": "cd /repo && /venv/bin/python -m pytest -ra -q -p no:cacheprovider --timeout=900 --continue-on-collection-errors",
                  "source_commits": [], "add_only": True},
        "engines": [{"name": "sa", "path": "sa/", "serves_properties": [c["property_id"] for c in checks],
                     "kind_free_text": "repository-specific static analyser (stdlib ast/symtable): loader+resolver, statement CFG with exception edges, path-sensitive typestate engine with callee contracts, constant folder, JSON-kind lattice, decision-table equivalence engine, equivalence-guarded normaliser toward the reviewed reference, regex AST reader, sibling differ"}],
        "checks": checks,
        "notes": "All checks are static (read /repo's current working tree, never import or run it). known_findings.json lists reproduced genuine defects; fix: commits in /repo are listed there with status fixed.",
        "not_applicable": na,
    }
    with open(os.path.join(VERIF, "MANIFEST.json"), "w") as f:
        json.dump(m, f, indent=1)
    print("claimed:", [c["property_id"] for c in checks])


if __name__ == "__main__":
    main()
