#!/venv/bin/python
"""Regenerate MANIFEST.json from the table below (claimed properties = those with a rules module)."""
import json
import os

VERIF = os.path.dirname(os.path.dirname(os.path.abspath(__file__)))

LEVEL_TEXT = {
    "C01": "Decides the pipeline-order, Next/End/Choice-order and status-source clauses on every handler of the current source by def-use templates; does not decide output values for all machines x inputs.",
    "C02": "Decides single-writer / who-may-call / record-shape clauses and 'exactly one continuation on every CFG path of every handler' by a path-sensitive typestate fixpoint; does not decide behaviour under late or reordered events.",
    "C03": "Decides 'no consequence after the ack' and 'every path disposes of the event id' on all CFG paths of all handlers, the shape of the ack primitive, multiple=False at every Message.acknowledge site and the pairing of pending/canceller bookkeeping; does not decide the drain/liveness clauses under arbitrary interleavings.",
    "C09": "Decides single-appender/numbering shape, EXPRESS gating, exhaustiveness of the history event-type table against every type string that can reach it (guard-sensitive enumeration over the call graph), ExecutionStarted/StateEntered placement and 'no history in a Task.Terminated arm'; does not decide timestamps or ordering under schedules.",
    "C14": "Decides operator-table exhaustiveness against the J2119 schema, name-to-semantics agreement of all 27 operator handlers and their typed helpers, the missing-Variable marker/flag discipline, single effective input, fnmatch metacharacter neutralisation and combinator/first-match shape; does not decide truth tables over all values.",
    "C16": "Decides the limit constants, the strict-comparison shape and rejecting arm of all 13 enforcement points, that what is measured is the received/serialised text (not bytes, not a re-serialisation) and the must-pass-through of the state-output size test; given len() semantics the boundary clause is the operator and the constant.",
    "C17": "Decides separator-subset-of-forbidden-class and any-position rejection from the validator's regex AST, the mint and split templates at all 5+3 sites (including region/account provenance), NAME provenance at every mint site and create_arn/parse_arn field-order agreement; does not enumerate strings.",
    "C18": "Decides Type-table agreement schema vs engine, that the validator's early return is silent only for null (kind evaluation over 12 JSON kinds), schema bounds on fan-out loop fields, catch-all coverage of deferred callbacks and of notify's prelude, poison-arm executability, attribute-call guarding in the semantic checker and uniqueness bookkeeping order; does not decide validator/engine agreement on all machines.",
}
TECHNIQUE = {
    "C09": "who-may-append + dominance on CFG + guard-sensitive string-set enumeration of event types over the call graph vs the log_dict table",
    "C14": "schema-text table vs resolved prefix-dispatch handlers; AST templates per operator family; reaching-definition checks on the marker and parsed instants",
    "C16": "constant folding + enumeration of every comparison against a limit constant, def-use of the measured operand, dominance of the size test over publish",
    "C17": "regex AST (re._parser) of the name validator + AST templates and def-use at every ARN mint/split site",
    "C18": "J2119 text tables vs engine handlers; three-valued kind evaluation of validator guards; typestate exception edges; may-raise sink coverage; guard analysis of attribute calls",
    "C01": "AST def-use templates over the state handlers (stage order, raw-input argument, defaults)",
    "C02": "who-may-write/who-may-call over the resolved call graph + path-sensitive typestate fixpoint on per-function CFGs with verified callee contracts",
    "C03": "path-sensitive typestate (ack/consequence ordering, id disposal) on CFGs + dominance checks on the ack primitive and completion paths",
}
NOTE = ("Trusted base: CPython ast/symtable; broker redelivery; third-party libraries behave as documented; engine-internal calls do not raise "
        "(exception edges come from the may-raise table in sa/flow.py). The check reads /repo source only and never imports or runs it. "
        "A green result means the listed structural clauses hold on all paths of the current source, not that the behaviour holds.")


def main():
    props = [json.loads(l) for l in open(os.path.join(VERIF, "properties.jsonl"))]
    checks, na = [], []
    for p in props:
        pid = p["id"]
        if os.path.exists(os.path.join(VERIF, "sa", "rules", pid.lower() + ".py")) and pid in LEVEL_TEXT:
            checks.append({
                "property_id": pid,
                "quick_cmd": "./check %s --tier quick" % pid,
                "thorough_cmd": "./check %s --tier thorough" % pid,
                "evidence_file": "evidence/%s.json" % pid,
                "replay_cmd_template": "./check --replay {path}",
                "engine": "sa",
                "level_claimed": {"category": "other", "text": LEVEL_TEXT[pid], "design_ref": "DESIGN.md section 5, " + pid},
                "level_note": NOTE,
                "technique": "static analysis: " + TECHNIQUE[pid],
            })
        else:
            na.append({"property_id": pid, "reason": "check not built yet (build in progress; see DESIGN.md section 5)"})
    m = {
        "version": 1,
        "setup_cmd": "true",
        "hooks": {"guard": "none", "enable": "none (static analysis reads /repo source; no instrumentation, no hook commits)",
                  "baseline_off_cmd": "cd /repo && /venv/bin/python -m pytest -ra -q -p no:cacheprovider --timeout=900 --continue-on-collection-errors",
                  "source_commits": [], "add_only": True},
        "engines": [{"name": "sa", "path": "sa/", "serves_properties": [c["property_id"] for c in checks],
                     "kind_free_text": "repository-specific static analyser (stdlib ast/symtable): loader+resolver, statement CFG with exception edges, path-sensitive typestate engine with callee contracts, constant folder, JSON-kind lattice, regex AST reader, sibling differ"}],
        "checks": checks,
        "notes": "All checks are static (read /repo's current working tree, never import or run it). known_findings.json lists reproduced genuine defects; fix: commits in /repo are listed there with status fixed.",
        "not_applicable": na,
    }
    with open(os.path.join(VERIF, "MANIFEST.json"), "w") as f:
        json.dump(m, f, indent=1)
    print("claimed:", [c["property_id"] for c in checks])


if __name__ == "__main__":
    main()
