"""Print a python source file with docstrings/bare strings and comments removed, keeping line numbers (reading aid only)."""
import ast, sys, io, tokenize
src=open(sys.argv[1]).read()
tree=ast.parse(src)
drop=set()
for n in ast.walk(tree):
    if isinstance(n,ast.Expr) and isinstance(n.value,ast.Constant) and isinstance(n.value.value,str):
        for l in range(n.lineno,n.end_lineno+1): drop.add(l)
lines=src.splitlines()
lo=int(sys.argv[2]) if len(sys.argv)>2 else 1
hi=int(sys.argv[3]) if len(sys.argv)>3 else len(lines)
for i,l in enumerate(lines,1):
    if i<lo or i>hi or i in drop: continue
    s=l.strip()
    if not s or s.startswith('#'): continue
    print(f"{i}\t{l}")
