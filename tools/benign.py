#!/venv/bin/python
"""Apply a benign transformation to a scratch copy of /repo and run all checks on it.
usage: tools/benign.py reformat|rename|noise [--suite]"""
import os, shutil, subprocess, sys, tempfile
VERIF = os.path.dirname(os.path.dirname(os.path.abspath(__file__)))
sys.path.insert(0, VERIF)
from sa import variants
kind = sys.argv[1]
tmp = tempfile.mkdtemp(prefix="bn-")
try:
    shutil.copytree("/repo/asl-workflow-engine", os.path.join(tmp, "asl-workflow-engine"), ignore=shutil.ignore_patterns("__pycache__", "*.pyc"))
    n = {"reformat": variants.reformat, "rename": variants.rename_locals, "noise": variants.noise, "swap": variants.swap_independent}[kind](tmp)
    print("transformation %s applied (%d items)" % (kind, n))
    if "--suite" in sys.argv:
        p = subprocess.run("/venv/bin/python -m pytest -q -p no:cacheprovider --timeout=900 2>&1 | tail -1", shell=True, cwd=tmp, stdout=subprocess.PIPE, text=True)
        print("suite:", p.stdout.strip())
    bad = 0
    for i in range(1, 21):
        prop = "C%02d" % i
        q = subprocess.run([os.path.join(VERIF, "check"), prop, "--root", tmp], cwd=VERIF, stdout=subprocess.PIPE, stderr=subprocess.STDOUT, text=True, env=dict(os.environ, VERIF_NO_EVIDENCE="1"))
        if q.returncode != 0:
            bad += 1
            cons = [l.strip()[:170] for l in q.stdout.splitlines() if l.strip().startswith(("construct:", "ANALYSIS-ERROR"))]
            print(prop, "rc=%d" % q.returncode, "%d reports" % len(cons))
            for c in cons[:int(os.environ.get("SHOW", "4"))]:
                print("    ", c)
    print("properties raising an alarm on the benign variant: %d/20" % bad)
finally:
    shutil.rmtree(tmp, ignore_errors=True)
