#!/venv/bin/python
"""Run every check against every independently written behaviour-preserving change (benign/<id>/patch.diff) on scratch copies
of /repo's working tree.  Every check must stay silent (exit 0): a VIOLATION or an ANALYSIS-ERROR here is a false alarm.
usage: tools/benign_matrix.py [--jobs N] [--match s] [id ...]   -> writes benign/MATRIX.json"""
import json, os, shutil, subprocess, sys, tempfile
from concurrent.futures import ProcessPoolExecutor
VERIF = os.path.dirname(os.path.dirname(os.path.abspath(__file__)))
PROPS = ["C%02d" % i for i in range(1, 21)]


def one(mut):
    d = os.path.join(VERIF, "benign", mut)
    tmp = tempfile.mkdtemp(prefix="bx-")
    res = {"id": mut, "violation": {}, "analysis_error": {}}
    try:
        shutil.copytree("/repo/asl-workflow-engine", os.path.join(tmp, "asl-workflow-engine"), ignore=shutil.ignore_patterns("__pycache__", "*.pyc"))
        p = subprocess.run(["git", "apply", os.path.join(d, "patch.diff")], cwd=tmp, stdout=subprocess.PIPE, stderr=subprocess.STDOUT, text=True)
        if p.returncode:
            p2 = subprocess.run("patch -p1 -F3 --no-backup-if-mismatch -s < %s" % os.path.join(d, "patch.diff"), shell=True, cwd=tmp, stdout=subprocess.PIPE, stderr=subprocess.STDOUT, text=True)
            if p2.returncode:
                res["error"] = "patch does not apply: " + p.stdout[-200:]
                return res
        env = dict(os.environ, VERIF_NO_EVIDENCE="1", VERIF_REPO=tmp)
        for prop in PROPS:
            q = subprocess.run([os.path.join(VERIF, "check"), prop, "--root", tmp], cwd=VERIF, stdout=subprocess.PIPE, stderr=subprocess.STDOUT, text=True, env=env, timeout=600)
            if q.returncode == 1:
                rules = sorted({l.strip().split(" ", 1)[0][5:] for l in q.stdout.splitlines() if l.strip().startswith("rule=")})
                cons = [l.strip()[11:] for l in q.stdout.splitlines() if l.strip().startswith("construct:")]
                res["violation"][prop] = {"rules": rules, "constructs": cons[:3]}
            elif q.returncode != 0:
                res["analysis_error"][prop] = [l[:300] for l in q.stdout.splitlines() if "ANALYSIS-ERROR" in l][:3]
    finally:
        shutil.rmtree(tmp, ignore_errors=True)
    return res


def main():
    args = sys.argv[1:]
    jobs = 16
    if "--jobs" in args:
        i = args.index("--jobs"); jobs = int(args[i + 1]); del args[i:i + 2]
    full = not args
    if "--match" in args:
        i = args.index("--match"); pat = args[i + 1]; del args[i:i + 2]
        args = [m for m in sorted(os.listdir(os.path.join(VERIF, "benign"))) if pat in m]
    muts = args or sorted(os.listdir(os.path.join(VERIF, "benign")))
    muts = [m for m in muts if os.path.isdir(os.path.join(VERIF, "benign", m))]
    with ProcessPoolExecutor(jobs) as ex:
        results = list(ex.map(one, muts))
    out = {r["id"]: r for r in results}
    if full:
        head = subprocess.run(["git", "-C", "/repo", "rev-parse", "--short", "HEAD"], stdout=subprocess.PIPE, text=True).stdout.strip()
        json.dump({"repo_head": head, "results": out}, open(os.path.join(VERIF, "benign", "MATRIX.json"), "w"), indent=1)
    alarms = 0
    for m in muts:
        r = out[m]
        if r.get("error"):
            print("%-10s ERROR %s" % (m, r["error"])); continue
        if r["violation"] or r["analysis_error"]:
            alarms += 1
            print("%-10s ALARM violation=%s analysis_error=%s" % (m, {p: v["rules"] for p, v in r["violation"].items()}, sorted(r["analysis_error"])))
            for p, v in r["violation"].items():
                for c in v["constructs"][:2]:
                    print("             %s: %s" % (p, c[:200]))
            for p, v in list(r["analysis_error"].items())[:2]:
                print("             %s: %s" % (p, (v or [""])[0][:240]))
        else:
            print("%-10s silent" % m)
    print("total %d, silent %d, false alarms %d" % (len(muts), len(muts) - alarms, alarms))


if __name__ == "__main__":
    main()
