#!/venv/bin/python
"""Regenerate sa/canon_table.json (fingerprint -> reference local name, per function) from the reference tree.
Run it after a legitimate change to /repo (e.g. a fix: commit) has been reviewed; the table is committed."""
import ast, json, os, sys
VERIF = os.path.dirname(os.path.dirname(os.path.abspath(__file__)))
sys.path.insert(0, VERIF)
from sa import canon
from sa.core import PKG, LINT
root = sys.argv[1] if len(sys.argv) > 1 else "/repo"
trees = {}
for d in (PKG, LINT):
    for fn in sorted(os.listdir(os.path.join(root, d))):
        if fn.endswith(".py"):
            trees[fn[:-3]] = ast.parse(open(os.path.join(root, d, fn)).read())
table = canon.make_table(trees)
json.dump(table, open(os.path.join(VERIF, "sa", "canon_table.json"), "w"), indent=0, sort_keys=True)
# reference copy of the reviewed modules (sa/normalise.py proves edited statements interchangeable with these before the rules run)
import shutil
for d in (PKG, LINT):
    dst = os.path.join(VERIF, "sa", "reference", d)
    os.makedirs(dst, exist_ok=True)
    for fn in sorted(os.listdir(dst)):
        if fn.endswith(".py"):
            os.unlink(os.path.join(dst, fn))
    for fn in sorted(os.listdir(os.path.join(root, d))):
        if fn.endswith(".py"):
            shutil.copy(os.path.join(root, d, fn), os.path.join(dst, fn))
shutil.copy(os.path.join(root, LINT, "StateMachine.j2119"), os.path.join(VERIF, "sa", "reference", LINT, "StateMachine.j2119"))
print("functions:", sum(len(v) for v in table.values()), "locals:", sum(len(x) for v in table.values() for x in v.values()))
