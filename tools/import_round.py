#!/venv/bin/python
"""Import sub-agent deliverables (<src>/Cnn/{A,B,C}/{patch.diff,demo.py,meta.json}) into seeded/Cnn-<tag>X after confirming each."""
import json, os, shutil, subprocess, sys
from concurrent.futures import ThreadPoolExecutor
VERIF = os.path.dirname(os.path.dirname(os.path.abspath(__file__)))
src, tag = sys.argv[1], sys.argv[2]
head = subprocess.run(["git", "-C", "/repo", "rev-parse", "--short", "HEAD"], stdout=subprocess.PIPE, text=True).stdout.strip()
jobs = []
for c in sorted(os.listdir(src)):
    for x in "ABC":
        d = os.path.join(src, c, x)
        if all(os.path.exists(os.path.join(d, f)) for f in ("patch.diff", "demo.py", "meta.json")):
            jobs.append((c, x, d))
def one(j):
    c, x, d = j
    name = "%s-%s%s" % (c, tag, x)
    dst = os.path.join(VERIF, "seeded", name)
    if os.path.exists(os.path.join(dst, "meta.json")):
        return name, "already imported"
    p = subprocess.run([os.path.join(VERIF, "tools", "mutant.py"), "confirm", d], stdout=subprocess.PIPE, stderr=subprocess.DEVNULL, text=True)
    try:
        conf = json.loads(p.stdout[p.stdout.index("{"):])
    except Exception:
        conf = {"error": p.stdout[-300:]}
    if not conf.get("confirmed"):
        return name, "NOT confirmed: %s" % {k: conf.get(k) for k in ("apply_rc", "suite", "demo_clean_rc", "demo_mutant_rc", "error")}
    os.makedirs(dst, exist_ok=True)
    shutil.copy(os.path.join(d, "patch.diff"), dst)
    shutil.copy(os.path.join(d, "demo.py"), dst)
    try:
        am = json.load(open(os.path.join(d, "meta.json")))
    except Exception as e:
        am = {"error": str(e)}
    meta = {"id": name, "property": c, "round": tag, "breaks": am.get("breaks"), "summary": am.get("summary"), "needs": am.get("needs"), "files": am.get("files"),
            "origin": "written by an independent sub-agent that saw only the property text and a scratch worktree of /repo (nothing from /verif); written after all twenty checks existed, without knowledge of them",
            "confirmed_by_me": {"against_repo_head": head, "how": "tools/mutant.py confirm: scratch worktree of /repo HEAD; demo on clean tree exit 0; git apply patch; baseline suite; demo with patch exit != 0; worktree removed",
                                "suite_with_patch": conf.get("suite"), "demo_clean_rc": conf.get("demo_clean_rc"), "demo_mutant_rc": conf.get("demo_mutant_rc"), "confirmed": True},
            "agent_ran": am.get("ran")}
    json.dump(meta, open(os.path.join(dst, "meta.json"), "w"), indent=1)
    return name, "ok"
with ThreadPoolExecutor(8) as ex:
    for name, r in ex.map(one, jobs):
        if r != "ok":
            print(name, r)
print("imported dirs:", len([d for d in os.listdir(os.path.join(VERIF, "seeded")) if "-%s" % tag in d]))
