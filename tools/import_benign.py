#!/venv/bin/python
"""Import behaviour-preserving changes written by independent sub-agents (<src>/Cnn/{A..E}/{patch.diff,equiv.py,meta.json})
into benign/Cnn-<tag>X after confirming each: patch applies to /repo HEAD, the suite stays at 66 passed / 3 failed, and
equiv.py prints the identical transcript digest on the clean tree and with the change."""
import hashlib, json, os, re, shutil, subprocess, sys, tempfile
from concurrent.futures import ThreadPoolExecutor
VERIF = os.path.dirname(os.path.dirname(os.path.abspath(__file__)))
src, tag = sys.argv[1], sys.argv[2]


def sh(cmd, cwd=None, timeout=1800):
    p = subprocess.run(cmd, shell=True, cwd=cwd, stdout=subprocess.PIPE, stderr=subprocess.STDOUT, text=True, timeout=timeout)
    return p.returncode, p.stdout


def confirm(d):
    wt = tempfile.mkdtemp(prefix="benwt-")
    os.rmdir(wt)
    out = {}
    try:
        rc, o = sh("git -C /repo worktree add -q --detach %s HEAD" % wt)
        if rc:
            return {"error": o}
        py = os.path.join(wt, "asl-workflow-engine/py")
        rc0, o0 = sh("/venv/bin/python %s" % os.path.join(d, "equiv.py"), cwd=py, timeout=900)
        out["equiv_clean_rc"] = rc0
        out["equiv_clean_sha"] = hashlib.sha256(o0.encode()).hexdigest()[:16]
        rc, o = sh("git apply %s" % os.path.join(d, "patch.diff"), cwd=wt)
        out["apply_rc"] = rc
        if rc:
            out["apply_out"] = o[-300:]
            return out
        rc, o = sh("/venv/bin/python -m pytest -q -p no:cacheprovider --timeout=900 2>&1 | tail -3", cwd=wt)
        m = re.search(r"(\d+) failed, (\d+) passed", o)
        out["suite"] = m.group(0) if m else o[-200:]
        rc1, o1 = sh("/venv/bin/python %s" % os.path.join(d, "equiv.py"), cwd=py, timeout=900)
        out["equiv_patched_rc"] = rc1
        out["equiv_patched_sha"] = hashlib.sha256(o1.encode()).hexdigest()[:16]
        out["confirmed"] = rc0 == 0 and rc1 == 0 and out["equiv_clean_sha"] == out["equiv_patched_sha"] and out["suite"] == "3 failed, 66 passed"
    finally:
        sh("git -C /repo worktree remove --force %s" % wt)
        sh("rm -rf %s" % wt)
    return out


def one(j):
    c, x, d = j
    name = "%s-%s%s" % (c, tag, x)
    dst = os.path.join(VERIF, "benign", name)
    if os.path.exists(os.path.join(dst, "meta.json")):
        return name, "already imported"
    conf = confirm(d)
    if not conf.get("confirmed"):
        return name, "NOT confirmed: %s" % conf
    os.makedirs(dst, exist_ok=True)
    for f in ("patch.diff", "equiv.py"):
        shutil.copy(os.path.join(d, f), dst)
    try:
        am = json.load(open(os.path.join(d, "meta.json")))
    except Exception as e:
        am = {"error": str(e)}
    head = subprocess.run(["git", "-C", "/repo", "rev-parse", "--short", "HEAD"], stdout=subprocess.PIPE, text=True).stdout.strip()
    meta = {"id": name, "property": c, "round": tag, "kind": am.get("kind"), "summary": am.get("summary"), "why_equivalent": am.get("why_equivalent"),
            "files": am.get("files"), "functions": am.get("functions"),
            "origin": "behaviour-preserving change written by an independent sub-agent that saw only the property text and a scratch worktree of /repo (nothing from /verif)",
            "confirmed_by_me": dict(conf, against_repo_head=head, how="tools/import_benign.py: scratch worktree of /repo HEAD; equiv.py on clean tree; git apply; baseline suite; equiv.py with the change; identical output digest; worktree removed"),
            "agent_ran": am.get("ran")}
    json.dump(meta, open(os.path.join(dst, "meta.json"), "w"), indent=1)
    return name, "ok"


jobs = []
for c in sorted(os.listdir(src)):
    for x in "ABCDE":
        d = os.path.join(src, c, x)
        if all(os.path.exists(os.path.join(d, f)) for f in ("patch.diff", "equiv.py", "meta.json")):
            jobs.append((c, x, d))
with ThreadPoolExecutor(6) as ex:
    for name, r in ex.map(one, jobs):
        if r != "ok" and r != "already imported":
            print(name, r)
print("benign dirs:", len(os.listdir(os.path.join(VERIF, "benign"))) if os.path.isdir(os.path.join(VERIF, "benign")) else 0)
