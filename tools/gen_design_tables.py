#!/venv/bin/python
"""Fill the generated tables of DESIGN.md (between <!-- NAME --> and <!-- /NAME --> markers) from known_findings.json and seeded/*."""
import json
import os
import re

VERIF = os.path.dirname(os.path.dirname(os.path.abspath(__file__)))


def findings_table():
    k = json.load(open(os.path.join(VERIF, "known_findings.json")))["findings"]
    rows = ["| id | status | properties | rule | what (commit for fixed) |", "|----|--------|------------|------|--------------------------|"]
    fam = {}
    for f in k:
        fid = f["id"]
        if fid.startswith("D9/"):
            fam.setdefault("D9", []).append(f)
            continue
        props = ",".join(f.get("properties") or [f.get("property", "")])
        what = f["what"].replace("|", "\\|")
        if len(what) > 230:
            what = what[:227] + "..."
        rows.append("| %s | %s | %s | %s | %s |" % (fid, f["status"] + ((" " + f.get("commit", "")) if f["status"] == "fixed" else ""), props, f.get("rule") or "- (no static rule)", what))
    if fam.get("D9"):
        rows.append("| D9/* (%d keys) | open | C10,C16 | C10.R1 | untyped request parameters reach kind-sensitive operations (len, `in {set}`, .get, json.loads, subscript store) in both front ends: 500 InternalError instead of a typed validation error; one root cause, one key per handler x sink |" % len(fam["D9"]))
    return "\n".join(rows)


def matrix_table():
    out = []
    for rnd, fn in (("round 1", "MATRIX.json"), ("round 2 (as first measured)", "MATRIX-round2-first.json"), ("round 2 (after strengthening)", "MATRIX-round2.json"),
                    ("round 3 (as first measured)", "MATRIX-round3-first.json"), ("round 3 (after strengthening)", "MATRIX-round3.json"),
                    ("round 4 (as first measured)", "MATRIX-round4-first.json"), ("round 4 (after strengthening)", "MATRIX-round4.json"),
                    ("round 5 (as first measured)", "MATRIX-round5-first.json"), ("round 5 (with E15 and Cnn.RV)", "MATRIX-round5.json"),
                    ("round 6 (as first measured, E15 and Cnn.RV in place)", "MATRIX-round6-first.json"),
                    ("round 7 (as first measured)", "MATRIX-round7-first.json")):
        p = os.path.join(VERIF, "seeded", fn)
        if not os.path.exists(p):
            continue
        m = json.load(open(p))["results"]
        if rnd.startswith("round 1"):
            m = {k: v for k, v in m.items() if "-r2" not in k and "-r3" not in k and "-r4" not in k and "-r5" not in k and "-r6" not in k and "-r7" not in k}
        if rnd.startswith("round 2"):
            m = {k: v for k, v in m.items() if "-r2" in k}
        if rnd.startswith("round 3"):
            m = {k: v for k, v in m.items() if "-r3" in k}
        if rnd.startswith("round 4"):
            m = {k: v for k, v in m.items() if "-r4" in k}
        if rnd.startswith("round 5"):
            m = {k: v for k, v in m.items() if "-r5" in k}
        if rnd.startswith("round 6"):
            m = {k: v for k, v in m.items() if "-r6" in k}
        if rnd.startswith("round 7"):
            m = {k: v for k, v in m.items() if "-r7" in k}
        if not m:
            continue
        live = {k: v for k, v in m.items() if not v.get("retired")}
        own = sum(1 for k, v in live.items() if k[:3] in v["caught_by"])
        anyc = sum(1 for v in live.values() if v["caught_by"])
        out.append("**%s**: %d changes%s, %d caught by at least one check, %d caught by the check of their own property." % (
            rnd, len(live), (" (+%d retired)" % (len(m) - len(live))) if len(m) != len(live) else "", anyc, own))
        out.append("")
        out.append("| change | what it does (one line) | caught by | rules that fire (own property first) |")
        out.append("|--------|-------------------------|-----------|---------------------------------------|")
        for k in sorted(m):
            v = m[k]
            meta = {}
            try:
                meta = json.load(open(os.path.join(VERIF, "seeded", k, "meta.json")))
            except Exception:
                pass
            summ = (meta.get("summary") or "").replace("|", "\\|").replace("\n", " ")
            if len(summ) > 150:
                summ = summ[:147] + "..."
            rules = []
            for p_ in sorted(v.get("rules", {}), key=lambda x: (x != k[:3], x)):
                rules.append("%s: %s" % (p_, ",".join(v["rules"][p_]["rules"])))
            caught = ",".join(v["caught_by"]) or "**missed**"
            if v.get("retired") and not v["caught_by"]:
                caught = "retired (behaviour-preserving since c1dbff4): silent, as required"
            out.append("| %s | %s | %s | %s |" % (k, summ, caught, "; ".join(rules)[:160]))
        out.append("")
    return "\n".join(out)


def benign_table():
    p = os.path.join(VERIF, "benign", "MATRIX.json")
    if not os.path.exists(p):
        return "(benign/MATRIX.json not generated yet)"
    m = json.load(open(p))["results"]
    rows = []
    n = {"rb1": [0, 0], "rb2": [0, 0]}
    stale = []
    for k in sorted(m):
        v = m[k]
        rd = "rb2" if "rb2" in k else "rb1"
        alarm = bool(v.get("violation") or v.get("analysis_error"))
        if v.get("error"):
            stale.append(k)
            continue
        n[rd][0] += 1
        n[rd][1] += alarm
        if alarm:
            meta = {}
            try:
                meta = json.load(open(os.path.join(VERIF, "benign", k, "meta.json")))
            except Exception:
                pass
            rules = sorted({r for pv in v.get("violation", {}).values() for r in pv["rules"]})
            what = (meta.get("summary") or meta.get("kind") or "").replace("|", "\\|").replace("\n", " ")
            rows.append("| %s | %s | %s | %s |" % (k, what[:150] + ("..." if len(what) > 150 else ""), ",".join(sorted(v.get("violation", {})) + ["(%s: analysis-error)" % x for x in sorted(v.get("analysis_error", {}))]),
                                                 ", ".join(rules)[:120]))
    head = ["**Round 1** (%d changes; the corpus the normal forms of E14 were developed on): %d silent in all twenty checks, %d false alarms. "
            "**Round 2** (%d changes; written after E14/E15/RV existed, first measured blind at 29 silent / 18 alarms, then used to add normal forms): %d silent, %d false alarms." % (
                n["rb1"][0], n["rb1"][0] - n["rb1"][1], n["rb1"][1], n["rb2"][0], n["rb2"][0] - n["rb2"][1], n["rb2"][1]), "",
            "%d of the 145 changes no longer apply to HEAD because a later `fix:` commit rewrote the lines they touch (%s); they were silent or known alarms when last measured (HEAD 72f0a84: 122 silent / 23 alarms of 145) and are not counted above." % (len(stale), ", ".join(stale)), "",
            "| behaviour-preserving change that still raises an alarm | what it does | properties that alarm | rules |", "|---|---|---|---|"]
    return "\n".join(head + rows)


def main():
    p = os.path.join(VERIF, "DESIGN.md")
    s = open(p).read()
    for name, gen in (("FINDINGS-TABLE", findings_table), ("MATRIX-TABLE", matrix_table), ("BENIGN-TABLE", benign_table)):
        body = gen()
        pat = re.compile(r"<!-- %s -->.*?<!-- /%s -->" % (name, name), re.S)
        block = "<!-- %s -->\n%s\n<!-- /%s -->" % (name, body, name)
        if pat.search(s):
            s = pat.sub(lambda m: block, s)
        else:
            s = s.replace("<!-- %s -->" % name, block)
    open(p, "w").write(s)
    print("DESIGN.md tables regenerated")


if __name__ == "__main__":
    main()
