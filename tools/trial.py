#!/venv/bin/python
"""Trial a candidate repair of /repo before it is committed as a fix: commit.

usage: tools/trial.py [patch-file]
Makes a scratch copy of /repo's HEAD (plus the patch, or plus /repo's uncommitted working-tree changes when no patch is
given) outside /repo and /verif, runs the pinned suite there and every scenario demonstration of seeded/*/demo.py on it
(each demo drives the real engine and must exit 0 on a tree where its property holds).  Reports suite result and every
demo that fails.  The copy is removed afterwards.  This is a regression harness for REPAIRS; it is not one of the checks.
"""
import os
import shutil
import subprocess
import sys
import tempfile
from concurrent.futures import ThreadPoolExecutor

VERIF = os.path.dirname(os.path.dirname(os.path.abspath(__file__)))


def sh(cmd, cwd=None, timeout=900):
    try:
        p = subprocess.run(cmd, shell=True, cwd=cwd, stdout=subprocess.PIPE, stderr=subprocess.STDOUT, text=True, timeout=timeout)
        return p.returncode, p.stdout
    except subprocess.TimeoutExpired:
        return 124, "timeout"


def main():
    tmp = tempfile.mkdtemp(prefix="trial-")
    try:
        rc, o = sh("git -C /repo archive HEAD | tar -x -C %s" % tmp)
        if len(sys.argv) > 1:
            rc, o = sh("git apply %s" % os.path.abspath(sys.argv[1]), cwd=tmp)
        else:
            rc, o = sh("git -C /repo diff HEAD > %s/.wt.diff; test -s %s/.wt.diff && git apply %s/.wt.diff || true" % (tmp, tmp, tmp), cwd=tmp)
        if rc:
            print("patch does not apply:", o[-300:])
            return 2
        rc, o = sh("/venv/bin/python -m pytest -q -p no:cacheprovider --timeout=900 2>&1 | tail -1", cwd=tmp)
        print("suite:", o.strip())
        py = os.path.join(tmp, "asl-workflow-engine/py")
        demos = sorted(d for d in os.listdir(os.path.join(VERIF, "seeded")) if os.path.exists(os.path.join(VERIF, "seeded", d, "demo.py")))

        def one(d):
            rc, o = sh("/venv/bin/python %s" % os.path.join(VERIF, "seeded", d, "demo.py"), cwd=py, timeout=600)
            return d, rc, o.strip().splitlines()[-3:]
        bad = 0
        with ThreadPoolExecutor(14) as ex:
            for d, rc, tail in ex.map(one, demos):
                if rc != 0:
                    bad += 1
                    print("DEMO FAILS %s rc=%d %s" % (d, rc, " | ".join(t[:160] for t in tail)))
        print("demos: %d run, %d failing" % (len(demos), bad))
        return 1 if bad else 0
    finally:
        shutil.rmtree(tmp, ignore_errors=True)


if __name__ == "__main__":
    sys.exit(main())
