#!/venv/bin/python
"""Generate /verif/selftest/: one small breaking edit per rule that no seeded change exercises (and the reverse of every
fix: commit), so that every rule is shown to discriminate on the current tree (thorough tier, sa/selfval.py).

These are written by me for rule coverage - they are NOT independent evidence of detection power (that is seeded/).
Each edit is a unique-text replacement on the current /repo source; the tool builds the patch on a scratch copy, checks
that the result still byte-compiles, runs the owning property's quick check on it and records which rules fire.
usage: tools/gen_selftest.py            (regenerates everything; prints edits whose anchor is gone or that are not caught)
"""
import json
import os
import py_compile
import shutil
import subprocess
import sys
import tempfile

VERIF = os.path.dirname(os.path.dirname(os.path.abspath(__file__)))
P = "asl-workflow-engine/py/asl_workflow_engine/"
L = "asl-workflow-engine/py/statelint/"

# (id, property, expected rule, file, old, new, what it breaks)
EDITS = [
    ("C01.R2-next", "C01", "C01.R2", P + "state_engine.py",
     "                if state.get(\"End\"):\n                    handle_terminal_state(state_type, event, id)\n                else:\n                    error_type, error_message = self.change_state(\n                        state_machine, state_type, state.get(\"Next\"), event\n                    )\n                    if error_type:\n                        handle_error(state, error_type, error_message)\n\n                    self.event_dispatcher.acknowledge(id)\n            except IntrinsicFailure as e:\n                handle_error(state, \"States.IntrinsicFailure\", str(e))\n                self.event_dispatcher.acknowledge(id)\n            except ResultPathMatchFailure as e:\n                handle_error(state, \"States.ResultPathMatchFailure\", str(e))\n                self.event_dispatcher.acknowledge(id)\n            except (PathMatchFailure, Exception) as e:\n                handle_error(state, \"States.Runtime\", str(e))\n                self.event_dispatcher.acknowledge(id)\n\n        def asl_state_Task_delegate():",
     "                if state.get(\"End\"):\n                    handle_terminal_state(state_type, event, id)\n                else:\n                    error_type, error_message = self.change_state(\n                        state_machine, state_type, state.get(\"Default\"), event\n                    )\n                    if error_type:\n                        handle_error(state, error_type, error_message)\n\n                    self.event_dispatcher.acknowledge(id)\n            except IntrinsicFailure as e:\n                handle_error(state, \"States.IntrinsicFailure\", str(e))\n                self.event_dispatcher.acknowledge(id)\n            except ResultPathMatchFailure as e:\n                handle_error(state, \"States.ResultPathMatchFailure\", str(e))\n                self.event_dispatcher.acknowledge(id)\n            except (PathMatchFailure, Exception) as e:\n                handle_error(state, \"States.Runtime\", str(e))\n                self.event_dispatcher.acknowledge(id)\n\n        def asl_state_Task_delegate():",
     "Pass follows Default instead of Next"),
    ("C01.R3-newtaint", "C01", "C01.R3", P + "state_engine.py",
     "            parameters = evaluate_payload_template(\n                    input, context, state.get(\"Parameters\")\n                )\n\n                \"\"\"\n                A Pass State MAY have",
     "            parameters = evaluate_payload_template(\n                    input, context, state.get(\"Parameters\")\n                )\n                if isinstance(data, dict) and data.get(\"Error\"):\n                    handle_error(state, data.get(\"Error\"), \"\")\n                    self.event_dispatcher.acknowledge(id)\n                    return\n\n                \"\"\"\n                A Pass State MAY have",
     "a new place decides failure from the payload's Error member"),
    ("C02.R1-restwrite", "C02", "C02.R1", P + "rest_api.py",
     "                if not isinstance(execution , dict):  # May be (non JSON) RedisDict\n                    execution = dict(execution)\n                return jsonify(execution), 200",
     "                if execution.get(\"status\") == \"RUNNING\" and execution.get(\"stopDate\"):\n                    execution[\"status\"] = \"FAILED\"\n                if not isinstance(execution , dict):  # May be (non JSON) RedisDict\n                    execution = dict(execution)\n                return jsonify(execution), 200",
     "the REST front end writes a terminal status into a stored execution record"),
    ("C02.R2-caller", "C02", "C02.R2", P + "state_engine.py",
     "    def heartbeat(self, count):",
     "    def abort_execution(self, state_machine, event):\n        self.end_execution(state_machine, \"\", event)\n\n    def heartbeat(self, count):",
     "a new caller of end_execution outside handle_terminal_state / the backstop"),
    ("C02.R5-noack-cont", "C02", "C02.R5", P + "state_engine.py",
     "            event[\"data\"] = {\n                \"Error\": state.get(\"Error\", \"Unspecified\"),\n                \"Cause\": state.get(\"Cause\", \"Unspecified\"),\n            }\n\n            handle_terminal_state(state_type, event, id)",
     "            event[\"data\"] = {\n                \"Error\": state.get(\"Error\", \"Unspecified\"),\n                \"Cause\": state.get(\"Cause\", \"Unspecified\"),\n            }\n\n            if state.get(\"Cause\"):\n                handle_terminal_state(state_type, event, id)\n            else:\n                self.event_dispatcher.acknowledge(id)",
     "Fail without Cause acknowledges without ending the execution"),
    ("C03.R1b-nodelete", "C03", "C03.R1b", P + "event_dispatcher.py",
     "            message = self.unacknowledged_messages[id]\n            message.acknowledge(multiple=False)\n            del self.unacknowledged_messages[id]\n",
     "            message = self.unacknowledged_messages[id]\n            message.acknowledge(multiple=False)\n",
     "acknowledge(id) no longer forgets the delivery: a repeated acknowledge acknowledges it twice and the table grows without bound"),
    ("C03.R2-noack", "C03", "C03.R2", P + "state_engine.py",
     "            except PathMatchFailure as e:\n                handle_error(state, \"States.Runtime\", str(e))\n                self.event_dispatcher.acknowledge(id)\n\n        def asl_state_Fail():",
     "            except PathMatchFailure as e:\n                handle_error(state, \"States.Runtime\", str(e))\n\n        def asl_state_Fail():",
     "Succeed's error arm never acknowledges"),
    ("C03.R5-hold", "C03", "C03.R5", P + "state_engine.py",
     "            result[index] = data\n            if previous_state_type != \"Parallel\" and previous_state_type != \"Map\":\n                event_ids[index] = id",
     "            result[index] = data\n            if previous_state_type != \"Parallel\" and previous_state_type != \"Map\" and not error:\n                event_ids[index] = id",
     "the join holds the id only for successful branches"),
    ("C04.R5-lazy", "C04", "C04.R5", P + "state_engine.py",
     "            if not execution_arn in self.branch_metadata:\n                timeout = ASL.get(\"TimeoutSeconds\", self.execution_ttl)\n                self.branch_metadata[execution_arn] = BranchMetadata(\n                    context, timeout\n                )",
     "            if redelivered and not execution_arn in self.branch_metadata:\n                timeout = ASL.get(\"TimeoutSeconds\", self.execution_ttl)\n                self.branch_metadata[execution_arn] = BranchMetadata(\n                    context, timeout\n                )",
     "the join re-creates its state only for redelivered events"),
    ("C05.R4-id", "C05", "C05.R4", P + "state_engine.py",
     "                # Unique ID for this instance of this Parallel state\n                parallel_state_id = str(uuid.uuid4())",
     "                # Unique ID for this instance of this Parallel state\n                parallel_state_id = current_state",
     "the fan-out id is the state name, so a retried Parallel mixes results of two attempts"),
    ("C07.R3-rawdata", "C07", "C07.R3", P + "state_engine.py",
     "                            event[\"data\"] = merge_result(\n                                data, context, result, catcher, \"$\"\n                            )",
     "                            event[\"data\"] = merge_result(\n                                data, context, result, catcher\n                            )",
     "the catcher's OutputPath is applied to the Error Output merge"),
    ("C08.R4-cleartimer", "C08", "C08.R4", P + "task_dispatcher.py",
     "            # Cancel the timeout previously set for this request.\n            self.state_engine.event_dispatcher.clear_timeout(timeout_id)\n\n            if not isinstance(execution_detail , dict):",
     "            if not isinstance(execution_detail , dict):",
     "child completion no longer disarms the request's timer"),
    ("C08.R5-map", "C08", "C08.R5", P + "state_engine.py",
     "        if execution_failed and data.get(\"Error\") == \"States.ExecutionTimeout\":\n            data[\"Error\"] = \"States.Timeout\"",
     "        if execution_failed and data.get(\"Error\") == \"States.ExecutionTimeout\":\n            pass",
     "the internal States.ExecutionTimeout name leaks into the record"),
    ("C09.R3-type", "C09", "C09.R3", P + "task_dispatcher.py",
     "                    update_type = \"TaskTimedOut\"\n                    if resource_type == \"function\":\n                        update_type = \"LambdaFunctionTimedOut\"",
     "                    update_type = \"TaskTimedOut\"\n                    if resource_type == \"function\":\n                        update_type = \"LambdaFunctionTimeOut\"",
     "a misspelt history event type is silently dropped"),
    ("C10.R3-diverge", "C10", "C10.R3", P + "rest_api.py",
     "                    return aws_error(\"StateMachineTypeNotSupported\"), 400\n\n                \"\"\"\n                Look up stateMachineArn",
     "                    return aws_error(\"InvalidDefinition\"), 400\n\n                \"\"\"\n                Look up stateMachineArn",
     "the blocking front end answers an unsupported type with a different error code"),
    ("C10.R4-code", "C10", "C10.R4", P + "rest_api_asyncio.py",
     "                        \"RestAPI DescribeExecution: Execution {} does not exist\".format(\n                            execution_arn\n                        )\n                    )\n                    return aws_error(\"ExecutionDoesNotExist\"), 400",
     "                        \"RestAPI DescribeExecution: Execution {} does not exist\".format(\n                            execution_arn\n                        )\n                    )\n                    return aws_error(\"StateMachineDoesNotExist\"), 400",
     "an unknown execution ARN is refused with the state-machine error type"),
    ("C11.R2-subject", "C11", "C11.R2", P + "state_engine.py",
     "            subject = execution_detail[\"stateMachineArn\"] + \".\" + execution_detail[\"status\"]",
     "            subject = execution_detail[\"executionArn\"] + \".\" + execution_detail[\"status\"]",
     "notifications are published to '<executionArn>.<status>'"),
    ("C11.R3-restore", "C11", "C11.R3", P + "state_engine.py",
     "        # Copy the original seconds since epoch timestamps back.\n        execution_detail[\"startDate\"] = saved_startDate\n        execution_detail[\"stopDate\"] = saved_stopDate",
     "        # Copy the original seconds since epoch timestamps back.\n        execution_detail[\"startDate\"] = saved_startDate",
     "stopDate stays in milliseconds in the stored record after a notification"),
    ("C12.R1-mutate", "C12", "C12.R1", P + "state_engine_paths.py",
     "    if len(result) == 1:\n        path_has_slice = re.search(r\"\\[.*:.*\\]\", path)",
     "    if isinstance(input, dict):\n        input.pop(\"__cache__\", None)\n    if len(result) == 1:\n        path_has_slice = re.search(r\"\\[.*:.*\\]\", path)",
     "selecting with a path removes a member of the document it reads"),
    ("C13.R5-format", "C13", "C13.R5", P + "state_engine_paths.py",
     "                return json.dumps(args[0])\n            except Exception as e:",
     "                return \"{}\".format(args[0]).format() if isinstance(args[0], str) else json.dumps(args[0])\n            except Exception as e:",
     "user text used as a format string in JsonToString"),
    ("C13.R8-table", "C13", "C13.R8", L + "statelint.py",
     "ArrayUnique|Base64Encode",
     "ArrayUnique|ArrayFlatten|Base64Encode",
     "the validator accepts an intrinsic the engine does not implement"),
    ("C14.R1-missing", "C14", "C14.R1", P + "state_engine.py",
     "                def asl_choice_IsTimestamp(value):",
     "                def asl_choice_IsRfc3339Timestamp(value):",
     "IsTimestamp has no handler any more (silently never matches)"),
    ("C14.R6-order", "C14", "C14.R6", P + "state_engine.py",
     "            choices = state.get(\"Choices\", [])  # Sets to [] if key not present",
     "            choices = sorted(state.get(\"Choices\", []), key=lambda c: c.get(\"Next\", \"\"))",
     "Choice rules are tried in sorted, not array, order"),
    ("C15.R2-refusal", "C15", "C15.R2", P + "task_dispatcher.py",
     "                if (resource == \"sfn:startSyncExecution\" and\n                    child_state_machine.get(\"type\") != \"EXPRESS\"):",
     "                if (resource == \"sfn:startSyncExecution\" and\n                    child_state_machine.get(\"type\") == \"STANDARD-ONLY\"):",
     "startSyncExecution of a STANDARD child is no longer refused"),
    ("C15.R3-corr", "C15", "C15.R3", P + "task_dispatcher.py",
     "                            \"Id\": child_execution_arn,\n                            \"Input\": parameters.get(\"Input\", {}),",
     "                            \"Id\": child_execution_arn + \"-child\",\n                            \"Input\": parameters.get(\"Input\", {}),",
     "the child's Execution.Id differs from the key its launcher waits under"),
    ("C16.R1-const", "C16", "C16.R1", P + "task_dispatcher.py",
     "MAX_DATA_LENGTH = 262144  # Max length of the input or output JSON string (256*1024).",
     "MAX_DATA_LENGTH = 262143  # Max length of the input or output JSON string (256*1024).",
     "the task-result quota is one character too small"),
    ("C17.R4-split", "C17", "C17.R4", P + "arn.py",
     "    elements = arn.split(\":\", 5)",
     "    elements = arn.split(\":\")",
     "parse_arn splits a resource that itself contains ':'"),
    ("C18.R1-handler", "C18", "C18.R1", P + "state_engine.py",
     "        def asl_state_Succeed():",
     "        def asl_state_Success():",
     "the Succeed Type has no handler"),
    ("C18.R5-guard", "C18", "C18.R5", L + "statelint.py",
     "                if isinstance(child, dict):\n                    child_path = path + \".States.\" + name",
     "                if child is not None:\n                    child_path = path + \".States.\" + name",
     "the validator calls .get on a State that is not an object"),
    ("C19.R2-name", "C19", "C19.R2", P + "task_dispatcher.py",
     "        self.reply_to_queue_name = \"asl_workflow_reply_to\" + suffix + \"-\" + instance_id",
     "        self.reply_to_queue_name = \"asl_workflow_reply_to\" + \"-\" + instance_id + suffix",
     "the reply queue name is built in a different order from the event queues"),
    ("C19.R3-exclusive", "C19", "C19.R3", P + "event_dispatcher.py",
     "                '\"link\": {\"x-subscribe\": {\"exclusive\": true}}}'\n            )\n            instance_event_consumer = self.session.consumer(instance_queue)",
     "                '\"link\": {\"x-subscribe\": {\"exclusive\": false}}}'\n            )\n            instance_event_consumer = self.session.consumer(instance_queue)",
     "the blocking start() subscribes non-exclusively to the instance queue"),
    ("C19.R6-tag", "C19", "C19.R6", P + "amqp_0_9_1_messaging_asyncio.py",
     "            message._delivery_tag = method.delivery_tag",
     "            message._delivery_tag = method.consumer_tag",
     "the asyncio transport acknowledges with the consumer tag"),
    ("C19.R7-replyto", "C19", "C19.R7", P + "task_dispatcher.py",
     "                        reply_to=self.reply_to.name,\n                        correlation_id=correlation_id,",
     "                        reply_to=self.reply_to_queue_name + \"-\",\n                        correlation_id=correlation_id,",
     "RPC requests name a reply queue nobody consumes"),
    ("C20.R2-prefix", "C20", "C20.R2", P + "store.py",
     "    def __contains__(self, key):\n        k = self.key + \":\" + key\n        return bool(self.redis.exists(k))",
     "    def __contains__(self, key):\n        k = self.key + \"/\" + key\n        return bool(self.redis.exists(k))",
     "membership looks under a different Redis key than set/get"),
]


def sh(cmd, cwd=None):
    p = subprocess.run(cmd, shell=True, cwd=cwd, stdout=subprocess.PIPE, stderr=subprocess.STDOUT, text=True)
    return p.returncode, p.stdout


def build(eid, prop, rule, rel, old, new, what, outdir):
    tmp = tempfile.mkdtemp(prefix="st-")
    try:
        shutil.copytree("/repo/asl-workflow-engine", os.path.join(tmp, "a/asl-workflow-engine"), ignore=shutil.ignore_patterns("__pycache__", "*.pyc"))
        shutil.copytree(os.path.join(tmp, "a"), os.path.join(tmp, "b"))
        p = os.path.join(tmp, "b", rel)
        s = open(p).read()
        if s.count(old) != 1:
            return "anchor occurs %d times" % s.count(old)
        open(p, "w").write(s.replace(old, new))
        if p.endswith(".py"):
            try:
                py_compile.compile(p, doraise=True, cfile=os.path.join(tmp, "x.pyc"))
            except Exception as e:
                return "does not compile: %s" % e
        rc, diff = sh("diff -u a/%s b/%s" % (rel, rel), cwd=tmp)
        rc, out = sh("%s %s --root %s" % (os.path.join(VERIF, "check"), prop, os.path.join(tmp, "b")), cwd=VERIF)
        fired = sorted({l.strip().split(" ", 1)[0][5:] for l in out.splitlines() if l.strip().startswith("rule=")})
        d = os.path.join(outdir, eid)
        os.makedirs(d, exist_ok=True)
        open(os.path.join(d, "patch.diff"), "w").write(diff)
        json.dump({"id": eid, "property": prop, "expected_rule": rule, "what": what, "fired_rules": fired, "caught": rc == 1,
                   "origin": "written by the author of the checks, for rule coverage only (not independent evidence)"}, open(os.path.join(d, "meta.json"), "w"), indent=1)
        if rc != 1:
            return "NOT caught (rc=%d)" % rc
        if rule not in fired:
            return "caught, but by %s not %s" % (fired, rule)
        return None
    finally:
        shutil.rmtree(tmp, ignore_errors=True)


def regressions(outdir):
    """reverse of every fix: commit of /repo that still applies to HEAD"""
    rc, log = sh("git -C /repo log --format=%h:%s")
    out = []
    for line in log.splitlines():
        h, _, subj = line.partition(":")
        if not subj.startswith("fix:"):
            continue
        rc, diff = sh("git -C /repo diff %s %s^" % (h, h))
        eid = "regress-" + h
        d = os.path.join(outdir, eid)
        os.makedirs(d, exist_ok=True)
        open(os.path.join(d, "patch.diff"), "w").write(diff)
        out.append((eid, h, subj))
    return out


def main():
    outdir = os.path.join(VERIF, "selftest")
    shutil.rmtree(outdir, ignore_errors=True)
    os.makedirs(outdir)
    index = {}
    from concurrent.futures import ThreadPoolExecutor
    with ThreadPoolExecutor(12) as ex:
        futs = {e[0]: ex.submit(build, *e, outdir) for e in EDITS if True}
        for eid, fu in futs.items():
            r = fu.result()
            e = [x for x in EDITS if x[0] == eid][0]
            if r:
                print("%-20s %s" % (eid, r))
            index[eid] = {"property": e[1], "rule": e[2], "what": e[6], "problem": r}
    def one_regression(item):
        eid, h, subj = item
        tmp = tempfile.mkdtemp(prefix="st-")
        try:
            shutil.copytree("/repo/asl-workflow-engine", os.path.join(tmp, "asl-workflow-engine"), ignore=shutil.ignore_patterns("__pycache__", "*.pyc"))
            rc, o = sh("git apply %s" % os.path.join(outdir, eid, "patch.diff"), cwd=tmp)
            if rc:
                return eid, {"commit": h, "subject": subj, "problem": "does not apply to HEAD any more (a later fix touched the same lines)", "caught_by": []}
            caught = []
            for i in range(1, 21):
                prop = "C%02d" % i
                rc, out = sh("%s %s --root %s" % (os.path.join(VERIF, "check"), prop, tmp), cwd=VERIF)
                if rc == 1:
                    caught.append(prop)
            json.dump({"id": eid, "what": "reverse of " + subj, "caught_by": caught, "origin": "git diff %s %s^" % (h, h)}, open(os.path.join(outdir, eid, "meta.json"), "w"), indent=1)
            return eid, {"commit": h, "subject": subj, "caught_by": caught, "problem": None if caught else "NOT caught"}
        finally:
            shutil.rmtree(tmp, ignore_errors=True)
    with ThreadPoolExecutor(6) as ex:
        for eid, r in ex.map(one_regression, regressions(outdir)):
            index[eid] = r
            if r["problem"]:
                print("%-20s %s" % (eid, r["problem"]))
    json.dump(index, open(os.path.join(outdir, "INDEX.json"), "w"), indent=1)
    ok = sum(1 for v in index.values() if not v.get("problem"))
    print("selftest entries: %d, as expected: %d" % (len(index), ok))


if __name__ == "__main__":
    main()
