#!/venv/bin/python
"""Confirm a seeded change and run the checks against it.

usage: tools/mutant.py confirm <dir>      # dir has patch.diff, demo.py: scratch worktree of /repo HEAD, suite + demo with/without
       tools/mutant.py check <dir> [Cxx ...]   # apply to /repo, run ./check for the properties (default: all), revert
Never leaves /repo modified; scratch worktree is removed.
"""
import json
import os
import re
import subprocess
import sys
import tempfile

VERIF = os.path.dirname(os.path.dirname(os.path.abspath(__file__)))
PROPS = ["C%02d" % i for i in range(1, 21)]


def sh(cmd, cwd=None, timeout=1200, env=None):
    e = dict(os.environ)
    if env:
        e.update(env)
    p = subprocess.run(cmd, shell=True, cwd=cwd, stdout=subprocess.PIPE, stderr=subprocess.STDOUT, text=True, timeout=timeout, env=e)
    return p.returncode, p.stdout


def confirm(d):
    patch = os.path.join(d, "patch.diff")
    demo = os.path.join(d, "demo.py")
    wt = tempfile.mkdtemp(prefix="mutwt-")
    os.rmdir(wt)
    out = {"dir": d}
    try:
        rc, o = sh("git -C /repo worktree add -q --detach %s HEAD" % wt)
        if rc:
            return {"error": o}
        py = os.path.join(wt, "asl-workflow-engine/py")
        rc0, o0 = sh("/venv/bin/python %s" % demo, cwd=py, timeout=600)
        out["demo_clean_rc"] = rc0
        rc, o = sh("git apply --3way %s" % patch, cwd=wt)
        if rc:
            rc, o = sh("git apply %s" % patch, cwd=wt)
        out["apply_rc"] = rc
        if rc:
            out["apply_out"] = o[-400:]
            return out
        rc, o = sh("/venv/bin/python -m pytest -q -p no:cacheprovider --timeout=900 2>&1 | tail -3", cwd=wt)
        m = re.search(r"(\d+) failed, (\d+) passed", o)
        out["suite"] = m.group(0) if m else o[-200:]
        rc1, o1 = sh("/venv/bin/python %s" % demo, cwd=py, timeout=600)
        out["demo_mutant_rc"] = rc1
        out["demo_mutant_tail"] = o1.strip().splitlines()[-3:]
        out["confirmed"] = (rc0 == 0 and rc1 != 0 and out["suite"] == "3 failed, 66 passed")
        if rc0 != 0:
            out["demo_clean_tail"] = o0.strip().splitlines()[-5:]
    finally:
        sh("git -C /repo worktree remove --force %s" % wt)
        sh("rm -rf %s" % wt)
    return out


def check(d, props):
    patch = os.path.join(d, "patch.diff")
    rc, o = sh("git -C /repo status --porcelain --untracked-files=no")
    if o.strip():
        return {"error": "/repo not clean: " + o}
    res = {}
    try:
        rc, o = sh("git -C /repo apply --3way %s" % patch)
        if rc:
            rc, o = sh("git -C /repo apply %s" % patch)
        if rc:
            return {"error": "apply failed: " + o[-300:]}
        for p in props:
            rc, o = sh("./check %s" % p, cwd=VERIF, env={"VERIF_NO_EVIDENCE": "1"})
            v = [l for l in o.splitlines() if l.startswith("VIOLATION") or l.startswith("ANALYSIS-ERROR") or l.strip().startswith("rule=") or l.strip().startswith("construct:")]
            res[p] = {"rc": rc, "lines": v[:9]}
    finally:
        sh("git -C /repo reset -q --hard HEAD")
    return res


if __name__ == "__main__":
    mode, d = sys.argv[1], os.path.abspath(sys.argv[2] if os.path.isdir(sys.argv[2]) else os.path.join(VERIF, "seeded", sys.argv[2]))
    if mode == "confirm":
        print(json.dumps(confirm(d), indent=1))
    else:
        props = sys.argv[3:] or PROPS
        r = check(d, props)
        if "error" in r:
            print(r)
            sys.exit(2)
        caught = [p for p, v in r.items() if v["rc"] == 1]
        broken = [p for p, v in r.items() if v["rc"] not in (0, 1)]
        print("caught by:", caught, " analysis-error:", broken)
        for p in caught + broken:
            for l in r[p]["lines"]:
                print("   ", p, l[:230])
