#!/venv/bin/python
"""Mutation coverage of the *checker*: which statements of /repo can be broken without any check noticing?

For every target module, generic AST-computed point mutations (statement deletion, condition negation, comparison /
boolean / arithmetic operator swap, constant change, default removal) are applied one at a time to a scratch tree
(symlinks to /repo, one file replaced), all twenty property checks are run in-process on it (shared parse and protocol
results), and the verdicts are recorded.  The output is a map  function -> mutation points that NO check notices.
It is a tool for the author (where is no rule looking?), not a check and not evidence: a generic mutation need not break
any property, so 'unnoticed' means 'look here', never 'defect'.

usage: tools/mutcov.py [--modules a,b] [--jobs N] [--limit N] [--out FILE] [--funcs substr,substr]
"""
import ast
import importlib
import io
import json
import os
import shutil
import sys
import tempfile
import time
from concurrent.futures import ProcessPoolExecutor
from contextlib import redirect_stdout

VERIF = os.path.dirname(os.path.dirname(os.path.abspath(__file__)))
sys.path.insert(0, VERIF)
PROPS = ["C%02d" % i for i in range(1, 21)]
PKG = "asl-workflow-engine/py/asl_workflow_engine"
LINT = "asl-workflow-engine/py/statelint"
DEFAULT_MODULES = ["state_engine", "state_engine_paths", "task_dispatcher", "event_dispatcher", "rest_api", "rest_api_asyncio",
                   "store", "amqp_0_9_1_messaging", "amqp_0_9_1_messaging_asyncio", "arn", "asl_exceptions", "statelint"]
CMP = {ast.Lt: "<=", ast.LtE: "<", ast.Gt: ">=", ast.GtE: ">", ast.Eq: "!=", ast.NotEq: "==", ast.In: "not in", ast.NotIn: "in",
       ast.Is: "is not", ast.IsNot: "is"}
LOGGY = ("logger", "logging", "print", "statsd", "span", "scope", "tracer", "opentracing")


def rel_of(mod):
    return (LINT if mod in ("statelint", "j2119") else PKG) + "/" + mod + ".py"


def is_loggy(node):
    try:
        s = ast.unparse(node)
    except Exception:
        return False
    head = s.split("(")[0]
    return any(w in head for w in LOGGY)


def qualnames(tree):
    out = {}

    def walk(node, prefix):
        for c in ast.iter_child_nodes(node):
            if isinstance(c, (ast.FunctionDef, ast.AsyncFunctionDef, ast.ClassDef)):
                q = prefix + c.name
                for n in ast.walk(c):
                    if hasattr(n, "lineno"):
                        out[id(n)] = q
                walk(c, q + ".")
            else:
                walk(c, prefix)
    walk(tree, "")
    return out


def enumerate_mutations(src):
    """-> list of dict(kind, func, line, text, start, end, repl) ; positions are absolute offsets into src"""
    tree = ast.parse(src)
    qn = qualnames(tree)
    lines = src.splitlines(keepends=True)
    starts = [0]
    for l in lines:
        starts.append(starts[-1] + len(l.encode("utf8")))
    bsrc = src.encode("utf8")

    def off(line, col):
        return starts[line - 1] + col

    def span(n):
        return off(n.lineno, n.col_offset), off(n.end_lineno, n.end_col_offset)

    def seg(n):
        a, b = span(n)
        return bsrc[a:b].decode("utf8")

    muts = []

    def add(kind, n, a, b, repl):
        muts.append({"kind": kind, "func": qn.get(id(n), "<module>"), "line": n.lineno, "text": " ".join(seg(n).split())[:100],
                     "start": a, "end": b, "repl": repl})

    for n in ast.walk(tree):
        if id(n) not in qn:
            continue   # module level / class level statements are not mutated
        if isinstance(n, ast.Expr) and isinstance(n.value, ast.Constant):
            continue
        if isinstance(n, (ast.Expr, ast.Assign, ast.AugAssign, ast.Delete)) and not is_loggy(n):
            a, b = span(n)
            add("del-stmt", n, a, b, "pass")
        elif isinstance(n, ast.Return) and n.value is not None and not (isinstance(n.value, ast.Constant) and n.value.value is None):
            a, b = span(n)
            add("return-none", n, a, b, "return None")
        elif isinstance(n, (ast.Break, ast.Continue)):
            a, b = span(n)
            add("del-stmt", n, a, b, "pass")
        elif isinstance(n, ast.Raise):
            a, b = span(n)
            add("del-stmt", n, a, b, "pass")
        if isinstance(n, (ast.If, ast.While, ast.IfExp)) and not (isinstance(n.test, ast.Constant)):
            a, b = span(n.test)
            add("negate-test", n.test, a, b, "(not (%s))" % seg(n.test))
        if isinstance(n, ast.Compare) and len(n.ops) == 1 and type(n.ops[0]) in CMP:
            la, lb = span(n.left)
            ra, rb = span(n.comparators[0])
            add("cmp-op", n, lb, ra, " %s " % CMP[type(n.ops[0])])
        if isinstance(n, ast.BoolOp) and len(n.values) == 2:
            _, lb = span(n.values[0])
            ra, _ = span(n.values[1])
            mid = bsrc[lb:ra].decode("utf8")
            if mid.strip() in ("and", "or"):
                add("bool-op", n, lb, ra, mid.replace("and", "\0").replace("or", "and").replace("\0", "or"))
        if isinstance(n, ast.UnaryOp) and isinstance(n.op, ast.Not):
            a, b = span(n)
            add("drop-not", n, a, b, "(%s)" % seg(n.operand))
        if isinstance(n, ast.BinOp) and type(n.op) in (ast.Add, ast.Sub, ast.Mult, ast.Div) and not isinstance(n.left, ast.Constant) or \
                (isinstance(n, ast.BinOp) and type(n.op) in (ast.Sub, ast.Mult, ast.Div)):
            if not (isinstance(n.left, ast.Constant) and isinstance(n.left.value, str)) and not is_loggy(n):
                _, lb = span(n.left)
                ra, _ = span(n.right)
                mid = bsrc[lb:ra].decode("utf8")
                sw = {"+": "-", "-": "+", "*": "/", "/": "*"}
                if mid.strip() in sw and not isinstance(n.right, ast.Constant) or (mid.strip() in sw and isinstance(n.right, ast.Constant) and not isinstance(n.right.value, str)):
                    add("arith-op", n, lb, ra, " %s " % sw[mid.strip()])
        if isinstance(n, ast.Constant) and not isinstance(n.value, (str, bytes)) and n.value is not None and n.value is not Ellipsis:
            a, b = span(n)
            if isinstance(n.value, bool):
                add("const", n, a, b, "False" if n.value else "True")
            elif isinstance(n.value, (int, float)):
                add("const", n, a, b, repr(n.value + 1))
        if isinstance(n, ast.Call) and isinstance(n.func, ast.Attribute) and n.func.attr == "get" and len(n.args) == 2 and not n.keywords:
            _, kb = span(n.args[0])
            _, db = span(n.args[1])
            add("drop-default", n, kb, db, "")
        if isinstance(n, ast.Call) and n.keywords and not is_loggy(n):
            for kw in n.keywords:
                if kw.arg and isinstance(kw.value, ast.Constant) and isinstance(kw.value.value, bool):
                    a, b = span(kw.value)
                    add("kw-bool", kw.value, a, b, "False" if kw.value.value else "True")
    # de-duplicate by span+repl
    seen, out = set(), []
    for m in muts:
        k = (m["start"], m["end"], m["repl"])
        if k in seen:
            continue
        seen.add(k)
        new = bsrc[:m["start"]] + m["repl"].encode("utf8") + bsrc[m["end"]:]
        try:
            ast.parse(new.decode("utf8"))
        except SyntaxError:
            continue
        out.append(m)
    return out


def make_root(mod, new_bytes):
    tmp = tempfile.mkdtemp(prefix="mc-")
    for d in (PKG, LINT):
        os.makedirs(os.path.join(tmp, d))
        for fn in os.listdir(os.path.join("/repo", d)):
            s = os.path.join("/repo", d, fn)
            if os.path.isfile(s):
                os.symlink(s, os.path.join(tmp, d, fn))
    p = os.path.join(tmp, rel_of(mod))
    os.unlink(p)
    with open(p, "wb") as f:
        f.write(new_bytes)
    return tmp


def evaluate(root):
    """run all twenty property rule sets in-process on `root`; -> {prop: (rc, [rule | key])}"""
    from sa.core import Repo, AnalysisError
    from sa.context import Context
    from sa.report import Check, _load_known
    known = [k for k in _load_known() if k.get("status") == "open"]
    res = {}
    buf = io.StringIO()
    with redirect_stdout(buf):
        try:
            repo = Repo(root)
            ctx = Context(repo, "quick")
        except Exception as e:
            return {p: (2, ["load: %r" % e]) for p in PROPS}
        for prop in PROPS:
            try:
                chk = Check(prop, "quick", repo)
                mod = importlib.import_module("sa.rules." + prop.lower())
                mod.run(chk, ctx)
                if os.environ.get("MUTCOV_NO_REVIEWED") != "1":
                    from sa.rules import reviewed
                    reviewed.run(chk, ctx, prop)
                viol = []
                for f in chk.findings:
                    hit = any(k.get("rule") == f["rule"] and " ".join(k.get("key", "").split()) == f["key"] and
                              (prop == k.get("property") or prop in k.get("properties", [])) for k in known)
                    if not hit:
                        viol.append("%s | %s" % (f["rule"], f["key"][:140]))
                if viol:
                    res[prop] = (1, viol[:4])
                elif chk.floor_failures:
                    res[prop] = (2, chk.floor_failures[:2])
                else:
                    res[prop] = (0, [])
            except AnalysisError as e:
                res[prop] = (2, ["anchor: %s" % str(e)[:160]])
            except Exception as e:
                res[prop] = (2, ["internal: %r" % e])
    return res


def run_one(job):
    mod, m, src_bytes = job
    new = src_bytes[:m["start"]] + m["repl"].encode("utf8") + src_bytes[m["end"]:]
    root = make_root(mod, new)
    try:
        r = evaluate(root)
    finally:
        shutil.rmtree(root, ignore_errors=True)
    m = dict(m, module=mod)
    m["caught"] = sorted(p for p, (rc, _) in r.items() if rc == 1)
    m["error"] = sorted(p for p, (rc, _) in r.items() if rc == 2)
    m["rules"] = sorted({v.split(" | ")[0] for p, (rc, vs) in r.items() if rc == 1 for v in vs})
    m["errtext"] = sorted({v for p, (rc, vs) in r.items() if rc == 2 for v in vs})[:3]
    return m


def main():
    args = sys.argv[1:]

    def opt(name, default=None):
        if name in args:
            i = args.index(name)
            v = args[i + 1]
            del args[i:i + 2]
            return v
        return default
    modules = (opt("--modules") or ",".join(DEFAULT_MODULES)).split(",")
    jobs = int(opt("--jobs", "16"))
    limit = int(opt("--limit", "0"))
    out = opt("--out", os.path.join(VERIF, "tools", "MUTCOV.json"))
    funcs = opt("--funcs")
    t0 = time.time()
    base = evaluate("/repo")
    bad = {p: v for p, v in base.items() if v[0] != 0}
    if bad:
        print("baseline not green:", bad)
        return 2
    work = []
    for mod in modules:
        p = os.path.join("/repo", rel_of(mod))
        if not os.path.exists(p):
            continue
        b = open(p, "rb").read()
        ms = enumerate_mutations(b.decode("utf8"))
        if funcs:
            ms = [m for m in ms if any(s in m["func"] for s in funcs.split(","))]
        for m in ms:
            work.append((mod, m, b))
    if limit:
        import random
        random.Random(1).shuffle(work)
        work = work[:limit]
    print("%d mutation points in %d modules" % (len(work), len(modules)), flush=True)
    results = []
    with ProcessPoolExecutor(jobs) as ex:
        for i, r in enumerate(ex.map(run_one, work, chunksize=4)):
            results.append(r)
            if i % 200 == 0:
                print("  %d/%d  %.0fs" % (i, len(work), time.time() - t0), flush=True)
    for r in results:
        r.pop("start", None), r.pop("end", None)
    with open(out, "w") as f:
        json.dump({"head": os.popen("git -C /repo rev-parse --short HEAD").read().strip(), "n": len(results), "results": results}, f, indent=0)
    n = len(results)
    c = sum(1 for r in results if r["caught"])
    e = sum(1 for r in results if not r["caught"] and r["error"])
    print("mutation points %d: noticed by a VIOLATION %d (%.0f%%), only ANALYSIS-ERROR %d, unnoticed %d  [%.0fs]" % (n, c, 100.0 * c / max(n, 1), e, n - c - e, time.time() - t0))
    return 0


if __name__ == "__main__":
    sys.exit(main())
