from harness import *
import logging; logging.disable(logging.CRITICAL)
r=run({"StartAt":"F","States":{"F":{"Type":"Fail","Error":"","Cause":"c"}}}, {})
print('Fail Error empty:', r[0]); print([e['type'] for e in r[2].execution_history[list(r[2].execution_history)[0]]])
