import sys; sys.path.insert(0,'/verif/design-notes/repro')
from harness import *
import logging; logging.disable(logging.CRITICAL)
def M(name, it, mc=0, end=True):
    m={"Type":"Map","Iterator":it,"End":end}
    if mc: m["MaxConcurrency"]=mc
    return m
leaf=lambda n: {"StartAt":n,"States":{n:{"Type":"Pass","End":True}}}
bad=0
for omc in (0,1,2,3):
    for imc in (0,1,2):
        asl={"StartAt":"O","States":{"O":M("O", {"StartAt":"I","States":{"I":M("I", leaf("X"), imc)}}, omc)}}
        data=[[1,2,3],[4],[5,6],[7,8,9,10]]
        r=run(asl, data)
        ok = r[0][-1][0]=="SUCCEEDED" and json.loads(r[0][-1][1])==data
        bad += not ok
        print("outer mc", omc, "inner mc", imc, "OK" if ok else ("WRONG %s" % (r[0][-1],)))
# Map in Parallel in batched Map
asl={"StartAt":"O","States":{"O":M("O", {"StartAt":"P","States":{"P":{"Type":"Parallel","End":True,"Branches":[{"StartAt":"I","States":{"I":M("I", leaf("X"), 1)}}, leaf("Y")]}}}, 2)}}
data=[[1,2],[3,4],[5,6]]
r=run(asl, data); exp=[[d, d] for d in data]
ok = r[0][-1][0]=="SUCCEEDED" and json.loads(r[0][-1][1])==exp
bad += not ok
print("map in parallel in batched map", "OK" if ok else "WRONG %s" % (r[0][-1],))
sys.exit(1 if bad else 0)
