import sys, json, logging, tempfile, os
sys.path.insert(0, os.getcwd())
logging.disable(logging.CRITICAL)
from asl_workflow_engine.state_engine import StateEngine
from asl_workflow_engine.rest_api import RestAPI
class ED:
    def __init__(s, se): se.event_dispatcher = s; s.unacknowledged_messages = {}
    def publish(s, *a, **k): pass
    def broadcast(s, *a, **k): pass
    def set_timeout(s, *a): return 1
d = tempfile.mkdtemp()
se = StateEngine({"state_engine": {"store_url": d + "/s.json", "execution_ttl": 500}})
ed = ED(se)
app = RestAPI(se, ed, {"rest_api": {"region": "local"}}).create_app().test_client()
def call(action, body):
    r = app.post("/", data=json.dumps(body) if not isinstance(body, str) else body, headers={"x-amz-target": "AWSStepFunctions." + action, "Content-Type": "application/x-amz-json-1.0"})
    return r.status_code, r.get_data(as_text=True)[:120]
asl = json.dumps({"StartAt": "A", "States": {"A": {"Type": "Pass", "End": True}}})
print(call("CreateStateMachine", {"name": "m", "roleArn": "arn:aws:iam::0123456789:role/r", "definition": asl}))
arn = "arn:aws:states:local:0123456789:stateMachine:m"
print('update valid role + bad definition:', call("UpdateStateMachine", {"stateMachineArn": arn, "roleArn": "arn:aws:iam::0123456789:role/NEW", "definition": "{"}))
print('roleArn now:', json.loads(call("DescribeStateMachine", {"stateMachineArn": arn})[1] + "" if False else app.post("/", data=json.dumps({"stateMachineArn": arn}), headers={"x-amz-target": "AWSStepFunctions.DescribeStateMachine", "Content-Type": "application/x-amz-json-1.0"}).get_data(as_text=True))["roleArn"])
print('oversize definition:', call("UpdateStateMachine", {"stateMachineArn": arn, "definition": "x" * 1048577}))
print('definition "{}" only:', call("UpdateStateMachine", {"stateMachineArn": arn, "definition": "{}"}))
print('definition now:', json.loads(app.post("/", data=json.dumps({"stateMachineArn": arn}), headers={"x-amz-target": "AWSStepFunctions.DescribeStateMachine", "Content-Type": "application/x-amz-json-1.0"}).get_data(as_text=True))["definition"][:40])
