"""
Repro for suspicion 2 - run as:
  cd <worktree>/asl-workflow-engine/py && /venv/bin/python /tmp/bd/out/a/2/repro.py
"""
"""
Minimal in-memory harness: real StateEngine + real EventDispatcher + real
TaskDispatcher; only the broker (pika), the timers and the store file are
stubbed.
"""
import sys, os, types, json, tempfile, logging, heapq, itertools

# ---- stub pika (not installed) ------------------------------------------------
_pika = types.ModuleType("pika")
_pika.exceptions = types.ModuleType("pika.exceptions")
class _E(Exception): pass
for _n in ("AMQPConnectionError", "AMQPChannelError", "ChannelClosed",
           "ChannelClosedByBroker", "ConnectionClosed", "AMQPError",
           "ChannelWrongStateError", "ConnectionWrongStateError",
           "StreamLostError", "UnroutableError", "NackError"):
    setattr(_pika.exceptions, _n, _E)
_pika.BasicProperties = lambda **kw: types.SimpleNamespace(**kw)
sys.modules["pika"] = _pika
sys.modules["pika.exceptions"] = _pika.exceptions

sys.path.insert(0, os.getcwd())
logging.disable(logging.CRITICAL)

from asl_workflow_engine.state_engine import StateEngine
from asl_workflow_engine.event_dispatcher import EventDispatcher
import asl_workflow_engine.event_dispatcher as _ed_module


class Scheduler:
    """Virtual clock replacing Connection.set_timeout/clear_timeout (pika call_later)."""
    def __init__(self):
        self.now = 0.0
        self.heap = []
        self.seq = itertools.count()
        self.cancelled = set()
    def set_timeout(self, callback, delay):
        delay = max(delay, 0)
        tid = next(self.seq)
        heapq.heappush(self.heap, (self.now + delay, tid, callback))
        return tid
    def clear_timeout(self, tid):
        self.cancelled.add(tid)
    def run_due(self, horizon_ms=0):
        """Run every timer due within horizon_ms of virtual time."""
        limit = self.now + horizon_ms
        ran = 0
        while self.heap and self.heap[0][0] <= limit:
            due, tid, cb = heapq.heappop(self.heap)
            if tid in self.cancelled:
                continue
            self.now = max(self.now, due)
            cb()
            ran += 1
        self.now = limit
        return ran


class Broker:
    """In-memory stand-in for RabbitMQ: an event queue, the rpc requests and notifications."""
    def __init__(self):
        self.events = []         # state transition events not yet delivered
        self.rpc = []            # rpcmessage requests sent to workers
        self.notifications = []  # status change notifications
        self.acked = set()
    # pika channel API used by Message.acknowledge
    def basic_ack(self, delivery_tag=0, multiple=False):
        self.acked.add(delivery_tag)


class Producer:
    def __init__(self, broker, sink):
        self.broker, self.sink = broker, sink
    def send(self, message, threadsafe=False):
        message._channel = self.broker
        message._delivery_tag = message.message_id or message.correlation_id or id(message)
        self.sink.append(message)
    def set_return_callback(self, cb):
        pass


class Engine:
    def __init__(self, execution_ttl=86400):
        self.tmp = tempfile.mkdtemp(prefix="asl_repro_")
        config = {
            "event_queue": {"queue_name": "asl_workflow_events", "instance_id": "i1",
                            "queue_implementation": "AMQP-0.9.1",
                            "connection_url": "amqp://localhost:5672",
                            "orphaned_response_retention_ms": 0},
            "notifier": {"topic": "asl_workflow_engine", "message_ttl": 1000},
            "state_engine": {"store_url": os.path.join(self.tmp, "ASL_store.json"),
                             "execution_ttl": execution_ttl},
        }
        self.broker = Broker()
        self.sched = Scheduler()
        self.se = StateEngine(config)
        self.ed = EventDispatcher(self.se, config)   # real dispatcher, loads the real Message class
        self.td = self.se.task_dispatcher
        self.Message = _ed_module.Message
        self.ed.set_timeout = self.sched.set_timeout
        self.ed.clear_timeout = self.sched.clear_timeout
        self.ed.event_queue_producer = Producer(self.broker, self.broker.events)
        self.ed.topic_producer = Producer(self.broker, self.broker.notifications)
        self.td.producer = Producer(self.broker, self.broker.rpc)
        self.td.reply_to = types.SimpleNamespace(name="asl_workflow_reply_to-i1")

    def start_execution(self, arn, definition, data, name="e1"):
        item = {"data": data,
                "context": {"StateMachine": {"Id": arn, "Definition": definition},
                            "Execution": {"Name": name}}}
        self.ed.publish(item)

    def deliver(self, index=0, raw=False):
        """Deliver one queued event to the real EventDispatcher.dispatch (or straight to notify)."""
        m = self.broker.events.pop(index)
        if raw:
            item = json.loads(m.body)
            self.ed.unacknowledged_messages[m.message_id] = m
            self.se.notify(item, m.message_id, m.redelivered)
        else:
            self.ed.dispatch(_Body(m))
        return m

    def reply(self, request, result):
        """A worker answers an rpcmessage request."""
        m = self.Message(json.dumps(result).encode("utf8"),
                         correlation_id=request.correlation_id)
        m._channel = self.broker
        m._delivery_tag = "reply-" + request.correlation_id
        self.td.handle_rpcmessage_response(m)

    def run(self, max_steps=1000, raw=False):
        """FIFO delivery + zero-delay timers until quiescent."""
        steps = 0
        while steps < max_steps:
            steps += 1
            if self.sched.run_due(0):
                continue
            if self.broker.events:
                self.deliver(0, raw=raw)
                continue
            break
        return steps

    def statuses(self):
        return [json.loads(n.body)["detail"]["status"] for n in self.broker.notifications]


class _Body:
    """Present a published Message to dispatch() as pika would (body as bytes)."""
    def __init__(self, m):
        self.__dict__.update(m.__dict__)
        self._m = m
        if isinstance(self.body, str):
            self.body = self.body.encode("utf8")
    def acknowledge(self, multiple=True, threadsafe=False):
        self._m.acknowledge(multiple=False)


# ==============================================================================
# Suspicion 2: KeyError in TaskDispatcher.branch_has_terminated and
#              KeyError('Length') in StateEngine.branch_has_terminated
# ==============================================================================
import time, traceback

ARN = "arn:aws:states:local:0123456789:stateMachine:stragglers"
EXECUTION = "arn:aws:states:local:0123456789:execution:stragglers:e1"
AFTER = {"Type": "Pass", "Result": {"after": True}, "End": True}
CATCH = [{"ErrorEquals": ["States.ALL"], "Next": "After"}]


def task(function):
    return {"Type": "Task", "Resource": "arn:aws:rpcmessage:local::function:" + function, "End": True}


# Machine 1: Parallel (Catch) [ Map (MaxConcurrency 1) > Task "ok" | Task "fail" ]
MACHINE_1 = {
    "TimeoutSeconds": 2,
    "StartAt": "P",
    "States": {
        "P": {"Type": "Parallel", "Catch": CATCH, "Next": "After", "Branches": [
            {"StartAt": "M", "States": {"M": {
                "Type": "Map", "ItemsPath": "$.items", "MaxConcurrency": 1, "End": True,
                "ItemProcessor": {"StartAt": "T1", "States": {"T1": task("ok")}}}}},
            {"StartAt": "TB", "States": {"TB": task("fail")}}]},
        "After": AFTER}}

# Machine 2: Map (Catch) > Parallel [ Task "x" | Task "y" ]
MACHINE_2 = {
    "StartAt": "M",
    "States": {
        "M": {"Type": "Map", "ItemsPath": "$.items", "Catch": CATCH, "Next": "After",
              "ItemProcessor": {"StartAt": "I", "States": {"I": {
                  "Type": "Parallel", "End": True, "Branches": [
                      {"StartAt": "X", "States": {"X": task("x")}},
                      {"StartAt": "Y", "States": {"Y": task("y")}}]}}}},
        "After": AFTER}}

BOOM = {"errorType": "Boom", "errorMessage": "the worker failed"}


class Run:
    def __init__(self, asl):
        self.e = Engine()
        self.problems = []
        self.dropped = []
        # EventDispatcher.dispatch() logs and drops ("poison message") whatever notify() raises
        self.e.ed.logger.exception = lambda *a, **k: self.dropped.append(sys.exc_info()[1])
        self.e.start_execution(ARN, asl, {"items": [0, 1]})
        self.e.run()   # FIFO delivery until only rpcmessage requests are outstanding

    def answer(self, function, payload, result, then_deliver=True):
        """The worker for <function> answers the request whose payload is <payload>."""
        for i, r in enumerate(self.e.broker.rpc):
            if r.subject == function and (payload is None or json.loads(r.body) == payload):
                request = self.e.broker.rpc.pop(i)
                break
        else:
            raise Exception("no request for %s %s" % (function, payload))
        try:
            # What the reply_to consumer's message listener does. An exception
            # here propagates into the pika event loop.
            self.e.reply(request, result)
        except Exception as ex:
            where = traceback.extract_tb(ex.__traceback__)[-1]
            self.problems.append(
                "TaskDispatcher.handle_rpcmessage_response raised %s: %s (%s:%d %s)"
                % (type(ex).__name__, ex, os.path.basename(where.filename), where.lineno, where.name))
        if then_deliver:
            self.e.run()   # FIFO delivery of whatever was published

    def check_dropped(self):
        for ex in self.dropped:
            where = traceback.extract_tb(ex.__traceback__)[-1]
            self.problems.append(
                "StateEngine.notify raised %s: %s (%s:%d %s); the event was dropped by "
                "EventDispatcher.dispatch" % (type(ex).__name__, ex,
                os.path.basename(where.filename), where.lineno, where.name))

    def status(self):
        return self.e.se.executions[EXECUTION]["status"]


def report(title, run):
    print("---- " + title)
    print("     notified statuses: %s, DescribeExecution status: %s" % (run.e.statuses(), run.status()))
    for p in run.problems:
        print("     PROBLEM: " + p)
    if not run.problems:
        print("     ok")
    return run.problems


problems = []

# ------------------------------------------------------------------------------
# 1a. control schedule for machine 1: the Map's Task answers BEFORE the other
#     branch fails.
r = Run(MACHINE_1)
r.answer("ok", 0, {"r": 0})      # iteration 0 done -> the Map re-entry event is published
r.answer("ok", 1, {"r": 1})      # iteration 1 done -> Map done
r.answer("fail", None, BOOM)     # branch 1 fails -> caught -> After -> SUCCEEDED
r.check_dropped()
if r.status() != "SUCCEEDED":
    r.problems.append("status %s, expected SUCCEEDED" % r.status())
problems += report("1a: machine 1, benign schedule (control)", r)

# 1b. the other branch fails first (caught by P, "After" is queued), THEN the
#     Map's Task answers: TaskDispatcher.branch_has_terminated only looks at the
#     results of the Map (not terminated) so the iteration completes and the
#     event that re-enters the Map for its next block is queued BEHIND "After".
#     "After" ends the execution (branch_metadata deleted), then the re-entry
#     event is delivered. (The replies arrive on the reply_to queue, the events
#     on the instance event queue: here both replies are consumed before the
#     queued events, which are then delivered in FIFO order.)
r = Run(MACHINE_1)
r.answer("fail", None, BOOM, then_deliver=False)   # event queue: [After]
r.answer("ok", 0, {"r": 0}, then_deliver=False)     # event queue: [After, Map re-entry]
r.e.run()                                           # After -> SUCCEEDED, then the Map re-entry event
r.check_dropped()
if r.status() != "SUCCEEDED":
    r.problems.append("status %s, expected SUCCEEDED" % r.status())
if EXECUTION in r.e.se.branch_metadata:
    r.problems.append("branch_metadata was re-created for the ended execution and left behind: %s"
                      % r.e.se.branch_metadata[EXECUTION].results)
# ... and what the leftover does once the execution's TimeoutSeconds (2) is over:
time.sleep(2.2)
r.e.se.heartbeat(60)             # what the EventDispatcher heartbeat timer does every minute
if r.status() != "SUCCEEDED":
    r.problems.append("after the expiry back stop the SUCCEEDED execution is %s (%s), history ends with %s"
                      % (r.status(), r.e.se.executions[EXECUTION].get("error"),
                         [h["type"] for h in r.e.se.execution_history[EXECUTION]][-2:]))
problems += report("1b: machine 1, branch 1 fails (caught) before the Map's Task answers", r)

# ------------------------------------------------------------------------------
# 2a. control schedule for machine 2: everything answers before X(1) fails.
r = Run(MACHINE_2)
r.answer("x", 0, {"r": 0})
r.answer("y", 0, {"r": 0})
r.answer("y", 1, {"r": 1})
r.answer("x", 1, BOOM)           # iteration 1 fails -> caught by M -> After -> SUCCEEDED
r.check_dropped()
if r.status() != "SUCCEEDED":
    r.problems.append("status %s, expected SUCCEEDED" % r.status())
problems += report("2a: machine 2, benign schedule (control)", r)

# 2b. X(1) fails first: caught by M, After, SUCCEEDED (branch_metadata deleted)
#     whilst X(0), Y(0) and Y(1) are still outstanding (they are not cancelled).
#     X(0) answers: branch_metadata is re-created, with the results of the
#     Parallel of iteration 0 only. Y(1) answers: its Parallel's ID is unknown.
r = Run(MACHINE_2)
r.answer("x", 1, BOOM)
if r.status() != "SUCCEEDED":
    r.problems.append("status %s, expected SUCCEEDED" % r.status())
r.answer("x", 0, {"r": 0})
r.answer("y", 1, {"r": 1})
r.check_dropped()
if r.status() != "SUCCEEDED":
    r.problems.append("status %s, expected SUCCEEDED" % r.status())
problems += report("2b: machine 2, X(1) fails (caught) before X(0) and Y(1) answer", r)

if problems:
    print("\nFAIL: stragglers of branches whose Map/Parallel state no longer has results "
          "raise KeyError in branch_has_terminated (TaskDispatcher and/or StateEngine)")
    sys.exit(1)
print("\nPASS")
sys.exit(0)
