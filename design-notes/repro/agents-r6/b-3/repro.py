#!/usr/bin/env python
"""
Suspicion 3: an ordinary rpcmessage reply to a ".waitForTaskToken" task whose
body carries a present-but-falsy "errorType" ("" or 0) completes the task
successfully without any SendTaskSuccess callback.

Run as:
  cd /tmp/bd/wt2/asl-workflow-engine/py && /venv/bin/python /tmp/bd/out/b/3/repro.py

Drives the REAL StateEngine / TaskDispatcher / EventDispatcher objects and the
REAL amqp_0_9_1_messaging.Message class. Only pika (the broker client), the
AMQP channel and the timers are faked. Exits 1 when the defect is present.
"""
import os, sys, types, tempfile, json, atexit, shutil

os.environ.setdefault("LOG_LEVEL", "CRITICAL")
sys.path.insert(0, os.getcwd())

# ---- stub pika (not installed): only needs to be importable -----------------
pika = types.ModuleType("pika")
for sub in ("compat", "exceptions", "spec"):
    m = types.ModuleType("pika." + sub)
    setattr(pika, sub, m)
    sys.modules["pika." + sub] = m
sys.modules["pika"] = pika

from asl_workflow_engine.state_engine import StateEngine
from asl_workflow_engine.event_dispatcher import EventDispatcher
from asl_workflow_engine.amqp_0_9_1_messaging import Message  # the real class


class FakeChannel(object):
    """Behaves like a RabbitMQ channel as far as basic_ack is concerned."""
    def __init__(self):
        self.next_tag = 1
        self.outstanding = {}   # delivery_tag -> label
        self.acks = []          # labels in ack order
        self.errors = []        # what RabbitMQ would close the channel for

    def deliver(self, label, body, **kwargs):
        """Build a Message the way Consumer.message_listener() does."""
        message = Message(body, **kwargs)
        message._channel = self
        message._delivery_tag = self.next_tag
        message._label = label
        self.outstanding[self.next_tag] = label
        self.next_tag += 1
        return message

    def basic_ack(self, delivery_tag=0, multiple=False):
        if delivery_tag not in self.outstanding:
            self.errors.append(
                "PRECONDITION_FAILED - unknown delivery tag {}".format(delivery_tag)
            )
            self.acks.append("DUPLICATE ack of tag {}".format(delivery_tag))
            return
        self.acks.append(self.outstanding.pop(delivery_tag))


class FakeTimers(object):
    """Deterministic replacement for connection.set_timeout/clear_timeout."""
    def __init__(self):
        self.now = 0
        self.timers = {}
        self.seq = 0

    def set_timeout(self, callback, delay):
        self.seq += 1
        self.timers[self.seq] = (self.now + max(delay, 0), callback)
        return self.seq

    def clear_timeout(self, timeout_id):
        self.timers.pop(timeout_id, None)

    def advance(self, ms):
        end = self.now + ms
        while True:
            due = sorted((t, i) for i, (t, cb) in self.timers.items() if t <= end)
            if not due:
                break
            t, i = due[0]
            self.now = t
            self.timers.pop(i)[1]()
        self.now = end


class FakeConsumer(object):
    name = "asl_workflow_reply_to-test"
    capacity = 0
    def set_message_listener(self, listener):
        self.listener = listener

class FakeProducer(object):
    def __init__(self):
        self.sent = []
    def set_return_callback(self, cb):
        pass
    def send(self, message, threadsafe=False):
        self.sent.append(message)

class FakeSession(object):
    def consumer(self, source=""):
        return FakeConsumer()
    def producer(self, target=""):
        return FakeProducer()


def build_engine(store_url=None):
    tmp = tempfile.mkdtemp()
    atexit.register(shutil.rmtree, tmp, True)
    config = {
        "event_queue": {
            "queue_name": "asl_workflow_events",
            "instance_id": "test",
            "queue_implementation": "AMQP-0.9.1",
            "connection_url": "amqp://localhost:5672",
            "orphaned_response_retention_ms": 600000,   # the default
        },
        "notifier": {"topic": "asl_workflow_engine", "message_ttl": 0},
        "state_engine": {
            "store_url": store_url or os.path.join(tmp, "ASL_store.json"),
            "execution_ttl": 86400,
        },
        "metrics": {},
    }
    state_engine = StateEngine(config)
    event_dispatcher = EventDispatcher(state_engine, config)
    timers = FakeTimers()
    # What EventDispatcher.start() does, minus the broker connection.
    event_dispatcher.set_timeout = timers.set_timeout
    event_dispatcher.clear_timeout = timers.clear_timeout
    session = FakeSession()
    state_engine.task_dispatcher.start(session)
    event_dispatcher.event_queue_producer = session.producer()
    event_dispatcher.topic_producer = session.producer()
    return state_engine, event_dispatcher, timers




def deliver_event(event_dispatcher, channel, label, event, message_id, redelivered=False):
    """Deliver an event queue message to the real EventDispatcher.dispatch()."""
    body = event if isinstance(event, bytes) else json.dumps(event).encode("utf8")
    message = channel.deliver(
        label, body, content_type="application/json",
        message_id=message_id, redelivered=redelivered,
    )
    event_dispatcher.dispatch(message)
    return message


def pump(event_dispatcher, channel, timers=None):
    """
    Play the broker: deliver every event the engine has published to its event
    queue back to EventDispatcher.dispatch(), until the queue is empty.
    """
    n = 0
    while True:
        if timers is not None:
            timers.advance(0)   # zero delay timers (asl_state_Task uses one)
        sent = event_dispatcher.event_queue_producer.sent
        if not sent:
            return n
        published = sent.pop(0)
        n += 1
        try:
            state_name = json.loads(published.body)["context"]["State"]["Name"]
        except Exception:
            state_name = "?"
        message = channel.deliver(
            "event for state {!r} id {}".format(state_name, published.message_id),
            published.body.encode("utf8"), content_type="application/json",
            message_id=published.message_id,
        )
        event_dispatcher.dispatch(message)


ARN = "arn:aws:states:local:0123456789:stateMachine:callback"
ASL = {
    "StartAt": "WaitForCallback",
    "States": {
        "WaitForCallback": {
            "Type": "Task",
            "Resource": "arn:aws:states:local::rpcmessage:invoke.waitForTaskToken",
            "Parameters": {
                "FunctionName": "arn:aws:rpcmessage:local::function:worker",
                "Payload": {"token.$": "$$.Task.Token"},
            },
            "End": True,
        }
    },
}


def run(reply_body):
    """
    Start one execution of ASL, let the worker answer the rpcmessage request
    with reply_body (an ordinary reply: no x-SendTaskSuccess property) and
    report what happened to the task. No SendTaskSuccess is ever sent.
    """
    state_engine, event_dispatcher, timers = build_engine()
    td = state_engine.task_dispatcher
    channel = FakeChannel()

    deliver_event(
        event_dispatcher, channel, "start event",
        {"data": {}, "context": {"StateMachine": {"Id": ARN, "Definition": ASL}}},
        message_id="11111111-0000-4000-8000-000000000001",
    )
    pump(event_dispatcher, channel, timers)

    assert len(td.producer.sent) == 1, "the rpcmessage request was not published"
    request = td.producer.sent[0]
    cid = request.correlation_id
    assert cid.endswith(".waitForTaskToken") and cid in td.pending_requests

    reply = channel.deliver(
        "worker reply", reply_body, content_type="application/json",
        correlation_id=cid,
    )
    td.handle_rpcmessage_response(reply)
    pump(event_dispatcher, channel, timers)

    (execution_arn, detail), = state_engine.executions.items()
    history = [e["type"] for e in state_engine.execution_history[execution_arn]]
    return {
        "still_waiting": cid in td.pending_requests,
        "status": detail["status"],
        "output": detail["output"],
        "history": history,
        "reply_acked": "worker reply" in channel.acks,
    }


def main():
    failures = []
    cases = [
        ('control  {"result": 1}      ', b'{"result": 1}', None),
        ('control  {"errorType": null}', b'{"errorType": null}', None),
        ('falsy    {"errorType": ""}  ', b'{"errorType": ""}', "falsy"),
        ('falsy    {"errorType": 0}   ', b'{"errorType": 0}', "falsy"),
    ]
    for label, body, kind in cases:
        r = run(body)
        print("{} -> status={} still_waiting={} output={} history since TaskScheduled={}".format(
            label, r["status"], r["still_waiting"], r["output"],
            r["history"][r["history"].index("TaskScheduled"):]))
        if kind is None:
            # Non-error replies of a .waitForTaskToken task are ignored.
            assert r["still_waiting"] and r["status"] == "RUNNING" and r["reply_acked"], r
        elif r["status"] == "SUCCEEDED":
            failures.append(
                "reply {} completed the .waitForTaskToken task SUCCESSFULLY "
                "(execution output {}) although no SendTaskSuccess was ever "
                "received".format(body.decode(), r["output"])
            )

    if failures:
        print("\nDEFECT REPRODUCED (suspicion 3):")
        for f in failures:
            print("  -", f)
        sys.exit(1)
    print("\nOK: no task was completed by an ordinary rpcmessage reply")
    sys.exit(0)


if __name__ == "__main__":
    main()
