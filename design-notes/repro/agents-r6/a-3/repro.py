"""
Repro for suspicion 3 - run as:
  cd <worktree>/asl-workflow-engine/py && /venv/bin/python /tmp/bd/out/a/3/repro.py
"""
"""
Minimal in-memory harness: real StateEngine + real EventDispatcher + real
TaskDispatcher; only the broker (pika), the timers and the store file are
stubbed.
"""
import sys, os, types, json, tempfile, logging, heapq, itertools

# ---- stub pika (not installed) ------------------------------------------------
_pika = types.ModuleType("pika")
_pika.exceptions = types.ModuleType("pika.exceptions")
class _E(Exception): pass
for _n in ("AMQPConnectionError", "AMQPChannelError", "ChannelClosed",
           "ChannelClosedByBroker", "ConnectionClosed", "AMQPError",
           "ChannelWrongStateError", "ConnectionWrongStateError",
           "StreamLostError", "UnroutableError", "NackError"):
    setattr(_pika.exceptions, _n, _E)
_pika.BasicProperties = lambda **kw: types.SimpleNamespace(**kw)
sys.modules["pika"] = _pika
sys.modules["pika.exceptions"] = _pika.exceptions

sys.path.insert(0, os.getcwd())
logging.disable(logging.CRITICAL)

from asl_workflow_engine.state_engine import StateEngine
from asl_workflow_engine.event_dispatcher import EventDispatcher
import asl_workflow_engine.event_dispatcher as _ed_module


class Scheduler:
    """Virtual clock replacing Connection.set_timeout/clear_timeout (pika call_later)."""
    def __init__(self):
        self.now = 0.0
        self.heap = []
        self.seq = itertools.count()
        self.cancelled = set()
    def set_timeout(self, callback, delay):
        delay = max(delay, 0)
        tid = next(self.seq)
        heapq.heappush(self.heap, (self.now + delay, tid, callback))
        return tid
    def clear_timeout(self, tid):
        self.cancelled.add(tid)
    def run_due(self, horizon_ms=0):
        """Run every timer due within horizon_ms of virtual time."""
        limit = self.now + horizon_ms
        ran = 0
        while self.heap and self.heap[0][0] <= limit:
            due, tid, cb = heapq.heappop(self.heap)
            if tid in self.cancelled:
                continue
            self.now = max(self.now, due)
            cb()
            ran += 1
        self.now = limit
        return ran


class Broker:
    """In-memory stand-in for RabbitMQ: an event queue, the rpc requests and notifications."""
    def __init__(self):
        self.events = []         # state transition events not yet delivered
        self.rpc = []            # rpcmessage requests sent to workers
        self.notifications = []  # status change notifications
        self.acked = set()
    # pika channel API used by Message.acknowledge
    def basic_ack(self, delivery_tag=0, multiple=False):
        self.acked.add(delivery_tag)


class Producer:
    def __init__(self, broker, sink):
        self.broker, self.sink = broker, sink
    def send(self, message, threadsafe=False):
        message._channel = self.broker
        message._delivery_tag = message.message_id or message.correlation_id or id(message)
        self.sink.append(message)
    def set_return_callback(self, cb):
        pass


class Engine:
    def __init__(self, execution_ttl=86400):
        self.tmp = tempfile.mkdtemp(prefix="asl_repro_")
        config = {
            "event_queue": {"queue_name": "asl_workflow_events", "instance_id": "i1",
                            "queue_implementation": "AMQP-0.9.1",
                            "connection_url": "amqp://localhost:5672",
                            "orphaned_response_retention_ms": 0},
            "notifier": {"topic": "asl_workflow_engine", "message_ttl": 1000},
            "state_engine": {"store_url": os.path.join(self.tmp, "ASL_store.json"),
                             "execution_ttl": execution_ttl},
        }
        self.broker = Broker()
        self.sched = Scheduler()
        self.se = StateEngine(config)
        self.ed = EventDispatcher(self.se, config)   # real dispatcher, loads the real Message class
        self.td = self.se.task_dispatcher
        self.Message = _ed_module.Message
        self.ed.set_timeout = self.sched.set_timeout
        self.ed.clear_timeout = self.sched.clear_timeout
        self.ed.event_queue_producer = Producer(self.broker, self.broker.events)
        self.ed.topic_producer = Producer(self.broker, self.broker.notifications)
        self.td.producer = Producer(self.broker, self.broker.rpc)
        self.td.reply_to = types.SimpleNamespace(name="asl_workflow_reply_to-i1")

    def start_execution(self, arn, definition, data, name="e1"):
        item = {"data": data,
                "context": {"StateMachine": {"Id": arn, "Definition": definition},
                            "Execution": {"Name": name}}}
        self.ed.publish(item)

    def deliver(self, index=0, raw=False):
        """Deliver one queued event to the real EventDispatcher.dispatch (or straight to notify)."""
        m = self.broker.events.pop(index)
        if raw:
            item = json.loads(m.body)
            self.ed.unacknowledged_messages[m.message_id] = m
            self.se.notify(item, m.message_id, m.redelivered)
        else:
            self.ed.dispatch(_Body(m))
        return m

    def reply(self, request, result):
        """A worker answers an rpcmessage request."""
        m = self.Message(json.dumps(result).encode("utf8"),
                         correlation_id=request.correlation_id)
        m._channel = self.broker
        m._delivery_tag = "reply-" + request.correlation_id
        self.td.handle_rpcmessage_response(m)

    def run(self, max_steps=1000, raw=False):
        """FIFO delivery + zero-delay timers until quiescent."""
        steps = 0
        while steps < max_steps:
            steps += 1
            if self.sched.run_due(0):
                continue
            if self.broker.events:
                self.deliver(0, raw=raw)
                continue
            break
        return steps

    def statuses(self):
        return [json.loads(n.body)["detail"]["status"] for n in self.broker.notifications]


class _Body:
    """Present a published Message to dispatch() as pika would (body as bytes)."""
    def __init__(self, m):
        self.__dict__.update(m.__dict__)
        self._m = m
        if isinstance(self.body, str):
            self.body = self.body.encode("utf8")
    def acknowledge(self, multiple=True, threadsafe=False):
        self._m.acknowledge(multiple=False)


# ==============================================================================
# Suspicion 3: an inner Task's RetryCount leaks to its parent Parallel/Map state
# ==============================================================================
ARN = "arn:aws:states:local:0123456789:stateMachine:retry_leak"
EXECUTION = "arn:aws:states:local:0123456789:execution:retry_leak:e1"


def task(max_attempts):
    t = {"Type": "Task", "Resource": "arn:aws:rpcmessage:local::function:worker", "End": True}
    if max_attempts:
        t["Retry"] = [{"ErrorEquals": ["Boom"], "MaxAttempts": max_attempts, "IntervalSeconds": 0}]
    return t


def parallel_machine(inner, outer):
    return {"StartAt": "P", "States": {"P": {
        "Type": "Parallel",
        "Branches": [{"StartAt": "T", "States": {"T": task(inner)}}],
        "Retry": [{"ErrorEquals": ["States.ALL"], "MaxAttempts": outer, "IntervalSeconds": 0}],
        "End": True}}}


def map_machine(inner, outer, max_concurrency=0):
    return {"StartAt": "M", "States": {"M": {
        "Type": "Map", "ItemsPath": "$.items", "MaxConcurrency": max_concurrency,
        "ItemProcessor": {"StartAt": "T", "States": {"T": task(inner)}},
        "Retry": [{"ErrorEquals": ["States.ALL"], "MaxAttempts": outer, "IntervalSeconds": 0}],
        "End": True}}}


def drive(e, worker):
    """Engine runs until quiescent, then the (stub) rpcmessage worker answers, and so on."""
    for _ in range(500):
        e.run()
        if not e.broker.rpc:
            return
        while e.broker.rpc:
            request = e.broker.rpc.pop(0)
            e.reply(request, worker(json.loads(request.body)))
    raise Exception("did not become quiescent")


def scenario(title, asl, data, worker, expect_invocations, expect_starts):
    e = Engine()
    e.start_execution(ARN, asl, data)
    calls = []
    def counting_worker(payload):
        calls.append(payload)
        return worker(payload, calls)
    drive(e, counting_worker)
    history = e.se.execution_history[EXECUTION]
    starts = sum(1 for h in history if h["type"] in ("ParallelStateStarted", "MapStateStarted"))
    problems = []
    if starts != expect_starts:
        problems.append("the Parallel/Map state was started %d time(s), expected %d "
                        "(1 + its own MaxAttempts)" % (starts, expect_starts))
    if len(calls) != expect_invocations:
        problems.append("the Task resource was invoked %d time(s), expected %d"
                        % (len(calls), expect_invocations))
    print("---- " + title)
    print("     statuses=%s started=%d task invocations=%d" % (e.statuses(), starts, len(calls)))
    for p in problems:
        print("     PROBLEM: " + p)
    if not problems:
        print("     ok")
    return problems


def always_fail(payload, calls):
    return {"errorType": "Boom", "errorMessage": "the worker always fails"}


problems = []

problems += scenario(
    "A: Parallel (Retry MaxAttempts 2) > Task (Retry MaxAttempts 2), Task always fails",
    parallel_machine(2, 2), {}, always_fail,
    expect_invocations=9, expect_starts=3)

problems += scenario(
    "B: Parallel (Retry MaxAttempts 2) > Task (Retry MaxAttempts 1), Task always fails",
    parallel_machine(1, 2), {}, always_fail,
    expect_invocations=6, expect_starts=3)

problems += scenario(
    "C: Map (Retry MaxAttempts 1) > Task (Retry MaxAttempts 3), one item, Task always fails",
    map_machine(3, 1), {"items": [0]}, always_fail,
    expect_invocations=8, expect_starts=2)


# D: the leak also happens without any failure of the first block: with
# MaxConcurrency the Map state is re-entered by an event built from the context
# of the iteration that completed the block, which still carries the RetryCount
# of a Task that succeeded after one retry.
def item0_fails_once_item1_always(payload, calls):
    if payload == 1:
        # "Other" is not matched by the Task's own Retrier: the Task is not retried
        return {"errorType": "Other", "errorMessage": "item 1 always fails"}
    if calls.count(0) == 1:
        return {"errorType": "Boom", "errorMessage": "item 0 fails the first time only"}
    return {"ok": payload}

problems += scenario(
    "D: Map (MaxConcurrency 1, Retry MaxAttempts 1) > Task (Retry MaxAttempts 1): item 0 "
    "succeeds on its retry, item 1 always fails with an error its Task does not retry",
    map_machine(1, 1, max_concurrency=1), {"items": [0, 1]}, item0_fails_once_item1_always,
    # attempt 1: item0 x2 (fail, ok), item1 x1 ; Map retry: item0 x1 (ok), item1 x1
    expect_invocations=5, expect_starts=2)

problems += scenario(
    "E: control, Parallel (Retry MaxAttempts 2) > Task without Retry",
    parallel_machine(0, 2), {}, always_fail,
    expect_invocations=3, expect_starts=3)

if problems:
    print("\nFAIL: the RetryCount of a Task inside a branch/iteration is taken for the "
          "RetryCount of the parent Parallel/Map state, which is then retried fewer "
          "times than its own Retrier's MaxAttempts (or not at all)")
    sys.exit(1)
print("\nPASS")
sys.exit(0)
