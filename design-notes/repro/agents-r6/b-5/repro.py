#!/usr/bin/env python
"""
Suspicion 5: TaskDispatcher.cancel_task never clears the timeout timer of the
cancelled request (only the pending request is removed). Is there a schedule
in which the stale timer does harm?

Part 1 (rpcmessage, what the suspicion names): the timer does stay behind, but
        when it fires it finds no pending request and does nothing. Its
        correlation id is the id of the Task state's event, which is never
        seen again by the same process once acknowledged, so nothing can
        collide with it (see NOTES.md). Reported, not counted as harm.
Part 2 (same omission, "StepFunction" flavour of cancel_task): for a
        startExecution.sync Task the correlation id is the *child execution
        ARN*, which is built from the "Name" parameter. If the enclosing
        Parallel state is retried the same ARN is registered again while the
        stale timer of the cancelled first attempt is still armed: it fires
        before the new attempt is due, deletes the *new* pending request and
        fails the execution through the first attempt's callback. This is
        the harmful schedule.

Run as:
  cd /tmp/bd/wt2/asl-workflow-engine/py && /venv/bin/python /tmp/bd/out/b/5/repro.py

Drives the REAL StateEngine / TaskDispatcher / EventDispatcher objects and the
REAL amqp_0_9_1_messaging.Message class. Only pika (the broker client), the
AMQP channel and the timers are faked. Exits 1 when the defect is present.
"""
import os, sys, types, tempfile, json, atexit, shutil

os.environ.setdefault("LOG_LEVEL", "CRITICAL")
sys.path.insert(0, os.getcwd())

# ---- stub pika (not installed): only needs to be importable -----------------
pika = types.ModuleType("pika")
for sub in ("compat", "exceptions", "spec"):
    m = types.ModuleType("pika." + sub)
    setattr(pika, sub, m)
    sys.modules["pika." + sub] = m
sys.modules["pika"] = pika

from asl_workflow_engine.state_engine import StateEngine
from asl_workflow_engine.event_dispatcher import EventDispatcher
from asl_workflow_engine.amqp_0_9_1_messaging import Message  # the real class


class FakeChannel(object):
    """Behaves like a RabbitMQ channel as far as basic_ack is concerned."""
    def __init__(self):
        self.next_tag = 1
        self.outstanding = {}   # delivery_tag -> label
        self.acks = []          # labels in ack order
        self.errors = []        # what RabbitMQ would close the channel for

    def deliver(self, label, body, **kwargs):
        """Build a Message the way Consumer.message_listener() does."""
        message = Message(body, **kwargs)
        message._channel = self
        message._delivery_tag = self.next_tag
        message._label = label
        self.outstanding[self.next_tag] = label
        self.next_tag += 1
        return message

    def basic_ack(self, delivery_tag=0, multiple=False):
        if delivery_tag not in self.outstanding:
            self.errors.append(
                "PRECONDITION_FAILED - unknown delivery tag {}".format(delivery_tag)
            )
            self.acks.append("DUPLICATE ack of tag {}".format(delivery_tag))
            return
        self.acks.append(self.outstanding.pop(delivery_tag))


class FakeTimers(object):
    """Deterministic replacement for connection.set_timeout/clear_timeout."""
    def __init__(self):
        self.now = 0
        self.timers = {}
        self.seq = 0

    def set_timeout(self, callback, delay):
        self.seq += 1
        self.timers[self.seq] = (self.now + max(delay, 0), callback)
        return self.seq

    def clear_timeout(self, timeout_id):
        self.timers.pop(timeout_id, None)

    def advance(self, ms):
        end = self.now + ms
        while True:
            due = sorted((t, i) for i, (t, cb) in self.timers.items() if t <= end)
            if not due:
                break
            t, i = due[0]
            self.now = t
            self.timers.pop(i)[1]()
        self.now = end


class FakeConsumer(object):
    name = "asl_workflow_reply_to-test"
    capacity = 0
    def set_message_listener(self, listener):
        self.listener = listener

class FakeProducer(object):
    def __init__(self):
        self.sent = []
    def set_return_callback(self, cb):
        pass
    def send(self, message, threadsafe=False):
        self.sent.append(message)

class FakeSession(object):
    def consumer(self, source=""):
        return FakeConsumer()
    def producer(self, target=""):
        return FakeProducer()


def build_engine(store_url=None):
    tmp = tempfile.mkdtemp()
    atexit.register(shutil.rmtree, tmp, True)
    config = {
        "event_queue": {
            "queue_name": "asl_workflow_events",
            "instance_id": "test",
            "queue_implementation": "AMQP-0.9.1",
            "connection_url": "amqp://localhost:5672",
            "orphaned_response_retention_ms": 600000,   # the default
        },
        "notifier": {"topic": "asl_workflow_engine", "message_ttl": 0},
        "state_engine": {
            "store_url": store_url or os.path.join(tmp, "ASL_store.json"),
            "execution_ttl": 86400,
        },
        "metrics": {},
    }
    state_engine = StateEngine(config)
    event_dispatcher = EventDispatcher(state_engine, config)
    timers = FakeTimers()
    # What EventDispatcher.start() does, minus the broker connection.
    event_dispatcher.set_timeout = timers.set_timeout
    event_dispatcher.clear_timeout = timers.clear_timeout
    session = FakeSession()
    state_engine.task_dispatcher.start(session)
    event_dispatcher.event_queue_producer = session.producer()
    event_dispatcher.topic_producer = session.producer()
    return state_engine, event_dispatcher, timers




def deliver_event(event_dispatcher, channel, label, event, message_id, redelivered=False):
    """Deliver an event queue message to the real EventDispatcher.dispatch()."""
    body = event if isinstance(event, bytes) else json.dumps(event).encode("utf8")
    message = channel.deliver(
        label, body, content_type="application/json",
        message_id=message_id, redelivered=redelivered,
    )
    event_dispatcher.dispatch(message)
    return message


def pump(event_dispatcher, channel, timers=None):
    """
    Play the broker: deliver every event the engine has published to its event
    queue back to EventDispatcher.dispatch(), until the queue is empty.
    """
    n = 0
    while True:
        if timers is not None:
            timers.advance(0)   # zero delay timers (asl_state_Task uses one)
        sent = event_dispatcher.event_queue_producer.sent
        if not sent:
            return n
        published = sent.pop(0)
        n += 1
        try:
            state_name = json.loads(published.body)["context"]["State"]["Name"]
        except Exception:
            state_name = "?"
        message = channel.deliver(
            "event for state {!r} id {}".format(state_name, published.message_id),
            published.body.encode("utf8"), content_type="application/json",
            message_id=published.message_id,
        )
        event_dispatcher.dispatch(message)


import time as _time


def armed_timers(timers):
    """[(deadline in s, kind, correlation_id)] of the timers that are armed."""
    out = []
    for i, (t, cb) in sorted(timers.timers.items()):
        cells = {}
        for name, cell in zip(cb.__code__.co_freevars, cb.__closure__ or ()):
            try:
                cells[name] = cell.cell_contents
            except ValueError:
                pass
        kind = ".".join(getattr(cb, "__qualname__", repr(cb)).split("<locals>.")[-2:])
        out.append((round(t / 1000, 1), kind, cells.get("correlation_id")))
    return out


def request_timers(timers, correlation_id):
    return [t for t in armed_timers(timers)
            if t[2] == correlation_id and t[1].endswith("on_timeout")]


PARENT = "arn:aws:states:local:0123456789:stateMachine:parent"
CHILD = "arn:aws:states:local:0123456789:stateMachine:child"
EXECUTION = "arn:aws:states:local:0123456789:execution:parent:run1"


def start(asl, data):
    state_engine, event_dispatcher, timers = build_engine()
    channel = FakeChannel()
    now = _time.time()
    state_engine.asl_store[CHILD] = {
        "creationDate": now, "name": "child", "stateMachineArn": CHILD,
        "definition": {"StartAt": "W", "States": {
            "W": {"Type": "Wait", "Seconds": 100000, "End": True}}},
        "roleArn": "arn:aws:iam:::role/dummy-role/dummy", "updateDate": now,
        "status": "ACTIVE", "type": "STANDARD",
    }
    deliver_event(
        event_dispatcher, channel, "start event",
        {"data": data, "context": {
            "StateMachine": {"Id": PARENT, "Definition": asl},
            "Execution": {"Name": "run1"}}},
        message_id="55555555-0000-4000-8000-000000000001",
    )
    pump(event_dispatcher, channel, timers)
    return state_engine, event_dispatcher, timers, channel


def reply_to_last(td, channel, function, label, body):
    request = [m for m in td.producer.sent if m.subject == function][-1]
    td.handle_rpcmessage_response(
        channel.deliver(label, body, correlation_id=request.correlation_id))
    return request.correlation_id


def part1():
    print("--- part 1: rpcmessage Task cancelled because a sibling branch failed ---")
    asl = {"StartAt": "P", "States": {"P": {
        "Type": "Parallel", "End": True,
        "Branches": [
            {"StartAt": "A", "States": {"A": {
                "Type": "Task", "TimeoutSeconds": 30, "End": True,
                "Resource": "arn:aws:rpcmessage:local::function:failer"}}},
            {"StartAt": "B", "States": {"B": {
                "Type": "Task", "TimeoutSeconds": 30, "End": True,
                "Resource": "arn:aws:rpcmessage:local::function:slow"}}},
        ]}}}
    state_engine, event_dispatcher, timers, channel = start(asl, {})
    td = state_engine.task_dispatcher
    cid_b = [m for m in td.producer.sent if m.subject == "slow"][-1].correlation_id
    assert cid_b in td.pending_requests and len(request_timers(timers, cid_b)) == 1

    reply_to_last(td, channel, "failer", "reply of A",
                  b'{"errorType": "Boom", "errorMessage": "x"}')
    pump(event_dispatcher, channel, timers)
    assert state_engine.executions[EXECUTION]["status"] == "FAILED"
    assert cid_b not in td.pending_requests and td.cancellers == {}
    assert channel.outstanding == {}, "every message is acknowledged by now"

    stale = request_timers(timers, cid_b)
    print("   B cancelled (Task.Terminated), its event acknowledged; "
          "timers still armed for B's request:", stale)

    before = (list(channel.acks), len(state_engine.execution_history[EXECUTION]),
              len(event_dispatcher.topic_producer.sent))
    timers.advance(31000)
    pump(event_dispatcher, channel, timers)
    after = (list(channel.acks), len(state_engine.execution_history[EXECUTION]),
             len(event_dispatcher.topic_producer.sent))
    print("   31 s later (a stale timer has fired by now): side effects =",
          "none" if before == after else "SOME")
    assert before == after
    return bool(stale)


def part2():
    print("--- part 2: startExecution.sync Task with a Name, inside a retried Parallel ---")
    asl = {"StartAt": "P", "States": {"P": {
        "Type": "Parallel", "End": True,
        "Retry": [{"ErrorEquals": ["States.ALL"], "IntervalSeconds": 1, "MaxAttempts": 1}],
        "Branches": [
            {"StartAt": "A", "States": {"A": {
                "Type": "Task", "TimeoutSeconds": 600, "End": True,
                "Resource": "arn:aws:rpcmessage:local::function:flaky"}}},
            {"StartAt": "B", "States": {"B": {
                "Type": "Task", "TimeoutSeconds": 60, "End": True,
                "Resource": "arn:aws:states:local::states:startExecution.sync",
                "Parameters": {"StateMachineArn": CHILD, "Name.$": "$.order",
                               "Input": {}}}}},
        ]}}}
    state_engine, event_dispatcher, timers, channel = start(asl, {"order": "order-42"})
    td = state_engine.task_dispatcher
    child_arn = "arn:aws:states:local:0123456789:execution:child:order-42"
    def show(what):
        print("   t={:5.1f}s {:<38} timers for {}: {}".format(
            timers.now / 1000, what, "child:order-42",
            [t[0] for t in request_timers(timers, child_arn)]))
    assert child_arn in td.pending_requests
    show("attempt 1 running")

    # t = 5 s: branch A fails, the Parallel state fails, B is cancelled
    timers.advance(5000); pump(event_dispatcher, channel, timers)
    reply_to_last(td, channel, "flaky", "reply of A, attempt 1",
                  b'{"errorType": "Boom", "errorMessage": "x"}')
    pump(event_dispatcher, channel, timers)
    assert child_arn not in td.pending_requests
    show("A failed, B cancelled, P will retry")

    # t = 6.5 s: the Parallel state has been retried (IntervalSeconds 1)
    timers.advance(1500); pump(event_dispatcher, channel, timers)
    assert child_arn in td.pending_requests, "attempt 2 of B should be pending"
    show("attempt 2 running")

    # t = 10 s: this time branch A succeeds
    timers.advance(3500); pump(event_dispatcher, channel, timers)
    reply_to_last(td, channel, "flaky", "reply of A, attempt 2", b'{"ok": true}')
    pump(event_dispatcher, channel, timers)
    assert state_engine.executions[EXECUTION]["status"] == "RUNNING"
    n = len(state_engine.execution_history[EXECUTION])

    # t = 60.5 s: attempt 2 of B was entered at ~6.5 s with TimeoutSeconds 60,
    # so it must still be waiting for its child execution.
    timers.advance(50500); pump(event_dispatcher, channel, timers)
    status = state_engine.executions[EXECUTION]["status"]
    new_history = [e["type"] for e in state_engine.execution_history[EXECUTION]][n:]
    still_pending = child_arn in td.pending_requests
    show("60.5 s")
    print("   execution status:", status, " B (attempt 2) still pending:", still_pending,
          " new history:", new_history)
    return status != "RUNNING" or not still_pending


def main():
    leaked = part1()
    harmed = part2()
    if leaked or harmed:
        print("\nDEFECT REPRODUCED (suspicion 5):")
        if leaked:
            print("  - cancel_task left the timeout timer of the cancelled rpcmessage "
                  "request armed (harmless when it fires, it only retains the "
                  "request's closure until the Task/Execution timeout)")
        if harmed:
            print("  - the stale timer of a cancelled startExecution.sync request timed "
                  "out the retried Task ~6 s early (at 60 s instead of 66.5 s): it removed "
                  "the pending request of attempt 2 and failed the execution through "
                  "the callback of the cancelled attempt 1")
        sys.exit(1)
    print("\nOK: cancel_task cleared the timers, nothing fired early")
    sys.exit(0)


if __name__ == "__main__":
    main()
