#!/usr/bin/env python
"""
Suspicion 1: TaskDispatcher.handle_rpcmessage_response - a retained orphaned
SendTaskSuccess reply of a ".waitForTaskToken" task that is *replaced* by an
rpcmessage error reply with the same correlation id: the retention timer still
refers to the first message.

Run as:
  cd /tmp/bd/wt2/asl-workflow-engine/py && /venv/bin/python /tmp/bd/out/b/1/repro.py

Drives the REAL StateEngine / TaskDispatcher / EventDispatcher objects and the
REAL amqp_0_9_1_messaging.Message class. Only pika (the broker client), the
AMQP channel and the timers are faked. Exits 1 when the defect is present.
"""
import os, sys, types, tempfile, atexit, shutil

os.environ.setdefault("LOG_LEVEL", "CRITICAL")
sys.path.insert(0, os.getcwd())

# ---- stub pika (not installed): only needs to be importable -----------------
pika = types.ModuleType("pika")
for sub in ("compat", "exceptions", "spec"):
    m = types.ModuleType("pika." + sub)
    setattr(pika, sub, m)
    sys.modules["pika." + sub] = m
sys.modules["pika"] = pika

from asl_workflow_engine.state_engine import StateEngine
from asl_workflow_engine.event_dispatcher import EventDispatcher
from asl_workflow_engine.amqp_0_9_1_messaging import Message  # the real class


class FakeChannel(object):
    """Behaves like a RabbitMQ channel as far as basic_ack is concerned."""
    def __init__(self):
        self.next_tag = 1
        self.outstanding = {}   # delivery_tag -> label
        self.acks = []          # labels in ack order
        self.errors = []        # what RabbitMQ would close the channel for

    def deliver(self, label, body, **kwargs):
        """Build a Message the way Consumer.message_listener() does."""
        message = Message(body, **kwargs)
        message._channel = self
        message._delivery_tag = self.next_tag
        message._label = label
        self.outstanding[self.next_tag] = label
        self.next_tag += 1
        return message

    def basic_ack(self, delivery_tag=0, multiple=False):
        if delivery_tag not in self.outstanding:
            self.errors.append(
                "PRECONDITION_FAILED - unknown delivery tag {}".format(delivery_tag)
            )
            self.acks.append("DUPLICATE ack of tag {}".format(delivery_tag))
            return
        self.acks.append(self.outstanding.pop(delivery_tag))


class FakeTimers(object):
    """Deterministic replacement for connection.set_timeout/clear_timeout."""
    def __init__(self):
        self.now = 0
        self.timers = {}
        self.seq = 0

    def set_timeout(self, callback, delay):
        self.seq += 1
        self.timers[self.seq] = (self.now + max(delay, 0), callback)
        return self.seq

    def clear_timeout(self, timeout_id):
        self.timers.pop(timeout_id, None)

    def advance(self, ms):
        end = self.now + ms
        while True:
            due = sorted((t, i) for i, (t, cb) in self.timers.items() if t <= end)
            if not due:
                break
            t, i = due[0]
            self.now = t
            self.timers.pop(i)[1]()
        self.now = end


class FakeConsumer(object):
    name = "asl_workflow_reply_to-test"
    capacity = 0
    def set_message_listener(self, listener):
        self.listener = listener

class FakeProducer(object):
    def __init__(self):
        self.sent = []
    def set_return_callback(self, cb):
        pass
    def send(self, message, threadsafe=False):
        self.sent.append(message)

class FakeSession(object):
    def consumer(self, source=""):
        return FakeConsumer()
    def producer(self, target=""):
        return FakeProducer()


def build_engine():
    tmp = tempfile.mkdtemp()
    atexit.register(shutil.rmtree, tmp, True)
    config = {
        "event_queue": {
            "queue_name": "asl_workflow_events",
            "instance_id": "test",
            "queue_implementation": "AMQP-0.9.1",
            "connection_url": "amqp://localhost:5672",
            "orphaned_response_retention_ms": 600000,   # the default
        },
        "notifier": {"topic": "asl_workflow_engine", "message_ttl": 0},
        "state_engine": {
            "store_url": os.path.join(tmp, "ASL_store.json"),
            "execution_ttl": 86400,
        },
        "metrics": {},
    }
    state_engine = StateEngine(config)
    event_dispatcher = EventDispatcher(state_engine, config)
    timers = FakeTimers()
    # What EventDispatcher.start() does, minus the broker connection.
    event_dispatcher.set_timeout = timers.set_timeout
    event_dispatcher.clear_timeout = timers.clear_timeout
    session = FakeSession()
    state_engine.task_dispatcher.start(session)
    event_dispatcher.event_queue_producer = session.producer()
    event_dispatcher.topic_producer = session.producer()
    return state_engine, event_dispatcher, timers


def main():
    state_engine, event_dispatcher, timers = build_engine()
    td = state_engine.task_dispatcher
    channel = FakeChannel()

    """
    The engine has just been (re)started: the Task state event of a
    "arn:aws:states:local::rpcmessage:invoke.waitForTaskToken" task has not
    been redelivered yet, so there is no pending request, but both replies of
    the worker are already in the reply_to queue (the edge case described in
    the comment above "if correlation_id in self.orphaned_responses").
    """
    cid = "6d1f1f1e-0000-4000-8000-000000000001.waitForTaskToken"

    m1 = channel.deliver(
        "M1 (SendTaskSuccess callback)", b'{"answer": 42}',
        properties={"x-SendTaskSuccess": True},
        content_type="application/json", correlation_id=cid,
    )
    m2 = channel.deliver(
        "M2 (rpcmessage error reply)",
        b'{"errorType": "Boom", "errorMessage": "worker failed"}',
        content_type="application/json", correlation_id=cid,
    )

    td.handle_rpcmessage_response(m1)   # retained, retention timer set
    assert td.orphaned_responses[cid][0] is m1 and channel.acks == []
    td.handle_rpcmessage_response(m2)   # replaces M1, M1 acknowledged
    assert td.orphaned_responses[cid][0] is m2
    print("after both replies   : acks =", channel.acks)

    # Nobody claims the response: the retention period expires.
    timers.advance(600000 + 1)
    print("after retention timer: acks =", channel.acks)
    print("still unacknowledged :", sorted(channel.outstanding.values()))
    print("channel errors       :", channel.errors)
    print("orphaned_responses   :", list(td.orphaned_responses))

    problems = []
    if channel.errors:
        problems.append(
            "a delivery was acknowledged twice ({}); RabbitMQ closes the channel "
            "for that and the engine exits".format(channel.errors[0])
        )
    if channel.outstanding:
        problems.append(
            "never acknowledged: {}".format(sorted(channel.outstanding.values()))
        )
    if channel.acks.count("M1 (SendTaskSuccess callback)") != 1:
        problems.append("M1 acknowledged {} times".format(
            channel.acks.count("M1 (SendTaskSuccess callback)")))
    if problems:
        print("\nDEFECT REPRODUCED (suspicion 1):")
        for p in problems:
            print("  -", p)
        sys.exit(1)
    print("\nOK: every reply acknowledged exactly once")
    sys.exit(0)


if __name__ == "__main__":
    main()
