#!/usr/bin/env python
"""
Suspicion 4: with the Redis-backed executions store, an event that arrives for
an execution whose record is unknown makes end_execution raise
KeyError: 'stateMachineArn', because RedisDictStore.get() never returns None
(it returns an empty RedisDict), so the "recreate the lost record" block of
update_execution_history is never entered.

Run as:
  cd /tmp/bd/wt2/asl-workflow-engine/py && /venv/bin/python /tmp/bd/out/b/4/repro.py

Drives the REAL StateEngine / TaskDispatcher / EventDispatcher / store.py
(RedisStore, RedisDictStore, RedisListStore) code and the REAL
amqp_0_9_1_messaging.Message class. Only pika, the AMQP channel, the timers
and the Redis server (the "redis" and "pottery" packages, which are not
installed) are faked, in memory. Exits 1 when the defect is present.
"""
import os, sys, types, tempfile, json, atexit, shutil

os.environ.setdefault("LOG_LEVEL", "CRITICAL")
sys.path.insert(0, os.getcwd())

# ---- stub pika (not installed): only needs to be importable -----------------
pika = types.ModuleType("pika")
for sub in ("compat", "exceptions", "spec"):
    m = types.ModuleType("pika." + sub)
    setattr(pika, sub, m)
    sys.modules["pika." + sub] = m
sys.modules["pika"] = pika

from asl_workflow_engine.state_engine import StateEngine
from asl_workflow_engine.event_dispatcher import EventDispatcher
from asl_workflow_engine.amqp_0_9_1_messaging import Message  # the real class


class FakeChannel(object):
    """Behaves like a RabbitMQ channel as far as basic_ack is concerned."""
    def __init__(self):
        self.next_tag = 1
        self.outstanding = {}   # delivery_tag -> label
        self.acks = []          # labels in ack order
        self.errors = []        # what RabbitMQ would close the channel for

    def deliver(self, label, body, **kwargs):
        """Build a Message the way Consumer.message_listener() does."""
        message = Message(body, **kwargs)
        message._channel = self
        message._delivery_tag = self.next_tag
        message._label = label
        self.outstanding[self.next_tag] = label
        self.next_tag += 1
        return message

    def basic_ack(self, delivery_tag=0, multiple=False):
        if delivery_tag not in self.outstanding:
            self.errors.append(
                "PRECONDITION_FAILED - unknown delivery tag {}".format(delivery_tag)
            )
            self.acks.append("DUPLICATE ack of tag {}".format(delivery_tag))
            return
        self.acks.append(self.outstanding.pop(delivery_tag))


class FakeTimers(object):
    """Deterministic replacement for connection.set_timeout/clear_timeout."""
    def __init__(self):
        self.now = 0
        self.timers = {}
        self.seq = 0

    def set_timeout(self, callback, delay):
        self.seq += 1
        self.timers[self.seq] = (self.now + max(delay, 0), callback)
        return self.seq

    def clear_timeout(self, timeout_id):
        self.timers.pop(timeout_id, None)

    def advance(self, ms):
        end = self.now + ms
        while True:
            due = sorted((t, i) for i, (t, cb) in self.timers.items() if t <= end)
            if not due:
                break
            t, i = due[0]
            self.now = t
            self.timers.pop(i)[1]()
        self.now = end


class FakeConsumer(object):
    name = "asl_workflow_reply_to-test"
    capacity = 0
    def set_message_listener(self, listener):
        self.listener = listener

class FakeProducer(object):
    def __init__(self):
        self.sent = []
    def set_return_callback(self, cb):
        pass
    def send(self, message, threadsafe=False):
        self.sent.append(message)

class FakeSession(object):
    def consumer(self, source=""):
        return FakeConsumer()
    def producer(self, target=""):
        return FakeProducer()


def build_engine(store_url=None):
    tmp = tempfile.mkdtemp()
    atexit.register(shutil.rmtree, tmp, True)
    config = {
        "event_queue": {
            "queue_name": "asl_workflow_events",
            "instance_id": "test",
            "queue_implementation": "AMQP-0.9.1",
            "connection_url": "amqp://localhost:5672",
            "orphaned_response_retention_ms": 600000,   # the default
        },
        "notifier": {"topic": "asl_workflow_engine", "message_ttl": 0},
        "state_engine": {
            "store_url": store_url or os.path.join(tmp, "ASL_store.json"),
            "execution_ttl": 86400,
        },
        "metrics": {},
    }
    state_engine = StateEngine(config)
    event_dispatcher = EventDispatcher(state_engine, config)
    timers = FakeTimers()
    # What EventDispatcher.start() does, minus the broker connection.
    event_dispatcher.set_timeout = timers.set_timeout
    event_dispatcher.clear_timeout = timers.clear_timeout
    session = FakeSession()
    state_engine.task_dispatcher.start(session)
    event_dispatcher.event_queue_producer = session.producer()
    event_dispatcher.topic_producer = session.producer()
    return state_engine, event_dispatcher, timers




def deliver_event(event_dispatcher, channel, label, event, message_id, redelivered=False):
    """Deliver an event queue message to the real EventDispatcher.dispatch()."""
    body = event if isinstance(event, bytes) else json.dumps(event).encode("utf8")
    message = channel.deliver(
        label, body, content_type="application/json",
        message_id=message_id, redelivered=redelivered,
    )
    event_dispatcher.dispatch(message)
    return message


def pump(event_dispatcher, channel, timers=None):
    """
    Play the broker: deliver every event the engine has published to its event
    queue back to EventDispatcher.dispatch(), until the queue is empty.
    """
    n = 0
    while True:
        if timers is not None:
            timers.advance(0)   # zero delay timers (asl_state_Task uses one)
        sent = event_dispatcher.event_queue_producer.sent
        if not sent:
            return n
        published = sent.pop(0)
        n += 1
        try:
            state_name = json.loads(published.body)["context"]["State"]["Name"]
        except Exception:
            state_name = "?"
        message = channel.deliver(
            "event for state {!r} id {}".format(state_name, published.message_id),
            published.body.encode("utf8"), content_type="application/json",
            message_id=published.message_id,
        )
        event_dispatcher.dispatch(message)

# ---- in-memory stand-ins for the "redis" and "pottery" packages --------------
import fnmatch
from collections.abc import MutableMapping, MutableSequence


class FakeRedisServer(object):
    """Keyspace with hashes / lists and key expiry driven by a fake clock."""
    def __init__(self):
        self.data = {}      # key -> dict (hash) or list
        self.deadline = {}  # key -> absolute expiry time
        self.now = 0.0

    def purge(self):
        for k in [k for k, t in self.deadline.items() if t <= self.now]:
            self.data.pop(k, None)
            self.deadline.pop(k, None)
        # Redis removes hashes/lists that become empty
        for k in [k for k, v in self.data.items() if not v]:
            self.data.pop(k, None)
            self.deadline.pop(k, None)

    def tick(self, seconds):
        self.now += seconds
        self.purge()


SERVER = FakeRedisServer()


class FakeRedis(object):
    connection_pool = None

    @classmethod
    def from_url(cls, url):
        return cls()

    def ping(self):
        return True

    def info(self, section=None):
        # < 6.0.0: store.py then does not use server assisted client caching
        return {"redis_version": "5.0.7"}

    def delete(self, *keys):
        SERVER.purge()
        n = 0
        for k in keys:
            n += 1 if SERVER.data.pop(k, None) is not None else 0
            SERVER.deadline.pop(k, None)
        return n

    def exists(self, *keys):
        SERVER.purge()
        return sum(1 for k in keys if k in SERVER.data)

    def expire(self, key, ttl):
        SERVER.purge()
        if key in SERVER.data:
            SERVER.deadline[key] = SERVER.now + ttl
            return True
        return False

    def scan(self, cursor=0, match=None, count=None):
        SERVER.purge()
        keys = [k for k in SERVER.data if match is None or fnmatch.fnmatchcase(k, match)]
        return 0, [k.encode("utf-8") for k in keys]

    def execute_command(self, *args):
        return True

    def close(self):
        pass


class KeyExistsError(Exception):
    pass


class FakeRedisDict(MutableMapping):
    """pottery.RedisDict: a dict view of a Redis hash, JSON encoded fields."""
    def __init__(self, arg=tuple(), *, redis=None, key=None, **kwargs):
        self.redis = redis
        self.key = key
        if arg or kwargs:
            if redis.exists(key):
                raise KeyExistsError(key)
            self.update(arg, **kwargs)

    def _hash(self, create=False):
        SERVER.purge()
        if create:
            return SERVER.data.setdefault(self.key, {})
        return SERVER.data.get(self.key, {})

    def __getitem__(self, field):
        h = self._hash()
        f = json.dumps(field)
        if f not in h:
            raise KeyError(field)       # as pottery does (HGET returned nil)
        return json.loads(h[f])

    def __setitem__(self, field, value):
        self._hash(create=True)[json.dumps(field)] = json.dumps(value)

    def __delitem__(self, field):
        h = self._hash()
        f = json.dumps(field)
        if f not in h:
            raise KeyError(field)
        del h[f]
        SERVER.purge()

    def __iter__(self):
        return iter([json.loads(f) for f in self._hash()])

    def __len__(self):
        return len(self._hash())

    def __repr__(self):
        return "RedisDict" + repr(dict(self))


class FakeRedisList(MutableSequence):
    """pottery.RedisList: a list view of a Redis list, JSON encoded items."""
    def __init__(self, iterable=tuple(), *, redis=None, key=None):
        self.redis = redis
        self.key = key
        if iterable:
            if redis.exists(key):
                raise KeyExistsError(key)
            self.extend(iterable)

    def _list(self, create=False):
        SERVER.purge()
        if create:
            return SERVER.data.setdefault(self.key, [])
        return SERVER.data.get(self.key, [])

    def __getitem__(self, index):
        if isinstance(index, slice):
            return [json.loads(v) for v in self._list()[index]]
        return json.loads(self._list()[index])

    def __setitem__(self, index, value):
        self._list()[index] = json.dumps(value)

    def __delitem__(self, index):
        del self._list()[index]
        SERVER.purge()

    def __len__(self):
        return len(self._list())

    def insert(self, index, value):
        self._list(create=True).insert(index, json.dumps(value))


_redis = types.ModuleType("redis")
_redis.Redis = FakeRedis
_pottery = types.ModuleType("pottery")
_pottery.RedisDict = FakeRedisDict
_pottery.RedisList = FakeRedisList
sys.modules["redis"] = _redis
sys.modules["pottery"] = _pottery


ARN = "arn:aws:states:local:0123456789:stateMachine:two_steps"
ASL = {
    "StartAt": "A",
    "States": {
        "A": {"Type": "Pass", "Next": "B"},
        "B": {"Type": "Pass", "Result": "done", "End": True},
    },
}
EXECUTION_ARN = "arn:aws:states:local:0123456789:execution:two_steps:run1"


def run(store_url, lose_record):
    """
    Start an execution of ASL, process state A, make the execution record
    disappear with lose_record(state_engine), then deliver the event for the
    final state B. Returns what happened.
    """
    state_engine, event_dispatcher, timers = build_engine(store_url)
    channel = FakeChannel()
    deliver_event(
        event_dispatcher, channel, "start event (state A)",
        {"data": {}, "context": {
            "StateMachine": {"Id": ARN, "Definition": ASL},
            "Execution": {"Name": "run1"},
        }},
        message_id="22222222-0000-4000-8000-000000000001",
    )
    assert channel.acks == ["start event (state A)"]
    assert state_engine.executions[EXECUTION_ARN]["status"] == "RUNNING"
    sent = event_dispatcher.event_queue_producer.sent
    assert len(sent) == 1, "state A should have published the event for state B"

    lose_record(state_engine)
    assert EXECUTION_ARN not in state_engine.executions, "record should be unknown now"

    # Capture what dispatch() logs when it drops a message.
    dropped = []
    original_exception = event_dispatcher.logger.exception
    event_dispatcher.logger.exception = lambda msg, *a, **k: dropped.append(msg)
    try:
        pump(event_dispatcher, channel, timers)   # delivers the event for state B
    finally:
        event_dispatcher.logger.exception = original_exception

    notifications = [
        json.loads(m.body)["detail"]["status"] for m in event_dispatcher.topic_producer.sent
    ]
    record = state_engine.executions.get(EXECUTION_ARN)
    record = dict(record) if record else None
    history = [e["type"] for e in state_engine.execution_history.get(EXECUTION_ARN, [])]
    return {
        "dropped": dropped,
        "notifications": notifications,
        "status": record.get("status") if record else None,
        "history": history,
    }


def lose_simple(state_engine):
    # An engine restart: the in-memory SimpleStore starts empty.
    del state_engine.executions[EXECUTION_ARN]
    del state_engine.execution_history[EXECUTION_ARN]


def lose_redis(state_engine):
    """
    The keys executions:<arn> and execution_history:<arn> carry a TTL of
    execution_ttl seconds (86400 here). Let that much time pass on the Redis
    server: the execution outlived its record (a Redis restart without
    persistence, FLUSHDB or maxmemory eviction has the same effect).
    """
    SERVER.tick(86400 + 1)


def main():
    print("--- control: in-memory executions store (store_url = JSON file) ---")
    r = run(None, lose_simple)
    print("   dropped:", r["dropped"])
    print("   status :", r["status"], " notifications:", r["notifications"])
    print("   history:", r["history"])
    assert not r["dropped"] and r["status"] == "SUCCEEDED"
    assert r["notifications"] == ["RUNNING", "SUCCEEDED"]

    print("--- Redis backed stores (store_url = redis://...) ---")
    r = run("redis://localhost:6379", lose_redis)
    for d in r["dropped"]:
        print("   dropped:", d[:60], "...", d[d.find("caused the exception"):])
    print("   status :", r["status"], " notifications:", r["notifications"])
    print("   history:", r["history"])

    problems = []
    if r["dropped"]:
        problems.append("the event of the final state was dropped as a poison "
                        "message: " + r["dropped"][0][r["dropped"][0].find("caused the exception"):])
    if r["status"] != "SUCCEEDED":
        problems.append("execution status is {!r}, expected 'SUCCEEDED'".format(r["status"]))
    if "SUCCEEDED" not in r["notifications"]:
        problems.append("no SUCCEEDED status change notification was broadcast "
                        "(a parent waiting in startExecution.sync would hang)")
    if "ExecutionSucceeded" not in r["history"]:
        problems.append("history has no ExecutionSucceeded event: {}".format(r["history"]))
    if problems:
        print("\nDEFECT REPRODUCED (suspicion 4):")
        for p in problems:
            print("  -", p)
        sys.exit(1)
    print("\nOK: the lost record was recreated and the execution ended")
    sys.exit(0)


if __name__ == "__main__":
    main()
