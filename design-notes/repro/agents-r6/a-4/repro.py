"""
Repro for suspicion 4 - run as:
  cd <worktree>/asl-workflow-engine/py && /venv/bin/python /tmp/bd/out/a/4/repro.py
"""
"""
Minimal in-memory harness: real StateEngine + real EventDispatcher + real
TaskDispatcher; only the broker (pika), the timers and the store file are
stubbed.
"""
import sys, os, types, json, tempfile, logging, heapq, itertools

# ---- stub pika (not installed) ------------------------------------------------
_pika = types.ModuleType("pika")
_pika.exceptions = types.ModuleType("pika.exceptions")
class _E(Exception): pass
for _n in ("AMQPConnectionError", "AMQPChannelError", "ChannelClosed",
           "ChannelClosedByBroker", "ConnectionClosed", "AMQPError",
           "ChannelWrongStateError", "ConnectionWrongStateError",
           "StreamLostError", "UnroutableError", "NackError"):
    setattr(_pika.exceptions, _n, _E)
_pika.BasicProperties = lambda **kw: types.SimpleNamespace(**kw)
sys.modules["pika"] = _pika
sys.modules["pika.exceptions"] = _pika.exceptions

sys.path.insert(0, os.getcwd())
logging.disable(logging.CRITICAL)

from asl_workflow_engine.state_engine import StateEngine
from asl_workflow_engine.event_dispatcher import EventDispatcher
import asl_workflow_engine.event_dispatcher as _ed_module


class Scheduler:
    """Virtual clock replacing Connection.set_timeout/clear_timeout (pika call_later)."""
    def __init__(self):
        self.now = 0.0
        self.heap = []
        self.seq = itertools.count()
        self.cancelled = set()
    def set_timeout(self, callback, delay):
        delay = max(delay, 0)
        tid = next(self.seq)
        heapq.heappush(self.heap, (self.now + delay, tid, callback))
        return tid
    def clear_timeout(self, tid):
        self.cancelled.add(tid)
    def run_due(self, horizon_ms=0):
        """Run every timer due within horizon_ms of virtual time."""
        limit = self.now + horizon_ms
        ran = 0
        while self.heap and self.heap[0][0] <= limit:
            due, tid, cb = heapq.heappop(self.heap)
            if tid in self.cancelled:
                continue
            self.now = max(self.now, due)
            cb()
            ran += 1
        self.now = limit
        return ran


class Broker:
    """In-memory stand-in for RabbitMQ: an event queue, the rpc requests and notifications."""
    def __init__(self):
        self.events = []         # state transition events not yet delivered
        self.rpc = []            # rpcmessage requests sent to workers
        self.notifications = []  # status change notifications
        self.acked = set()
    # pika channel API used by Message.acknowledge
    def basic_ack(self, delivery_tag=0, multiple=False):
        self.acked.add(delivery_tag)


class Producer:
    def __init__(self, broker, sink):
        self.broker, self.sink = broker, sink
    def send(self, message, threadsafe=False):
        message._channel = self.broker
        message._delivery_tag = message.message_id or message.correlation_id or id(message)
        self.sink.append(message)
    def set_return_callback(self, cb):
        pass


class Engine:
    def __init__(self, execution_ttl=86400):
        self.tmp = tempfile.mkdtemp(prefix="asl_repro_")
        config = {
            "event_queue": {"queue_name": "asl_workflow_events", "instance_id": "i1",
                            "queue_implementation": "AMQP-0.9.1",
                            "connection_url": "amqp://localhost:5672",
                            "orphaned_response_retention_ms": 0},
            "notifier": {"topic": "asl_workflow_engine", "message_ttl": 1000},
            "state_engine": {"store_url": os.path.join(self.tmp, "ASL_store.json"),
                             "execution_ttl": execution_ttl},
        }
        self.broker = Broker()
        self.sched = Scheduler()
        self.se = StateEngine(config)
        self.ed = EventDispatcher(self.se, config)   # real dispatcher, loads the real Message class
        self.td = self.se.task_dispatcher
        self.Message = _ed_module.Message
        self.ed.set_timeout = self.sched.set_timeout
        self.ed.clear_timeout = self.sched.clear_timeout
        self.ed.event_queue_producer = Producer(self.broker, self.broker.events)
        self.ed.topic_producer = Producer(self.broker, self.broker.notifications)
        self.td.producer = Producer(self.broker, self.broker.rpc)
        self.td.reply_to = types.SimpleNamespace(name="asl_workflow_reply_to-i1")

    def start_execution(self, arn, definition, data, name="e1"):
        item = {"data": data,
                "context": {"StateMachine": {"Id": arn, "Definition": definition},
                            "Execution": {"Name": name}}}
        self.ed.publish(item)

    def deliver(self, index=0, raw=False):
        """Deliver one queued event to the real EventDispatcher.dispatch (or straight to notify)."""
        m = self.broker.events.pop(index)
        if raw:
            item = json.loads(m.body)
            self.ed.unacknowledged_messages[m.message_id] = m
            self.se.notify(item, m.message_id, m.redelivered)
        else:
            self.ed.dispatch(_Body(m))
        return m

    def reply(self, request, result):
        """A worker answers an rpcmessage request."""
        m = self.Message(json.dumps(result).encode("utf8"),
                         correlation_id=request.correlation_id)
        m._channel = self.broker
        m._delivery_tag = "reply-" + request.correlation_id
        self.td.handle_rpcmessage_response(m)

    def run(self, max_steps=1000, raw=False):
        """FIFO delivery + zero-delay timers until quiescent."""
        steps = 0
        while steps < max_steps:
            steps += 1
            if self.sched.run_due(0):
                continue
            if self.broker.events:
                self.deliver(0, raw=raw)
                continue
            break
        return steps

    def statuses(self):
        return [json.loads(n.body)["detail"]["status"] for n in self.broker.notifications]


class _Body:
    """Present a published Message to dispatch() as pika would (body as bytes)."""
    def __init__(self, m):
        self.__dict__.update(m.__dict__)
        self._m = m
        if isinstance(self.body, str):
            self.body = self.body.encode("utf8")
    def acknowledge(self, multiple=True, threadsafe=False):
        self._m.acknowledge(multiple=False)


# ==============================================================================
# Suspicion 4: Choice state with "Choices": [] (or no "Choices") and a Default
# ==============================================================================
ARN = "arn:aws:states:local:0123456789:stateMachine:empty_choices"


def machine(choice_state):
    return {
        "StartAt": "C",
        "States": {
            "C": choice_state,
            "D": {"Type": "Pass", "Result": {"took": "Default"}, "End": True},
        },
    }


def scenario(title, choice_state, expect_status, expect_output=None, expect_error=None):
    problems = []
    e = Engine()
    # The definition is supplied "by value" in the context, exactly like the
    # project's own tests do (no validation). CreateStateMachine in rest_api.py
    # does not validate the ASL either ("# TODO ASL Validator??").
    e.start_execution(ARN, machine(choice_state), {"a": 1})
    e.run()
    detail = json.loads(e.broker.notifications[-1].body)["detail"]
    if detail["status"] != expect_status:
        problems.append("status %s, expected %s" % (detail["status"], expect_status))
    if expect_output is not None and detail.get("output") != json.dumps(expect_output):
        problems.append("output %s, expected %s" % (detail.get("output"), json.dumps(expect_output)))
    if expect_error is not None and detail.get("error") != expect_error:
        problems.append("error %s, expected %s" % (detail.get("error"), expect_error))
    if "UnboundLocalError" in (detail.get("cause") or ""):
        problems.append("cause mentions UnboundLocalError: ..." +
                        detail["cause"][detail["cause"].index("caused the exception"):][:150])
    print("---- " + title)
    print("     status=%s error=%s output=%s" % (detail["status"], detail.get("error"), detail.get("output")))
    for p in problems:
        print("     PROBLEM: " + p)
    if not problems:
        print("     ok")
    return problems


problems = []
problems += scenario('A: "Choices": [] with Default',
                     {"Type": "Choice", "Choices": [], "Default": "D"},
                     "SUCCEEDED", {"took": "Default"})
problems += scenario('B: no "Choices" field with Default (the code does state.get("Choices", []))',
                     {"Type": "Choice", "Default": "D"},
                     "SUCCEEDED", {"took": "Default"})
problems += scenario('C: "Choices": [] without Default -> States.NoChoiceMatched',
                     {"Type": "Choice", "Choices": []},
                     "FAILED", expect_error="States.NoChoiceMatched")
problems += scenario('D: control, non-empty Choices that do not match, Default taken',
                     {"Type": "Choice", "Choices": [{"Variable": "$.a", "NumericEquals": 2, "Next": "D"}], "Default": "D"},
                     "SUCCEEDED", {"took": "Default"})

if problems:
    print("\nFAIL: a Choice state with empty/missing Choices fails with States.Runtime "
          "(UnboundLocalError: next_state) instead of taking its Default / "
          "reporting States.NoChoiceMatched")
    sys.exit(1)
print("\nPASS")
sys.exit(0)
