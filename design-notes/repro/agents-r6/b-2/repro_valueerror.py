import sys, importlib.util, json
spec = importlib.util.spec_from_file_location("r", "/verif/design-notes/repro/agents-r6/b-2/repro.py")
r = importlib.util.module_from_spec(spec); spec.loader.exec_module(r)
se, ed, timers = r.build_engine()
ch = r.FakeChannel()
arn = "arn:aws:states:local:0123456789:stateMachine:m"
ASL = {"StartAt": "M", "States": {"M": {"Type": "Map", "MaxConcurrency": 1, "ItemProcessor": {"StartAt": "P", "States": {"P": {"Type": "Pass", "End": True}}}, "End": True}}}
ev = {"data": [1, 2], "context": {"StateMachine": {"Id": arn, "Definition": ASL, "Name": "m"},
      "Execution": {"Id": "arn:aws:states:local:0123456789:execution:m:e1", "Name": "e1", "Input": [1,2], "RoleArn": "x", "StartTime": "2020-01-01T00:00:00Z"},
      "Tracer": {}, "State": {"Name": "M", "EnteredTime": "2020-01-01T00:00:00Z", "Branch": [{"ID": "g", "Range": "x:2", "Length": 2, "Parent": "M", "Input": [1,2]}]}}}
import logging
r.deliver_event(ed, ch, "ve", ev, message_id="00000000-0000-4000-8000-00000000000a")
print("acks", ch.acks)
print("unacked", list(ed.unacknowledged_messages))
sys.exit(1 if ed.unacknowledged_messages else 0)
