#!/usr/bin/env python
"""
Suspicion 2: messages that EventDispatcher.dispatch() drops in its catch-all
("poison" messages) are acknowledged, but their entry stays in
EventDispatcher.unacknowledged_messages for ever.

Run as:
  cd /tmp/bd/wt2/asl-workflow-engine/py && /venv/bin/python /tmp/bd/out/b/2/repro.py

Drives the REAL StateEngine / TaskDispatcher / EventDispatcher objects and the
REAL amqp_0_9_1_messaging.Message class. Only pika (the broker client), the
AMQP channel and the timers are faked. Exits 1 when the defect is present.
"""
import os, sys, types, tempfile, json, atexit, shutil

os.environ.setdefault("LOG_LEVEL", "CRITICAL")
sys.path.insert(0, os.getcwd())

# ---- stub pika (not installed): only needs to be importable -----------------
pika = types.ModuleType("pika")
for sub in ("compat", "exceptions", "spec"):
    m = types.ModuleType("pika." + sub)
    setattr(pika, sub, m)
    sys.modules["pika." + sub] = m
sys.modules["pika"] = pika

from asl_workflow_engine.state_engine import StateEngine
from asl_workflow_engine.event_dispatcher import EventDispatcher
from asl_workflow_engine.amqp_0_9_1_messaging import Message  # the real class


class FakeChannel(object):
    """Behaves like a RabbitMQ channel as far as basic_ack is concerned."""
    def __init__(self):
        self.next_tag = 1
        self.outstanding = {}   # delivery_tag -> label
        self.acks = []          # labels in ack order
        self.errors = []        # what RabbitMQ would close the channel for

    def deliver(self, label, body, **kwargs):
        """Build a Message the way Consumer.message_listener() does."""
        message = Message(body, **kwargs)
        message._channel = self
        message._delivery_tag = self.next_tag
        message._label = label
        self.outstanding[self.next_tag] = label
        self.next_tag += 1
        return message

    def basic_ack(self, delivery_tag=0, multiple=False):
        if delivery_tag not in self.outstanding:
            self.errors.append(
                "PRECONDITION_FAILED - unknown delivery tag {}".format(delivery_tag)
            )
            self.acks.append("DUPLICATE ack of tag {}".format(delivery_tag))
            return
        self.acks.append(self.outstanding.pop(delivery_tag))


class FakeTimers(object):
    """Deterministic replacement for connection.set_timeout/clear_timeout."""
    def __init__(self):
        self.now = 0
        self.timers = {}
        self.seq = 0

    def set_timeout(self, callback, delay):
        self.seq += 1
        self.timers[self.seq] = (self.now + max(delay, 0), callback)
        return self.seq

    def clear_timeout(self, timeout_id):
        self.timers.pop(timeout_id, None)

    def advance(self, ms):
        end = self.now + ms
        while True:
            due = sorted((t, i) for i, (t, cb) in self.timers.items() if t <= end)
            if not due:
                break
            t, i = due[0]
            self.now = t
            self.timers.pop(i)[1]()
        self.now = end


class FakeConsumer(object):
    name = "asl_workflow_reply_to-test"
    capacity = 0
    def set_message_listener(self, listener):
        self.listener = listener

class FakeProducer(object):
    def __init__(self):
        self.sent = []
    def set_return_callback(self, cb):
        pass
    def send(self, message, threadsafe=False):
        self.sent.append(message)

class FakeSession(object):
    def consumer(self, source=""):
        return FakeConsumer()
    def producer(self, target=""):
        return FakeProducer()


def build_engine(store_url=None):
    tmp = tempfile.mkdtemp()
    atexit.register(shutil.rmtree, tmp, True)
    config = {
        "event_queue": {
            "queue_name": "asl_workflow_events",
            "instance_id": "test",
            "queue_implementation": "AMQP-0.9.1",
            "connection_url": "amqp://localhost:5672",
            "orphaned_response_retention_ms": 600000,   # the default
        },
        "notifier": {"topic": "asl_workflow_engine", "message_ttl": 0},
        "state_engine": {
            "store_url": store_url or os.path.join(tmp, "ASL_store.json"),
            "execution_ttl": 86400,
        },
        "metrics": {},
    }
    state_engine = StateEngine(config)
    event_dispatcher = EventDispatcher(state_engine, config)
    timers = FakeTimers()
    # What EventDispatcher.start() does, minus the broker connection.
    event_dispatcher.set_timeout = timers.set_timeout
    event_dispatcher.clear_timeout = timers.clear_timeout
    session = FakeSession()
    state_engine.task_dispatcher.start(session)
    event_dispatcher.event_queue_producer = session.producer()
    event_dispatcher.topic_producer = session.producer()
    return state_engine, event_dispatcher, timers




def deliver_event(event_dispatcher, channel, label, event, message_id, redelivered=False):
    """Deliver an event queue message to the real EventDispatcher.dispatch()."""
    body = event if isinstance(event, bytes) else json.dumps(event).encode("utf8")
    message = channel.deliver(
        label, body, content_type="application/json",
        message_id=message_id, redelivered=redelivered,
    )
    event_dispatcher.dispatch(message)
    return message


def pump(event_dispatcher, channel, timers=None):
    """
    Play the broker: deliver every event the engine has published to its event
    queue back to EventDispatcher.dispatch(), until the queue is empty.
    """
    n = 0
    while True:
        if timers is not None:
            timers.advance(0)   # zero delay timers (asl_state_Task uses one)
        sent = event_dispatcher.event_queue_producer.sent
        if not sent:
            return n
        published = sent.pop(0)
        n += 1
        try:
            state_name = json.loads(published.body)["context"]["State"]["Name"]
        except Exception:
            state_name = "?"
        message = channel.deliver(
            "event for state {!r} id {}".format(state_name, published.message_id),
            published.body.encode("utf8"), content_type="application/json",
            message_id=published.message_id,
        )
        event_dispatcher.dispatch(message)


def main():
    state_engine, event_dispatcher, timers = build_engine()
    channel = FakeChannel()

    arn = "arn:aws:states:local:0123456789:stateMachine:simple"
    ASL = {"StartAt": "P", "States": {"P": {"Type": "Pass", "End": True}}}

    # Control: a good event is acknowledged and forgotten.
    deliver_event(
        event_dispatcher, channel, "good event",
        {"data": {}, "context": {"StateMachine": {"Id": arn, "Definition": ASL}}},
        message_id="00000000-0000-4000-8000-000000000000",
    )
    pump(event_dispatcher, channel, timers)
    assert channel.acks == ["good event"], channel.acks
    assert event_dispatcher.unacknowledged_messages == {}, "control run leaked"
    print("control (good event)  : acknowledged, unacknowledged_messages = {}")

    """
    Poison messages: valid JSON (so not the ValueError branch) that makes
    StateEngine.notify() raise, so that EventDispatcher.dispatch() ends up in
    its catch-all "except Exception" branch.
      1. the event names a state but has no $.context.Execution
         -> KeyError: 'Execution' (state_engine.py, notify:
            execution_arn = context["Execution"]["Id"])
      2. the body is a JSON array -> AttributeError: 'list' has no 'get'
      3. $.context is a string   -> AttributeError: 'str' has no 'get'
    """
    poison = [
        {"data": {}, "context": {"StateMachine": {"Id": arn}, "State": {"Name": "P"}}},
        [1, 2, 3],
        {"data": {}, "context": "oops"},
    ]
    N = len(poison)
    for i, event in enumerate(poison):
        deliver_event(
            event_dispatcher, channel, "poison#{}".format(i), event,
            message_id="00000000-0000-4000-8000-00000000000{}".format(i + 1),
        )

    leaked = event_dispatcher.unacknowledged_messages
    print("poison messages       :", N)
    print("acknowledged          :", channel.acks[1:])
    print("still on the channel  :", sorted(channel.outstanding.values()))
    print("unacknowledged_messages keys after dropping them:")
    for k, v in leaked.items():
        print("   ", k, "->", v._label)

    assert channel.acks[1:] == ["poison#{}".format(i) for i in range(N)], \
        "expected every poison message to be acknowledged (dropped)"

    if leaked:
        print("\nDEFECT REPRODUCED (suspicion 2): {} dropped (already acknowledged) "
              "message(s) are still held in EventDispatcher.unacknowledged_messages "
              "and nothing will ever remove them".format(len(leaked)))
        sys.exit(1)
    print("\nOK: dropped messages are not retained")
    sys.exit(0)


if __name__ == "__main__":
    main()
