from harness import *
import logging; logging.disable(logging.CRITICAL)
def t(label, f):
    try: print(label, '=>', f())
    except Exception as e: print(label, 'ESCAPED', type(e).__name__, e)
br={"StartAt":"X","States":{"X":{"Type":"Pass","End":True}}}
t('Parallel bad InputPath', lambda: run({"StartAt":"P","States":{"P":{"Type":"Parallel","InputPath":"foo","Branches":[br],"End":True}}}, {})[:2])
t('Parallel nondict branch', lambda: run({"StartAt":"P","States":{"P":{"Type":"Parallel","Branches":[5],"End":True}}}, {})[:2])
t('Wait bad SecondsPath type', lambda: run({"StartAt":"W","States":{"W":{"Type":"Wait","SecondsPath":"$.s","End":True}}}, {"s":"abc"})[:2])
t('Wait nanos', lambda: run({"StartAt":"W","States":{"W":{"Type":"Wait","Timestamp":"2999-01-01T00:00:00.123456789Z","End":True}}}, {})[:2])
t('Map neg MaxConcurrency', lambda: run({"StartAt":"M","States":{"M":{"Type":"Map","MaxConcurrency":-1,"ItemProcessor":br,"End":True}}}, [1,2])[:2])
t('Pass big terminal', lambda: [x[0] for x in run({"StartAt":"P","States":{"P":{"Type":"Pass","Result":"x"*300000,"End":True}}}, {})[0]])
t('StringMatches ?', lambda: run({"StartAt":"C","States":{"C":{"Type":"Choice","Choices":[{"Variable":"$.v","StringMatches":"a?c","Next":"Y"}],"Default":"N"},"Y":{"Type":"Pass","Result":"Y","End":True},"N":{"Type":"Pass","Result":"N","End":True}}}, {"v":"abc"})[0])
t('null input path', lambda: run({"StartAt":"P","States":{"P":{"Type":"Pass","InputPath":"$.a.b","End":True}}}, None)[0])
