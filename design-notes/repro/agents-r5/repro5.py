import sys, os, types, json, logging, itertools, urllib.parse

sys.path.insert(0, os.getcwd())   # run from asl-workflow-engine/py
os.environ["LOG_LEVEL"] = "CRITICAL"

# ------------------------------------------------------------------------------
# The only thing that is stubbed is the pika client library (not installed):
# the project's own AMQP binding (Connection, Message), EventDispatcher,
# StateEngine and TaskDispatcher are the real ones. The broker is replaced by
# explicit FIFO queues and a virtual-time I/O loop that the scenario steps.
# ------------------------------------------------------------------------------
pika = types.ModuleType("pika")
pika.compat = types.SimpleNamespace(urlparse=urllib.parse.urlparse)
pika.URLParameters = lambda url: types.SimpleNamespace(url=url, host="localhost", port=5672)
pika.BasicProperties = lambda **kw: types.SimpleNamespace(**kw)
pika.exceptions = types.ModuleType("pika.exceptions")
for _n in ("AMQPError", "AMQPConnectionError", "AMQPChannelError", "ChannelClosed",
           "ChannelClosedByBroker", "ConnectionClosedByBroker", "ConnectionClosed",
           "ChannelWrongStateError", "StreamLostError", "UnroutableError", "NackError"):
    setattr(pika.exceptions, _n, type(_n, (Exception,), {}))
sys.modules["pika"] = pika
sys.modules["pika.exceptions"] = pika.exceptions

from asl_workflow_engine.state_engine import StateEngine
from asl_workflow_engine.event_dispatcher import EventDispatcher
from asl_workflow_engine.amqp_0_9_1_messaging import Connection, Message

logging.disable(logging.CRITICAL)


class FakePikaChannel:
    """Records basic_ack calls by delivery tag."""
    def __init__(self):
        self.acked = []
    def basic_ack(self, delivery_tag=0, multiple=False):
        self.acked.append(delivery_tag)


class FakePikaConnection:
    """
    Stands in for pika.BlockingConnection underneath the project's Connection:
    call_later / remove_timeout / add_callback_threadsafe with the semantics
    pika documents (callbacks only ever run from the I/O loop, never from
    inside the call that registers them). Time is virtual (milliseconds).
    """
    is_open = True
    def __init__(self):
        self.now = 0.0
        self.seq = itertools.count(1)
        self.timers = {}   # handle -> (due, seq, callback)
        self.ready = []    # callbacks queued with add_callback_threadsafe

    def call_later(self, delay, callback):
        handle = next(self.seq)
        self.timers[handle] = (self.now + delay * 1000.0, handle, callback)
        return handle

    def remove_timeout(self, handle):
        self.timers.pop(handle, None)

    def add_callback_threadsafe(self, callback):
        self.ready.append(callback)

    def poll(self):
        """Run one ready callback or one due timer. True if something ran."""
        if self.ready:
            self.ready.pop(0)()
            return True
        due = sorted(v for v in self.timers.values() if v[0] <= self.now)
        if due:
            _, handle, callback = due[0]
            del self.timers[handle]
            callback()
            return True
        return False


class Broker:
    def __init__(self, execution_ttl=86400):
        self.config = {
            "event_queue": {
                "queue_name": "asl_workflow_events",
                "instance_id": "i1",
                "queue_implementation": "AMQP-0.9.1",   # the blocking (non asyncio) binding
                "connection_url": "amqp://localhost:5672",
                "orphaned_response_retention_ms": 600000,
            },
            "notifier": {"topic": "asl_workflow_engine", "message_ttl": 60000},
            "state_engine": {"store_url": "ASL_store.json", "execution_ttl": execution_ttl},
            "rest_api": {"host": "0.0.0.0", "port": 4584, "region": "local"},
            "metrics": {},
        }
        self.engine = StateEngine(self.config)
        self.ed = EventDispatcher(self.engine, self.config)
        self.td = self.engine.task_dispatcher

        # What EventDispatcher.start() does, minus opening sockets.
        self.connection = Connection(self.config["event_queue"]["connection_url"])
        self.io = FakePikaConnection()
        self.connection.connection = self.io
        self.ed.set_timeout = self.connection.set_timeout
        self.ed.clear_timeout = self.connection.clear_timeout

        self.channel = FakePikaChannel()
        self.tags = itertools.count(1)
        self.event_queue = []     # state transition events waiting on the (FIFO) event queue
        self.delivered = {}       # delivery tag -> delivered event message
        self.rpc_requests = []    # requests sent to rpcmessage workers
        self.replies = {}         # delivery tag -> worker reply message
        self.notifications = []   # bodies broadcast on the notification topic

        b = self
        class EventProducer:
            def send(self, message, threadsafe=False):
                b.event_queue.append(message)
        class TopicProducer:
            def send(self, message, threadsafe=False):
                b.notifications.append(json.loads(message.body))
        class RpcProducer:
            def send(self, message, threadsafe=False):
                b.rpc_requests.append(message)
        self.ed.event_queue_producer = EventProducer()
        self.ed.topic_producer = TopicProducer()
        self.td.producer = RpcProducer()
        self.td.reply_to = types.SimpleNamespace(name="asl_workflow_reply_to-i1")

    # ---- I/O loop -----------------------------------------------------------
    def deliver_next(self):
        """Deliver the message at the head of the event queue to the engine."""
        message = self.event_queue.pop(0)
        tag = next(self.tags)
        message._channel = self.channel
        message._delivery_tag = tag
        if isinstance(message.body, str):
            message.body = message.body.encode("utf8")
        self.delivered[tag] = message
        self.ed.dispatch(message)
        return tag

    def tick(self):
        """Run the ready callbacks and due timers (no message delivery)."""
        while self.io.poll():
            pass

    def run(self):
        """Callbacks, due timers and FIFO event delivery until nothing is left."""
        for _ in range(100000):
            if self.io.poll():
                continue
            if self.event_queue:
                self.deliver_next()
                continue
            return
        raise AssertionError("engine did not quiesce")

    def advance(self, ms):
        """Let virtual time pass, running everything that becomes due on the way."""
        target = self.io.now + ms
        while True:
            self.run()
            upcoming = sorted(v[0] for v in self.io.timers.values() if v[0] <= target)
            if not upcoming:
                break
            self.io.now = max(self.io.now, upcoming[0])
        self.io.now = target
        self.run()

    # ---- actors ---------------------------------------------------------------
    def start_execution(self, asl, data, name="exec1", sm="sm1"):
        sm_arn = "arn:aws:states:local:0123456789:stateMachine:" + sm
        context = {"StateMachine": {"Id": sm_arn, "Definition": asl},
                   "Execution": {"Name": name}}
        m = Message(json.dumps({"data": data, "context": context}),
                    content_type="application/json")
        m.message_id = "start-" + name
        self.event_queue.append(m)
        return "arn:aws:states:local:0123456789:execution:" + sm + ":" + name

    def requests_for(self, function):
        return [m for m in self.rpc_requests if m.subject == function]

    def reply(self, request, result):
        """The rpcmessage worker answers a request on the engine's reply_to queue."""
        tag = next(self.tags)
        m = Message(json.dumps(result).encode("utf8"),
                    content_type="application/json",
                    correlation_id=request.correlation_id)
        m._channel = self.channel
        m._delivery_tag = tag
        self.replies[tag] = m
        self.td.handle_rpcmessage_response(m)
        return tag

    # ---- observations -----------------------------------------------------------
    def history(self, execution_arn):
        return [h["type"] for h in self.engine.execution_history[execution_arn]]

    def statuses(self, execution_arn):
        return [n["detail"]["status"] for n in self.notifications
                if n["detail"]["executionArn"] == execution_arn]

    def leftovers(self):
        """Everything that must be empty once an execution is over and quiet."""
        state = {
            "unacknowledged event messages":
                sorted(t for t in self.delivered if t not in self.channel.acked),
            "unacknowledged reply messages":
                sorted(t for t in self.replies if t not in self.channel.acked),
            "EventDispatcher.unacknowledged_messages": list(self.ed.unacknowledged_messages),
            "StateEngine.branch_metadata": list(self.engine.branch_metadata),
            "TaskDispatcher.pending_requests": list(self.td.pending_requests),
            "TaskDispatcher.cancellers": list(self.td.cancellers),
            "queued events": len(self.event_queue),
        }
        return {k: v for k, v in state.items() if v}


def fn(name):
    return "arn:aws:rpcmessage:local::function:" + name

def task(name, **kw):
    state = {"Type": "Task", "Resource": fn(name)}
    state.update(kw)
    if "Next" not in state:
        state["End"] = True
    return state

TERMINAL = ("ExecutionSucceeded", "ExecutionFailed", "ExecutionAborted", "ExecutionTimedOut")

def check(condition, message):
    if not condition:
        print("PROPERTY C06 VIOLATED: " + message)
        sys.exit(1)

def check_ended_once(b, arn, expected_status):
    history = b.history(arn)
    terminal = [i for i, t in enumerate(history) if t in TERMINAL]
    check(len(terminal) == 1,
          "execution has {} terminal history events: {}".format(len(terminal), history))
    check(terminal[0] == len(history) - 1,
          "history was added after the terminal event: {}".format(history[terminal[0]:]))
    check(b.statuses(arn) == ["RUNNING", expected_status],
          "notifications were {} (expected RUNNING then {} exactly once)".format(
              b.statuses(arn), expected_status))

def check_quiescent(b):
    left = b.leftovers()
    check(not left, "engine is not clean at quiescence: {}".format(left))

ERR = {"errorType": "Boom", "errorMessage": "bang"}


def par(*branches, **kw):
    state = {"Type": "Parallel", "Branches": list(branches)}
    state.update(kw)
    if "Next" not in state:
        state["End"] = True
    return state

def br(start, **states):
    return {"StartAt": start, "States": states}

PASS = lambda **kw: dict({"Type": "Pass"}, **kw)

def check_nothing_after_terminal(b, arn):
    history = b.history(arn)
    terminal = [i for i, t in enumerate(history) if t in TERMINAL]
    check(len(terminal) >= 1, "execution never reached a terminal event: {}".format(history))
    check(terminal[0] == len(history) - 1,
          "[clause: nothing a sibling does afterwards adds history / history after the "
          "terminal event] history after {}: {}".format(history[terminal[0]], history[terminal[0] + 1:]))

# ------------------------------------------------------------------------------
# BASELINE VIOLATION 5 - retrying a Parallel/Map state that is itself nested in
# a branch cancels the healthy Tasks of the OUTER fan-out's other branches; the
# outer Parallel state dies silently and the execution never ends.
# ------------------------------------------------------------------------------
ASL = {"StartAt": "P1", "States": {
    "P1": par(br("A", A=task("fa")),
              br("P2", P2=par(br("C", C=task("fc")), br("D", D=task("fd")),
                              Retry=[{"ErrorEquals": ["States.ALL"], "IntervalSeconds": 1, "MaxAttempts": 2}])))}}

b = Broker()
arn = b.start_execution(ASL, {})
b.run()
fa = b.requests_for("fa")[0]
b.reply(b.requests_for("fc")[0], ERR)      # inner P2 fails and is retried; P1 has NOT failed
b.run()
violations = []
if fa.correlation_id not in b.td.pending_requests:
    violations.append("[clause: the failing branch fails ITS Parallel/Map (subject to its own Retry); only its own "
                      "siblings are cancelled] P2's retry cancelled branch A of the outer P1, whose Task was healthy")
b.advance(2000)                            # retried P2 runs
b.reply(b.requests_for("fc")[1], {"c": 1}); b.run()
b.reply(b.requests_for("fd")[1], {"d": 1}); b.run()
b.reply(fa, {"a": 1}); b.run()             # every worker has now answered successfully
b.advance(700000)
if not any(t in TERMINAL for t in b.history(arn)) or len(b.statuses(arn)) != 2:
    violations.append("[clause: the execution still ends exactly once] all workers answered but the execution "
                      "never ended: notifications={} history tail={}".format(b.statuses(arn), b.history(arn)[-4:]))
if b.leftovers():
    violations.append("[clause: engine dictionaries at quiescence] {}".format(b.leftovers()))
check(not violations, "\n  " + "\n  ".join(violations))
print("OK")
