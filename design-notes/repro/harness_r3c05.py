"""
Shared exploration harness (inlined into each demo later).
Queue based event dispatcher stub: publish() enqueues, the test decides which
queued event is delivered next. Task replies and timers are held and fired
under test control.
"""
import sys, os, json, tempfile, logging
sys.path.insert(0, os.getcwd())
os.environ.setdefault("LOG_LEVEL", "ERROR")

from asl_workflow_engine.state_engine import StateEngine


class QueueDispatcher(object):
    def __init__(self, state_engine):
        self.state_engine = state_engine
        state_engine.event_dispatcher = self
        self.queue = []            # [(id, json string)]
        self.unacknowledged_messages = {}
        self.acked = []
        self.count = 0
        self.timers = []           # [(callback, delay)]
        self.notifications = []
        self.delivered = []        # [(id, event)]

    # --- API used by the engine
    def set_timeout(self, callback, delay):
        handle = [callback, delay, True]
        self.timers.append(handle)
        return handle

    def clear_timeout(self, handle):
        if handle:
            handle[2] = False

    def acknowledge(self, id):
        self.acked.append(id)
        self.unacknowledged_messages.pop(id, None)

    def publish(self, item, threadsafe=False, use_shared_queue=False):
        self.count += 1
        self.queue.append(("m%d" % self.count, json.dumps(item)))

    def broadcast(self, subject, message, carrier_properties=None):
        self.notifications.append(json.loads(json.dumps(message)))

    # --- test control
    def run_timers(self, max_delay=0):
        """Fire every live timer whose delay is <= max_delay (zero delay
        timers are the Task/Map/Parallel 'delegate' trampolines)."""
        fired = True
        while fired:
            fired = False
            for handle in list(self.timers):
                if handle[2] and handle[1] <= max_delay:
                    handle[2] = False
                    self.timers.remove(handle)
                    handle[0]()
                    fired = True

    def deliver(self, index=0, redelivered=False):
        id, body = self.queue.pop(index)
        event = json.loads(body)
        self.unacknowledged_messages[id] = body
        self.delivered.append((id, event))
        self.state_engine.notify(event, id, redelivered)
        self.run_timers()
        return id, event

    def drain(self, pick=None):
        """Deliver queued events until the queue is empty. pick(queue) returns
        the index of the event to deliver next (default FIFO)."""
        n = 0
        while self.queue:
            self.deliver(pick(self.queue) if pick else 0)
            n += 1
            assert n < 10000
        return n

    def start(self, data, state_machine_arn, definition=None, name="exec"):
        context = {"StateMachine": {"Id": state_machine_arn}}
        if definition is not None:
            context["StateMachine"]["Definition"] = definition
        self.publish({"data": data, "context": context})


class HeldTasks(object):
    """Replacement for TaskDispatcher.execute_task that records each request
    and lets the test reply to them in any order."""
    def __init__(self, state_engine):
        self.requests = []   # dicts
        self.state_engine = state_engine
        state_engine.task_dispatcher.execute_task = self.execute_task

    def execute_task(self, resource_arn, parameters, callback, timeout,
                     is_task_timeout, context, event_id, redelivered):
        self.requests.append({
            "resource": resource_arn.split(":")[-1],
            "parameters": parameters,
            "callback": callback,
            "event_id": event_id,
            "context": json.loads(json.dumps(context)),
            "done": False,
        })

    def pending(self):
        return [r for r in self.requests if not r["done"]]

    def reply(self, request, result):
        request["done"] = True
        request["callback"](result)
        self.state_engine.event_dispatcher.run_timers()


def make_engine():
    tmp = tempfile.mkdtemp()
    config = {"state_engine": {"store_url": os.path.join(tmp, "ASL_store.json"),
                               "execution_ttl": 500}}
    engine = StateEngine(config)
    dispatcher = QueueDispatcher(engine)
    return engine, dispatcher


def final(dispatcher):
    """Return (status, output) of the last execution notification."""
    for n in reversed(dispatcher.notifications):
        d = n["detail"]
        if d["status"] != "RUNNING":
            out = d.get("output")
            return d["status"], (json.loads(out) if out else None), d
    return None, None, None
