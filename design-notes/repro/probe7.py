from harness import *
import logging; logging.disable(logging.CRITICAL)
r=run({"StartAt":"P","States":{"P":{"Type":"Parallel","Branches":[],"End":True}}}, {})
print('empty Branches:', r[0], list(r[1]))
import sys
from statelint.statelint import StateLint
print('statelint empty Branches:', StateLint().validate({"StartAt":"P","States":{"P":{"Type":"Parallel","Branches":[],"End":True}}}))
br={"StartAt":"X","States":{"X":{"Type":"Pass","End":True}}}
print('statelint neg MaxConcurrency:', StateLint().validate({"StartAt":"M","States":{"M":{"Type":"Map","MaxConcurrency":-1,"ItemProcessor":br,"End":True}}}))
