"""
Deterministic single-threaded simulation harness that drives the REAL
StateEngine, TaskDispatcher, EventDispatcher (and optionally the real asyncio
RestAPI via the Quart test client) on top of an in-memory fake messaging
module. No broker, no pika, no redis, no network, no real sleeping.

The fake messaging module is registered as asl_workflow_engine.sim_messaging
and selected with queue_implementation "sim" so that the EventDispatcher's
own connection factory loads it and publishes its Message class.
"""
import sys, os, types, json, tempfile, asyncio, logging

sys.path.insert(0, os.getcwd())  # run from asl-workflow-engine/py

os.environ.setdefault("LOG_LEVEL", "CRITICAL")


class Message(object):
    def __init__(self, body="", properties=None, content_type=None,
                 content_encoding=None, redelivered=False, durable=True,
                 mandatory=False, priority=None, correlation_id=None,
                 reply_to=None, expiration=None, message_id=None,
                 timestamp=None, type=None, user_id=None, app_id=None,
                 cluster_id=None, subject=None):
        self.body = body
        self.properties = {} if properties is None else properties
        self.content_type = content_type
        self.redelivered = redelivered
        self.mandatory = mandatory
        self.correlation_id = correlation_id
        self.reply_to = reply_to
        self.expiration = expiration
        self.message_id = message_id
        self.acknowledged = 0
        if subject:
            self.subject = subject

    @property
    def subject(self):
        return self.properties.get("x-amqp-0-9-1.subject")

    @subject.setter
    def subject(self, subject):
        if subject:
            self.properties["x-amqp-0-9-1.subject"] = subject

    def acknowledge(self, multiple=True, threadsafe=False):
        self.acknowledged += 1

    def __repr__(self):
        return "Message(subject=%r, correlation_id=%r, body=%r)" % (
            self.subject, self.correlation_id, self.body)


class Connection(object):  # Never used, the harness wires things directly.
    def __init__(self, url=""):
        pass


_mod = types.ModuleType("asl_workflow_engine.sim_messaging")
_mod.Message = Message
_mod.Connection = Connection
sys.modules["asl_workflow_engine.sim_messaging"] = _mod

from asl_workflow_engine.state_engine import StateEngine
from asl_workflow_engine.event_dispatcher import EventDispatcher

logging.disable(logging.CRITICAL)


class _Producer(object):
    def __init__(self, sim):
        self.sim = sim
        self.return_callback = None

    def set_return_callback(self, cb):
        self.return_callback = cb

    def send(self, message, threadsafe=False):
        self.sim.inflight.append((self, message))


class _ReplyTo(object):
    def __init__(self, name):
        self.name = name


class Sim(object):
    """One ASL engine instance plus an in-memory "broker"."""

    def __init__(self, instance_id="sim"):
        fd, self.store_path = tempfile.mkstemp(suffix=".json")
        os.close(fd)
        os.remove(self.store_path)
        self.config = {
            "event_queue": {
                "queue_name": "asl_workflow_events",
                "instance_id": instance_id,
                "queue_implementation": "sim",
                "connection_url": "amqp://localhost:5672",
                "orphaned_response_retention_ms": 0,
            },
            "notifier": {"topic": "asl_workflow_engine", "message_ttl": 0},
            "state_engine": {"store_url": self.store_path, "execution_ttl": 86400},
            "rest_api": {"host": "0.0.0.0", "port": 4584, "region": "local"},
        }
        self.now = 0.0
        self.timers = []  # [id, due, callback]
        self.timer_seq = 0
        self.inflight = []  # (producer, message) FIFO
        self.workers = {}   # queue name -> callable(sim, message)
        self.notifications = []
        self.held = []      # reply messages held back by tests

        self.se = StateEngine(self.config)
        self.ed = EventDispatcher(self.se, self.config)
        self.td = self.se.task_dispatcher

        self.ed.set_timeout = self.set_timeout
        self.ed.clear_timeout = self.clear_timeout
        self.ed.event_queue_producer = _Producer(self)
        self.ed.topic_producer = _Producer(self)
        self.td.reply_to = _ReplyTo(self.td.reply_to_queue_name)
        self.td.producer = _Producer(self)
        self.td.producer.set_return_callback(self.td.handle_unroutable_rpcmessage)

    # ------------------------------------------------------------- timers
    def set_timeout(self, callback, delay):
        self.timer_seq += 1
        self.timers.append([self.timer_seq, self.now + float(delay), callback])
        return self.timer_seq

    def clear_timeout(self, timeout_id):
        self.timers = [t for t in self.timers if t[0] != timeout_id]

    # ------------------------------------------------------------- broker
    def _deliver(self, producer, message):
        subject = message.subject
        body = message.body
        if isinstance(body, str):
            body = body.encode("utf8")
        delivered = Message(
            body, properties=dict(message.properties),
            correlation_id=message.correlation_id, reply_to=message.reply_to,
            message_id=message.message_id, expiration=message.expiration,
        )
        if producer is self.ed.topic_producer:
            self.notifications.append(json.loads(body.decode("utf8")))
        elif subject in (self.ed.queue_name, self.ed.instance_queue_name):
            self.ed.dispatch(delivered)
        elif subject == self.td.reply_to.name:
            self.td.handle_rpcmessage_response(delivered)
        elif subject in self.workers:
            self.workers[subject](self, delivered)
        elif message.mandatory and producer.return_callback:
            producer.return_callback(delivered)
        # else silently dropped like an unroutable non-mandatory message

    def run(self):
        """Run until no deliveries and no timers due at the current time."""
        while True:
            if self.inflight:
                producer, message = self.inflight.pop(0)
                self._deliver(producer, message)
                continue
            due = [t for t in self.timers if t[1] <= self.now]
            if due:
                t = min(due, key=lambda t: (t[1], t[0]))
                self.timers.remove(t)
                t[2]()
                continue
            break

    def advance(self, ms):
        """Advance virtual time firing timers in due order."""
        target = self.now + ms
        self.run()
        while True:
            pending = [t for t in self.timers if t[1] <= target]
            if not pending:
                break
            t = min(pending, key=lambda t: (t[1], t[0]))
            self.now = max(self.now, t[1])
            self.run()
        self.now = target
        self.run()

    # ------------------------------------------------------------ helpers
    def reply(self, request, body, properties=None):
        """Send an rpcmessage style reply to the given request message."""
        if not isinstance(body, str):
            body = json.dumps(body)
        m = Message(body, properties=properties, subject=request.reply_to,
                    correlation_id=request.correlation_id)
        self.td.producer.send(m)

    def create_state_machine(self, name, definition, type="STANDARD"):
        arn = "arn:aws:states:local:0123456789:stateMachine:" + name
        self.se.asl_store[arn] = {
            "creationDate": 0, "definition": definition, "name": name,
            "roleArn": "arn:aws:iam::0123456789:role/dummy", "stateMachineArn": arn,
            "updateDate": 0, "status": "ACTIVE", "type": type,
        }
        return arn

    def start_execution(self, state_machine_arn, name, data):
        name_part = state_machine_arn.split(":")[-1]
        arn = "arn:aws:states:local:0123456789:execution:%s:%s" % (name_part, name)
        event = {"data": data, "context": {
            "Execution": {"Id": arn, "Name": name, "Input": data},
            "State": {"Name": ""},
            "StateMachine": {"Id": state_machine_arn, "Name": name_part},
        }}
        self.ed.publish(event, use_shared_queue=True)
        return arn

    def status(self, execution_arn):
        return self.se.executions[execution_arn]["status"]

    def history_types(self, execution_arn):
        return [e["type"] for e in self.se.execution_history[execution_arn]]

    # ----------------------------------------------------------- REST API
    def rest_client(self):
        from asl_workflow_engine.rest_api_asyncio import RestAPI
        self.rest_api = RestAPI(self.se, self.ed, self.config)
        return self.rest_api.create_app().test_client()

    def api(self, client, action, params):
        async def call():
            resp = await client.post(
                "/", data=json.dumps(params),
                headers={"Content-Type": "application/x-amz-json-1.0",
                         "x-amz-target": "AWSStepFunctions." + action})
            return resp.status_code, (await resp.get_data()).decode("utf8")
        result = asyncio.run(call())
        self.run()
        return result

    def close(self):
        try:
            os.remove(self.store_path)
        except OSError:
            pass


# ============================================================================
# Scenario for change B: a worker reports failure of a .waitForTaskToken Task
# through SendTaskFailure giving only the token and a cause (the "error" name
# is optional in the AWS API). A SendTaskFailure call may be refused, or it
# may fail the Task - it must never make the Task SUCCEED, and the Task must
# only ever complete with exactly the supplied output or error.
# ============================================================================


def check(cond, text):
    if not cond:
        print("FAIL:", text)
        sys.exit(1)
    print("ok:", text)


def build(sim):
    machine = sim.create_state_machine("review", {
        "StartAt": "Review",
        "States": {
            "Review": {
                "Type": "Task",
                "Resource": "arn:aws:states:local::rpcmessage:invoke.waitForTaskToken",
                "Parameters": {
                    "FunctionName": "arn:aws:rpcmessage:local::function:reviewer",
                    "Payload": {"token.$": "$$.Task.Token"},
                },
                "Next": "Ship",
            },
            "Ship": {"Type": "Pass", "Result": "SHIPPED", "End": True},
        }})
    return machine


def token_of(request):
    return json.loads(request.body.decode("utf8"))["token"]


# ---- Control: SendTaskFailure with error and cause fails the Task with them.
sim = Sim()
client = sim.rest_client()
machine = build(sim)
reqs = []
sim.workers["reviewer"] = lambda s, m: reqs.append(m)
e = sim.start_execution(machine, "e0", {})
sim.run()
code, body = sim.api(client, "SendTaskFailure",
                     {"taskToken": token_of(reqs[0]), "error": "Rejected", "cause": "typo on page 3"})
check(code == 200, "control: SendTaskFailure accepted")
out = sim.se.executions[e]
check(sim.status(e) == "FAILED" and out.get("error") == "Rejected" and
      out.get("cause", "").endswith("typo on page 3"),
      "control: Task failed with exactly the supplied error/cause: %r %r" % (out.get("error"), out.get("cause")))
check("TaskSucceeded" not in sim.history_types(e), "control: no TaskSucceeded in history")
sim.close()


# ---- SendTaskFailure carrying the token and a cause only (no error name).
sim = Sim()
client = sim.rest_client()
machine = build(sim)
reqs = []
sim.workers["reviewer"] = lambda s, m: reqs.append(m)
e = sim.start_execution(machine, "e1", {})
sim.run()
check(sim.status(e) == "RUNNING" and len(reqs) == 1, "Task is waiting for its callback")
token = token_of(reqs[0])
code, body = sim.api(client, "SendTaskFailure", {"taskToken": token, "error": "", "cause": "reviewer said no"})
print("note: SendTaskFailure without error name -> HTTP %s %s" % (code, body))
history = sim.history_types(e)
check("TaskSucceeded" not in history,
      "a SendTaskFailure call did not make the Task succeed (history %r)" % history)
check("PassStateEntered" not in history or sim.se.executions[e]["output"] != json.dumps("SHIPPED"),
      "execution did not take the success path")
if code == 200:
    check("TaskFailed" in history, "accepted SendTaskFailure failed the Task")
else:
    check(sim.status(e) == "RUNNING" and len(sim.td.pending_requests) == 1,
          "refused SendTaskFailure left the Task waiting, untouched")
    # ... and the Task is still completable, exactly once, with its token.
    code, body = sim.api(client, "SendTaskFailure",
                         {"taskToken": token, "error": "Rejected", "cause": "reviewer said no"})
    check(code == 200, "proper SendTaskFailure accepted afterwards")
    out = sim.se.executions[e]
    check(sim.status(e) == "FAILED" and out.get("error") == "Rejected" and
          out.get("cause", "").endswith("reviewer said no"),
          "Task failed with exactly the supplied error/cause: %r %r" % (out.get("error"), out.get("cause")))
check(sim.se.executions[e]["output"] != json.dumps("SHIPPED"), "nothing was shipped")
sim.close()

print("PASS")
