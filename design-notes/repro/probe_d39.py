import sys; sys.path.insert(0,'/verif/design-notes/repro')
from harness import *
import logging; logging.disable(logging.CRITICAL)
br=lambda n,res: {"StartAt":n,"States":{n:{"Type":"Pass","Result":res,"End":True}}}
M=lambda: {"StartAt":"M","States":{"M":{"Type":"Map","Iterator":{"StartAt":"X","States":{"X":{"Type":"Pass","OutputPath":"$.v","End":True}}},"End":True}}}
for name, asl, inp in (("parallel null branch", {"StartAt":"P","States":{"P":{"Type":"Parallel","Branches":[br("A",None), br("B",1)],"End":True}}}, {}),
                  ("parallel ok", {"StartAt":"P","States":{"P":{"Type":"Parallel","Branches":[br("A",0), br("B",1)],"End":True}}}, {}),
                  ("map null output", M(), [{"v":None},{"v":2}]),
                  ("map ok", M(), [{"v":1},{"v":2}])):
    try:
        r=run(asl, inp); print(name, '=>', r[0])
    except Exception as e: print(name, 'RAISED', type(e).__name__, e)
