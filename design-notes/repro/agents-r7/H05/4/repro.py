#!/usr/bin/env python
"""
C10: "duplicates and unknown ARNs [and invalid arguments] are refused with the
documented error type, updates change only the fields supplied ..., a request that
is answered with an error leaves every stored record exactly as it was".

CreateStateMachine refuses a definition whose JSON value is empty/falsy ("{}",
"null", "[]", "0", "false", '""') - the engine treats such a definition as "State
Machine does not exist". UpdateStateMachine does not:

  UpdateStateMachine(stateMachineArn, roleArn=<valid>, definition="{}")  -> 200
      the stored definition is REPLACED by {} : the state machine is destroyed,
      StartExecution still answers 200 but the start event is dropped
      ("State Machine ... does not exist") and the execution never exists.
  (UpdateStateMachine(stateMachineArn, definition="{}") alone is refused, with
   MissingRequiredParameter "either roleArn or definition must be specified" -
   the parsed value is what is tested, which is also why the pair gets through.)

Both HTTP front ends (validate_asl not configured, which is the shipped config).

Run as:
  cd <worktree>/asl-workflow-engine/py && /venv/bin/python /tmp/r7/hout/H05/4/repro.py
Exits 1 on the unchanged tree, 0 once the update is refused (InvalidDefinition)
and the record left alone.
"""
import sys, os
sys.path.insert(0, os.getcwd())
import json, asyncio, tempfile, logging, copy
from unittest import mock

from asl_workflow_engine import event_dispatcher
event_dispatcher.Message = mock.MagicMock()
from asl_workflow_engine.state_engine import StateEngine
from asl_workflow_engine.rest_api import RestAPI as BlockingRestAPI
from asl_workflow_engine.rest_api_asyncio import RestAPI as AsyncioRestAPI
logging.disable(logging.CRITICAL)


class EventDispatcherStub(object):
    """Stands in for the AMQP event dispatcher: delivers published events
    straight to the real StateEngine, runs zero delay timers at once."""
    def __init__(self, state_engine):
        self.state_engine = state_engine
        state_engine.event_dispatcher = self
        self.session = mock.MagicMock()
        self.count = 0
        self.queue = []
    def set_timeout(self, callback, delay):
        if delay == 0:
            callback()
        return None
    def clear_timeout(self, timeout_id):
        pass
    def acknowledge(self, id):
        pass
    def publish(self, item, threadsafe=False, use_shared_queue=False, **kwargs):
        self.queue.append(json.loads(json.dumps(item)))
        while self.queue:
            event = self.queue.pop(0)
            self.count += 1
            self.state_engine.notify(event, "event-%d" % self.count)
    def broadcast(self, subject, message, carrier_properties=None):
        pass


def make(front_end):
    tmp = tempfile.mkdtemp()
    config = {
        "state_engine": {"store_url": os.path.join(tmp, "ASL_store.json"),
                         "execution_ttl": 500},
        "rest_api": {"region": "local"},
    }
    state_engine = StateEngine(config)
    dispatcher = EventDispatcherStub(state_engine)
    cls = AsyncioRestAPI if front_end == "asyncio" else BlockingRestAPI
    client = cls(state_engine, dispatcher, config).create_app().test_client()

    def call(action, params):
        headers = {"Content-Type": "application/x-amz-json-1.0",
                   "x-amz-target": "AWSStepFunctions." + action}
        body = json.dumps(params)
        if front_end == "asyncio":
            async def go():
                r = await client.post("/", data=body, headers=headers)
                return r.status_code, (await r.get_data()).decode()
            status, text = asyncio.run(go())
        else:
            r = client.post("/", data=body, headers=headers)
            status, text = r.status_code, r.get_data().decode()
        try:
            return status, json.loads(text)
        except ValueError:
            return status, text
    return state_engine, call


ROLE = "arn:aws:iam::0123456789:role/service-role/MyRole"
ROLE2 = "arn:aws:iam::0123456789:role/service-role/OtherRole"
ASL = json.dumps({"StartAt": "A", "States": {"A": {"Type": "Pass", "End": True}}})
SM = "arn:aws:states:local:0123456789:stateMachine:sm"
EMPTY = ["{}", "null", "[]", "0", "false", '""']

problems = []
for front_end in ("asyncio", "blocking"):
    for text in EMPTY:
        state_engine, call = make(front_end)

        # CreateStateMachine refuses it ...
        status, body = call("CreateStateMachine", {"name": "x", "roleArn": ROLE, "definition": text})
        assert status == 400, (front_end, text, status, body)
        create_error = body["__type"]

        status, body = call("CreateStateMachine", {"name": "sm", "roleArn": ROLE, "definition": ASL})
        assert status == 200
        status, body = call("StartExecution", {"stateMachineArn": SM, "name": "before", "input": "{}"})
        assert status == 200
        assert state_engine.executions[body["executionArn"]]["status"] == "SUCCEEDED"
        before = copy.deepcopy(state_engine.asl_store[SM])

        # ... UpdateStateMachine with only the definition: must be refused, record untouched
        status, body = call("UpdateStateMachine", {"stateMachineArn": SM, "definition": text})
        if status == 200:
            problems.append("[%s] UpdateStateMachine(definition=%r) -> 200 (Create answers %s)"
                            % (front_end, text, create_error))
        if state_engine.asl_store[SM] != before:
            problems.append("[%s]   and the record changed" % front_end)
        before = copy.deepcopy(state_engine.asl_store[SM])

        # ... UpdateStateMachine with a role as well: accepted, definition wiped out
        status, body = call("UpdateStateMachine",
                            {"stateMachineArn": SM, "roleArn": ROLE2, "definition": text})
        after = state_engine.asl_store[SM]
        if status == 200:
            described = call("DescribeStateMachine", {"stateMachineArn": SM})[1]
            problems.append("[%s] UpdateStateMachine(roleArn, definition=%r) -> 200; DescribeStateMachine now "
                            "returns definition=%r" % (front_end, text, described["definition"]))
            status, body = call("StartExecution", {"stateMachineArn": SM, "name": "after", "input": "{}"})
            exists = body.get("executionArn") in state_engine.executions if status == 200 else None
            problems.append("[%s]   StartExecution -> %s, execution record exists: %s" % (front_end, status, exists))
        elif after != before:
            problems.append("[%s] UpdateStateMachine(roleArn, definition=%r) -> %s %s but the record changed"
                            % (front_end, text, status, body.get("__type")))

if problems:
    print("DEFECT (C10): UpdateStateMachine accepts a definition that CreateStateMachine "
          "refuses and destroys the state machine\n")
    print("\n".join(problems))
    sys.exit(1)
print("OK: empty definitions are refused by UpdateStateMachine and the record is untouched")
sys.exit(0)
