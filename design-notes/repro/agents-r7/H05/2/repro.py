#!/usr/bin/env python
"""
C17: "Names that would break these round trips are refused" / "The execution ARN
returned by StartExecution always identifies the state machine that runs it".
C10: "a created definition is described back unchanged ... deletes are visible".

valid_name() forbids ':' '/' ' ' etc. with   re.search(r"^.*[ <>{}...:/].*$", name)
'.' does not match a newline and '^' only matches at the start of the string, so
every forbidden character that comes AFTER a newline is accepted, by both HTTP
front ends, for state machine names and for execution names.

  * CreateStateMachine name="bad\n:x" -> 200, mints "...:stateMachine:bad\n:x".
    That ARN is refused as InvalidArn by Describe/Update/Delete/StartExecution:
    the machine is listed for ever and can never be read, changed or deleted.
  * StartExecution name="e1\n:zz" on an EXPRESS machine "ex" -> 200 with
    "...:execution:ex:e1\n:zz". When the execution ends the state machine ARN is
    re-derived by splitting at the last ':' -> the SUCCEEDED notification (and
    the execution detail) name state machine "...:stateMachine:ex:e1\n",
    execution "zz": a machine that does not exist.
  * The STANDARD execution started that way can not be described (InvalidArn).

Run as:
  cd <worktree>/asl-workflow-engine/py && /venv/bin/python /tmp/r7/hout/H05/2/repro.py
Exits 1 on the unchanged tree, 0 once such names are refused with InvalidName.
"""
import sys, os
sys.path.insert(0, os.getcwd())
import json, asyncio, tempfile, logging
from unittest import mock

from asl_workflow_engine import event_dispatcher
event_dispatcher.Message = mock.MagicMock()
from asl_workflow_engine.state_engine import StateEngine
from asl_workflow_engine.arn import parse_arn, create_arn
from asl_workflow_engine.rest_api import RestAPI as BlockingRestAPI
from asl_workflow_engine.rest_api_asyncio import RestAPI as AsyncioRestAPI
logging.disable(logging.CRITICAL)


class EventDispatcherStub(object):
    """Stands in for the AMQP event dispatcher: delivers published events
    straight to the real StateEngine, runs zero delay timers at once."""
    def __init__(self, state_engine):
        self.state_engine = state_engine
        state_engine.event_dispatcher = self
        self.session = mock.MagicMock()
        self.count = 0
        self.queue = []
        self.broadcasts = []
    def set_timeout(self, callback, delay):
        if delay == 0:
            callback()
        return None
    def clear_timeout(self, timeout_id):
        pass
    def acknowledge(self, id):
        pass
    def publish(self, item, threadsafe=False, use_shared_queue=False, **kwargs):
        self.queue.append(json.loads(json.dumps(item)))
        while self.queue:
            event = self.queue.pop(0)
            self.count += 1
            self.state_engine.notify(event, "event-%d" % self.count)
    def broadcast(self, subject, message, carrier_properties=None):
        self.broadcasts.append((subject, json.loads(json.dumps(message))))


def make(front_end):
    tmp = tempfile.mkdtemp()
    config = {
        "state_engine": {"store_url": os.path.join(tmp, "ASL_store.json"),
                         "execution_ttl": 500},
        "rest_api": {"region": "local"},
    }
    state_engine = StateEngine(config)
    dispatcher = EventDispatcherStub(state_engine)
    cls = AsyncioRestAPI if front_end == "asyncio" else BlockingRestAPI
    client = cls(state_engine, dispatcher, config).create_app().test_client()

    def call(action, params):
        headers = {"Content-Type": "application/x-amz-json-1.0",
                   "x-amz-target": "AWSStepFunctions." + action}
        body = json.dumps(params)
        if front_end == "asyncio":
            async def go():
                r = await client.post("/", data=body, headers=headers)
                return r.status_code, (await r.get_data()).decode()
            status, text = asyncio.run(go())
        else:
            r = client.post("/", data=body, headers=headers)
            status, text = r.status_code, r.get_data().decode()
        try:
            return status, json.loads(text)
        except ValueError:
            return status, text
    return state_engine, dispatcher, call


ROLE = "arn:aws:iam::0123456789:role/service-role/MyRole"
ASL = json.dumps({"StartAt": "A", "States": {"A": {"Type": "Pass", "End": True}}})
PREFIX = "arn:aws:states:local:0123456789:stateMachine:"

problems = []
def problem(front_end, text):
    problems.append("[%s] %s" % (front_end, text))

for front_end in ("asyncio", "blocking"):
    state_engine, dispatcher, call = make(front_end)
    assert call("CreateStateMachine", {"name": "sm", "roleArn": ROLE, "definition": ASL})[0] == 200
    assert call("CreateStateMachine", {"name": "ex", "roleArn": ROLE, "definition": ASL,
                                       "type": "EXPRESS"})[0] == 200

    # ---- 1. state machine names: a forbidden character after a newline
    for name in ("bad\n:x", "bad\n/x", "bad\nx y", "a\n#b", "plain\nname"):
        status, body = call("CreateStateMachine", {"name": name, "roleArn": ROLE, "definition": ASL})
        if status != 200:
            if body.get("__type") != "InvalidName":
                problem(front_end, "CreateStateMachine name=%r -> %s %s" % (name, status, body))
            continue
        arn = body["stateMachineArn"]
        problem(front_end, "CreateStateMachine accepts name=%r (contains a forbidden character), "
                           "mints %r" % (name, arn))
        parts = parse_arn(arn)
        if parts["resource"] != name or parts["resource_type"] != "stateMachine":
            problem(front_end, "  parse_arn splits it into resource_type=%r resource=%r, not "
                               "('stateMachine', %r)" % (parts["resource_type"], parts["resource"], name))
        for action in ("DescribeStateMachine", "DeleteStateMachine"):
            s2, b2 = call(action, {"stateMachineArn": arn})
            if s2 != 200:
                problem(front_end, "  %s of the ARN just returned -> %s %s" % (action, s2, b2.get("__type")))
        listed = [m["stateMachineArn"] for m in call("ListStateMachines", {})[1]["stateMachines"]]
        if arn in listed:
            problem(front_end, "  ... and it is still listed by ListStateMachines (can never be deleted)")

    # ---- 2. execution names, STANDARD machine
    name = "e1\n:zz"
    status, body = call("StartExecution", {"stateMachineArn": PREFIX + "sm", "name": name, "input": "{}"})
    if status == 200:
        execution_arn = body["executionArn"]
        problem(front_end, "StartExecution accepts name=%r, returns %r" % (name, execution_arn))
        s2, b2 = call("DescribeExecution", {"executionArn": execution_arn})
        if s2 != 200:
            problem(front_end, "  DescribeExecution of the ARN just returned -> %s %s (the record exists: %s)"
                    % (s2, b2.get("__type"), execution_arn in state_engine.executions))
        # what every "split at the last ':'" site in state_engine.py computes
        head, _, tail = execution_arn.rpartition(":")
        parts = parse_arn(head); parts["resource_type"] = "stateMachine"
        if create_arn(parts) != PREFIX + "sm" or tail != name:
            problem(front_end, "  splitting it at the last ':' gives state machine %r, name %r"
                    % (create_arn(parts), tail))
    elif body.get("__type") != "InvalidName":
        problem(front_end, "StartExecution name=%r -> %s %s" % (name, status, body))

    # ---- 3. execution names, EXPRESS machine: the engine re-derives the state machine
    del dispatcher.broadcasts[:]
    status, body = call("StartExecution", {"stateMachineArn": PREFIX + "ex", "name": name, "input": "{}"})
    if status == 200:
        execution_arn = body["executionArn"]
        for subject, message in dispatcher.broadcasts:
            detail = message["detail"]
            if detail["executionArn"] != execution_arn:
                continue
            if detail["stateMachineArn"] != PREFIX + "ex" or detail["name"] != name:
                problem(front_end, "EXPRESS execution %r (state machine %r): the %s notification is "
                        "published as %r with stateMachineArn=%r name=%r" % (
                            execution_arn, PREFIX + "ex", detail["status"], subject,
                            detail["stateMachineArn"], detail["name"]))
    elif body.get("__type") != "InvalidName":
        problem(front_end, "StartExecution name=%r -> %s %s" % (name, status, body))

if problems:
    print("DEFECT (C17/C10): names with a forbidden character after a newline are accepted\n")
    print("\n".join(problems))
    sys.exit(1)
print("OK: names containing forbidden characters are refused with InvalidName")
sys.exit(0)
