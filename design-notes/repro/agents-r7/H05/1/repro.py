#!/usr/bin/env python
"""
C10: "... no request is answered with an internal error" and "a request that is
answered with an error leaves every stored record exactly as it was".

Requests whose arguments have the wrong JSON *type* (definition / input that is
not a string, loggingConfiguration that is not an object, type / statusFilter /
loggingConfiguration.level that is a list or an object, explicit nulls) are
answered with HTTP 500 "InternalError" by BOTH HTTP front ends, instead of the
documented 400 error type of the action.

Run as:
  cd <worktree>/asl-workflow-engine/py && /venv/bin/python /tmp/r7/hout/H05/1/repro.py
Exits 1 on the unchanged tree, 0 once the arguments are type checked.
"""
import sys, os
sys.path.insert(0, os.getcwd())
import json, asyncio, tempfile, logging, copy
from unittest import mock

# The Message class is normally injected by the messaging connection factory.
from asl_workflow_engine import event_dispatcher
event_dispatcher.Message = mock.MagicMock()
from asl_workflow_engine.state_engine import StateEngine
from asl_workflow_engine.rest_api import RestAPI as BlockingRestAPI
from asl_workflow_engine.rest_api_asyncio import RestAPI as AsyncioRestAPI
logging.disable(logging.CRITICAL)


class EventDispatcherStub(object):
    """Stands in for the AMQP event dispatcher: delivers published events
    straight to the real StateEngine, runs zero delay timers at once."""
    def __init__(self, state_engine):
        self.state_engine = state_engine
        state_engine.event_dispatcher = self
        self.session = mock.MagicMock()
        self.count = 0
        self.queue = []
        self.broadcasts = []
    def set_timeout(self, callback, delay):
        if delay == 0:
            callback()
        return None
    def clear_timeout(self, timeout_id):
        pass
    def acknowledge(self, id):
        pass
    def publish(self, item, threadsafe=False, use_shared_queue=False, **kwargs):
        self.queue.append(json.loads(json.dumps(item)))
        while self.queue:
            event = self.queue.pop(0)
            self.count += 1
            self.state_engine.notify(event, "event-%d" % self.count)
    def broadcast(self, subject, message, carrier_properties=None):
        self.broadcasts.append((subject, json.loads(json.dumps(message))))


def make(front_end):
    tmp = tempfile.mkdtemp()
    config = {
        "state_engine": {"store_url": os.path.join(tmp, "ASL_store.json"),
                         "execution_ttl": 500},
        "rest_api": {"region": "local"},
    }
    state_engine = StateEngine(config)
    dispatcher = EventDispatcherStub(state_engine)
    cls = AsyncioRestAPI if front_end == "asyncio" else BlockingRestAPI
    client = cls(state_engine, dispatcher, config).create_app().test_client()

    def call(action, params):
        headers = {"Content-Type": "application/x-amz-json-1.0",
                   "x-amz-target": "AWSStepFunctions." + action}
        body = json.dumps(params)
        if front_end == "asyncio":
            async def go():
                r = await client.post("/", data=body, headers=headers)
                return r.status_code, (await r.get_data()).decode()
            return asyncio.run(go())
        r = client.post("/", data=body, headers=headers)
        return r.status_code, r.get_data().decode()
    return state_engine, call


ROLE = "arn:aws:iam::0123456789:role/service-role/MyRole"
ASL = json.dumps({"StartAt": "A", "States": {"A": {"Type": "Pass", "End": True}}})
SM = "arn:aws:states:local:0123456789:stateMachine:sm"

def create(extra):
    p = {"name": "other", "roleArn": ROLE, "definition": ASL}
    p.update(extra)
    return ("CreateStateMachine", p)

# (action, params, front ends it applies to)
BOTH = ("asyncio", "blocking")
CASES = [
    create({"definition": {"StartAt": "A"}}) + (BOTH,),          # object, not string
    create({"definition": 5}) + (BOTH,),
    create({"definition": None}) + (BOTH,),
    create({"type": ["STANDARD"]}) + (BOTH,),
    create({"type": {"a": 1}}) + (BOTH,),
    create({"loggingConfiguration": "ALL"}) + (("asyncio",),),   # blocking API ignores it
    create({"loggingConfiguration": None}) + (("asyncio",),),
    create({"loggingConfiguration": ["ALL"]}) + (("asyncio",),),
    create({"loggingConfiguration": {"level": ["ALL"]}}) + (("asyncio",),),
    ("UpdateStateMachine", {"stateMachineArn": SM, "definition": {"StartAt": "A"}}, BOTH),
    ("UpdateStateMachine", {"stateMachineArn": SM, "definition": 7}, BOTH),
    ("UpdateStateMachine", {"stateMachineArn": SM, "definition": ASL,
                            "loggingConfiguration": "ALL"}, ("asyncio",)),
    ("UpdateStateMachine", {"stateMachineArn": SM, "definition": ASL,
                            "loggingConfiguration": ["ALL"]}, ("asyncio",)),
    ("UpdateStateMachine", {"stateMachineArn": SM, "definition": ASL,
                            "loggingConfiguration": {"level": {"a": 1}}}, ("asyncio",)),
    ("StartExecution", {"stateMachineArn": SM, "name": "e1", "input": 5}, BOTH),
    ("StartExecution", {"stateMachineArn": SM, "name": "e2", "input": None}, BOTH),
    ("StartExecution", {"stateMachineArn": SM, "name": "e3", "input": True}, BOTH),
    ("ListExecutions", {"stateMachineArn": SM, "statusFilter": ["RUNNING"]}, BOTH),
    ("ListExecutions", {"stateMachineArn": SM, "statusFilter": {"a": 1}}, BOTH),
]

failures = []
for front_end in BOTH:
    state_engine, call = make(front_end)
    status, body = call("CreateStateMachine",
                        {"name": "sm", "roleArn": ROLE, "definition": ASL})
    assert status == 200, (status, body)
    status, body = call("StartExecution",
                        {"stateMachineArn": SM, "name": "e0", "input": "{}"})
    assert status == 200, (status, body)

    for action, params, front_ends in CASES:
        if front_end not in front_ends:
            continue
        before = (copy.deepcopy(dict(state_engine.asl_store)),
                  copy.deepcopy(dict(state_engine.executions)))
        status, body = call(action, params)
        after = (dict(state_engine.asl_store), dict(state_engine.executions))
        problem = None
        if status >= 500:
            problem = "answered HTTP %d %r" % (status, body.strip())
        elif before != after and status != 200:
            problem = "HTTP %d but the stores changed" % status
        # (a lenient 200 is not flagged, only internal errors / torn stores)
        if problem:
            shown = {k: ("<valid ASL>" if v == ASL else v) for k, v in params.items()
                     if k not in ("name", "roleArn", "stateMachineArn")}
            failures.append("%-8s %-19s %-62s -> %s" % (
                front_end, action, json.dumps(shown), problem))

if failures:
    print("DEFECT (C10): %d requests with mistyped arguments are answered "
          "with an internal error:\n" % len(failures))
    print("\n".join(failures))
    sys.exit(1)
print("OK: every mistyped argument is refused with a 4xx error and the stores are untouched")
sys.exit(0)
