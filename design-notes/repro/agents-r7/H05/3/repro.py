#!/usr/bin/env python
"""
C17: "The execution ARN ... always identifies the state machine that runs it:
every place that derives one identifier from the other (record creation, EXPRESS
details, recovery after restart, timeout backstop, notifications) arrives at the
same state machine ARN and execution name. Names that would break these round
trips are refused."

The REST front ends refuse execution names containing ':' (InvalidName), but the
second implementation of StartExecution - the states:startExecution[.sync[:2]] /
aws-sdk:sfn:startSyncExecution service integration in task_dispatcher.py - mints
the child execution ARN from Parameters.Name without validating it at all.

Scenario A (EXPRESS child, sfn:startSyncExecution, Name "a:b")
  the child's details are re-derived from "...:execution:childx:a:b" by splitting
  at the last ':' -> the Task result handed to the parent and the SUCCEEDED
  notification say stateMachineArn "...:stateMachine:childx:a", name "b".
Scenario B (STANDARD child, startExecution, Name "a:b", engine restarted while the
  child runs: the in-memory executions store is lost, the broker redelivers the
  child's pending event)
  the record is rebuilt from the ARN -> it belongs to "...:stateMachine:child:a":
  ListExecutions of the real state machine no longer lists the execution and
  DescribeStateMachineForExecution answers StateMachineDoesNotExist.

Run as:
  cd <worktree>/asl-workflow-engine/py && /venv/bin/python /tmp/r7/hout/H05/3/repro.py
Exits 1 on the unchanged tree; exits 0 if the Task is failed for the invalid name
(or if every derivation agreed).
"""
import sys, os
sys.path.insert(0, os.getcwd())
import json, asyncio, tempfile, logging
from unittest import mock

from asl_workflow_engine import event_dispatcher
event_dispatcher.Message = mock.MagicMock()
from asl_workflow_engine.state_engine import StateEngine
from asl_workflow_engine.rest_api_asyncio import RestAPI
logging.disable(logging.CRITICAL)


class EventDispatcherStub(object):
    """Stands in for the AMQP event dispatcher. Published events are queued and
    delivered to the real StateEngine one at a time by step()/drain(); zero
    delay timers run at once, the others (timeouts) never fire."""
    def __init__(self, state_engine):
        self.state_engine = state_engine
        state_engine.event_dispatcher = self
        self.session = mock.MagicMock()
        self.count = 0
        self.queue = []
        self.broadcasts = []
    def set_timeout(self, callback, delay):
        if delay == 0:
            callback()
        return None
    def clear_timeout(self, timeout_id):
        pass
    def acknowledge(self, id):
        pass
    def publish(self, item, threadsafe=False, use_shared_queue=False, **kwargs):
        self.queue.append(json.loads(json.dumps(item)))
    def step(self):
        event = self.queue.pop(0)
        self.count += 1
        self.state_engine.notify(event, "event-%d" % self.count)
    def drain(self):
        while self.queue:
            self.step()
    def broadcast(self, subject, message, carrier_properties=None):
        self.broadcasts.append((subject, json.loads(json.dumps(message))))


tmp = tempfile.mkdtemp()
config = {
    "state_engine": {"store_url": os.path.join(tmp, "ASL_store.json"), "execution_ttl": 500},
    "rest_api": {"region": "local"},
}
state_engine = StateEngine(config)
dispatcher = EventDispatcherStub(state_engine)
client = RestAPI(state_engine, dispatcher, config).create_app().test_client()

def call(action, params):
    headers = {"Content-Type": "application/x-amz-json-1.0",
               "x-amz-target": "AWSStepFunctions." + action}
    async def go():
        r = await client.post("/", data=json.dumps(params), headers=headers)
        return r.status_code, (await r.get_data()).decode()
    status, text = asyncio.run(go())
    try:
        return status, json.loads(text)
    except ValueError:
        return status, text

ROLE = "arn:aws:iam::0123456789:role/service-role/MyRole"
SM = "arn:aws:states:local:0123456789:stateMachine:"
EX = "arn:aws:states:local:0123456789:execution:"
CHILD = json.dumps({"StartAt": "A", "States": {"A": {"Type": "Pass", "Next": "B"},
                                               "B": {"Type": "Pass", "End": True}}})
def parent(resource, child_arn):
    return json.dumps({"StartAt": "T", "States": {"T": {
        "Type": "Task", "Resource": resource,
        "Parameters": {"StateMachineArn": child_arn, "Name.$": "$.name", "Input": {"x": 1}},
        "End": True}}})

for name, definition, type in (
        ("childx", CHILD, "EXPRESS"),
        ("child", CHILD, "STANDARD"),
        ("parentA", parent("arn:aws:states:local::aws-sdk:sfn:startSyncExecution", SM + "childx"), "STANDARD"),
        ("parentB", parent("arn:aws:states:local::states:startExecution", SM + "child"), "STANDARD")):
    status, body = call("CreateStateMachine",
                        {"name": name, "roleArn": ROLE, "definition": definition, "type": type})
    assert status == 200, (status, body)

BAD = "a:b"
# The front door refuses this name, so it is a name "that would break the round trip":
status, body = call("StartExecution", {"stateMachineArn": SM + "child", "name": BAD})
assert (status, body.get("__type")) == (400, "InvalidName"), (status, body)

problems = []

# ------------------------------------------------------------------ scenario A
status, body = call("StartExecution", {"stateMachineArn": SM + "parentA", "name": "runA",
                                       "input": json.dumps({"name": BAD})})
assert status == 200, (status, body)
dispatcher.drain()
parent_record = state_engine.executions[EX + "parentA:runA"]
child_arn = EX + "childx:" + BAD
child_events = [(s, m["detail"]) for s, m in dispatcher.broadcasts
                if m["detail"]["executionArn"] == child_arn]
if child_events:   # the child was launched under that name
    for subject, detail in child_events:
        if detail["stateMachineArn"] != SM + "childx" or detail["name"] != BAD:
            problems.append("A: child %r runs state machine %r, but its %s notification is published as\n"
                            "     subject %r, stateMachineArn=%r, name=%r" % (
                                child_arn, SM + "childx", detail["status"], subject,
                                detail["stateMachineArn"], detail["name"]))
    output = json.loads(parent_record["output"] or "{}")
    if output.get("StateMachineArn") != SM + "childx" or output.get("Name") != BAD:
        problems.append("A: the Task result given to the parent says ExecutionArn=%r\n"
                        "     StateMachineArn=%r Name=%r" % (
                            output.get("ExecutionArn"), output.get("StateMachineArn"), output.get("Name")))
else:
    print("A: Task refused: parent status %s error %s" % (parent_record["status"], parent_record.get("error")))

# ------------------------------------------------------------------ scenario B
del dispatcher.broadcasts[:]
status, body = call("StartExecution", {"stateMachineArn": SM + "parentB", "name": "runB",
                                       "input": json.dumps({"name": BAD})})
assert status == 200, (status, body)
dispatcher.step()                      # parent: Task launches the child (fire and forget), ends
child_arn = EX + "child:" + BAD
if dispatcher.queue:
    dispatcher.step()                  # child: ExecutionStarted, state A done, event for B published
    assert state_engine.executions[child_arn]["stateMachineArn"] == SM + "child"
    assert len(dispatcher.queue) == 1  # the child's event for state B is "in the broker"
    # Engine restart: the in-memory execution metadata is lost (SimpleStore), the
    # unacknowledged event is redelivered.
    state_engine.executions.clear()
    state_engine.execution_history.clear()
    dispatcher.drain()
    record = state_engine.executions[child_arn]
    if record["stateMachineArn"] != SM + "child" or record["name"] != BAD:
        problems.append("B: after the restart the record of %r is rebuilt with\n"
                        "     stateMachineArn=%r name=%r" % (child_arn, record["stateMachineArn"], record["name"]))
    status, body = call("ListExecutions", {"stateMachineArn": SM + "child"})
    if child_arn not in [e["executionArn"] for e in body["executions"]]:
        problems.append("B: ListExecutions(%r) does not list it: %s" % (SM + "child", body["executions"]))
    status, body = call("DescribeStateMachineForExecution", {"executionArn": child_arn})
    if status != 200 or body.get("stateMachineArn") != SM + "child":
        problems.append("B: DescribeStateMachineForExecution(%r) -> %s %s" % (
            child_arn, status, body.get("__type", body) if isinstance(body, dict) else body))
else:
    record = state_engine.executions[EX + "parentB:runB"]
    print("B: Task refused: parent status %s error %s" % (record["status"], record.get("error")))

if problems:
    print("DEFECT (C17): child execution name %r is not validated by the startExecution "
          "service integration\n" % BAD)
    print("\n".join(problems))
    sys.exit(1)
print("OK")
sys.exit(0)
