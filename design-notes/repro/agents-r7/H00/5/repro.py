#!/usr/bin/env python3
"""
H00 / defect 5 (property C01: follows Next/End; SUCCEEDED exactly when an End
state is reached): inside a Parallel branch or a Map iteration the engine looks
the current state up with the JSONPath query  "$.." + <state name>  over the
whole definition. That query
  * also matches every OTHER member of the definition that happens to have that
    name - a key of some state's Parameters / Result / ResultSelector, the
    "Default" of a Choice state, ... - and two matches are reported as
    'attempted a transition to a non-unique state' (States.Runtime), and
  * cannot express a state name that contains JSONPath syntax, e.g. a dot
    ("Step 1.1", "Wait 0.5s"): 'transition to a non-existent state'.
Legal machines therefore FAIL as soon as the state sits in a branch; the same
states at the top level of the machine work.

Run as:
  cd <worktree>/asl-workflow-engine/py && /venv/bin/python /tmp/r7/hout/H00/5/repro.py
Drives the real StateEngine; only the broker (FIFO in-memory queue), the timers
and the task invocation are stubbed. Exits 1 on the unchanged tree.
"""
import sys, os, json, tempfile, collections, atexit, shutil
sys.path.insert(0, os.getcwd())
os.environ.setdefault("LOG_LEVEL", "CRITICAL")
from asl_workflow_engine.state_engine import StateEngine

SM_ARN = "arn:aws:states:local:0123456789:stateMachine:sm"


class Dispatcher(object):
    """FIFO, replies-in-order stand-in for the AMQP EventDispatcher."""
    def __init__(self, engine):
        self.engine = engine
        engine.event_dispatcher = self
        self.queue = collections.deque()
        self.next_id = 0
        self.unacknowledged_messages = {}
        self.notifications = []
        self.timers = {}
        self.timer_seq = 0

    def set_timeout(self, callback, delay):
        self.timer_seq += 1
        self.timers[self.timer_seq] = callback
        self.queue.append(("timer", self.timer_seq))
        return self.timer_seq

    def clear_timeout(self, tid):
        self.timers.pop(tid, None)

    def acknowledge(self, id):
        self.unacknowledged_messages.pop(id, None)

    def publish(self, item, **kw):
        self.queue.append(("event", json.dumps(item)))

    def broadcast(self, subject, message, carrier_properties=None):
        self.notifications.append(json.loads(json.dumps(message)))

    def run(self, limit=10000):
        while self.queue and limit:
            limit -= 1
            kind, payload = self.queue.popleft()
            if kind == "event":
                self.next_id += 1
                id = str(self.next_id)
                self.unacknowledged_messages[id] = payload
                self.engine.notify(json.loads(payload), id)
            else:
                callback = self.timers.pop(payload, None)
                if callback:
                    callback()


def run(asl, data, task_fn=None):
    tmp = tempfile.mkdtemp(prefix="h00_")
    atexit.register(shutil.rmtree, tmp, True)
    config = {"state_engine": {"store_url": os.path.join(tmp, "ASL_store.json"),
                               "execution_ttl": 500}}
    engine = StateEngine(config)
    dispatcher = Dispatcher(engine)
    calls = []

    def execute_task(resource_arn, parameters, callback, timeout,
                     is_task_timeout, context, event_id, redelivered):
        calls.append(resource_arn)
        result = task_fn(resource_arn, parameters, len(calls)) if task_fn else parameters
        callback(json.loads(json.dumps(result)))

    engine.task_dispatcher.execute_task = execute_task
    dispatcher.publish({"data": data, "context": {
        "StateMachine": {"Id": SM_ARN, "Definition": asl}}})
    dispatcher.run()
    final = [n["detail"] for n in dispatcher.notifications
             if n["detail"]["status"] != "RUNNING"]
    if len(final) != 1:
        return ("NO-SINGLE-TERMINAL-NOTIFICATION(%d)" % len(final), None, None)
    d = final[0]
    # The DescribeExecution record must agree with the notification.
    rec = dict(engine.executions[d["executionArn"]])
    assert rec["status"] == d["status"], (rec, d)
    output = json.loads(d["output"]) if d.get("output") is not None else None
    return (d["status"], output, d.get("error"))



failures = []


def check(name, got, expected):
    ok = got == expected
    print("%-4s %s\n       expected %s\n       observed %s" % (
        "ok" if ok else "BAD", name, expected, got))
    if not ok:
        failures.append(name)


def parallel_of(states, start, rest=None, next_=None):
    par = {"Type": "Parallel", "Branches": [{"StartAt": start, "States": states}]}
    if next_:
        par["Next"] = next_
    else:
        par["End"] = True
    top = {"Par": par}
    top.update(rest or {})
    return {"StartAt": "Par", "States": top}


END = {"Type": "Pass", "End": True}

# 1. A branch state is called "Payload"; a later, unrelated Task state builds
#    its request with a Parameters member "Payload" (the Lambda idiom).
check("branch state 'Payload' + another state's Parameters has a member 'Payload'",
      run(parallel_of({"Payload": {"Type": "Pass", "Result": "built", "End": True}}, "Payload",
                      rest={"Invoke": {"Type": "Task", "Resource": "arn:aws:rpcmessage:local::function:f",
                                       "Parameters": {"FunctionName": "f", "Payload": {"x": 1}}, "End": True}},
                      next_="Invoke"),
          {}, lambda arn, p, n: {"got": p}),
      ("SUCCEEDED", {"got": {"FunctionName": "f", "Payload": {"x": 1}}}, None))

# 2. A branch state is called "Default" and the machine has a Choice state with
#    a "Default" field.
check("branch state 'Default' + a Choice state with a Default field",
      run({"StartAt": "C", "States": {
          "C": {"Type": "Choice", "Choices": [{"Variable": "$.skip", "BooleanEquals": True, "Next": "Done"}],
                "Default": "Par"},
          "Par": {"Type": "Parallel", "Next": "Done", "Branches": [
              {"StartAt": "Default", "States": {"Default": {"Type": "Pass", "Result": "d", "End": True}}}]},
          "Done": {"Type": "Succeed"}}}, {"skip": False}),
      ("SUCCEEDED", ["d"], None))

# 3. A member of a Pass state's Result has the name of a branch state.
check("Map iteration state 'Validate' + a Pass Result with a member 'Validate'",
      run({"StartAt": "Cfg", "States": {
          "Cfg": {"Type": "Pass", "Result": {"Validate": True}, "ResultPath": "$.options", "Next": "M"},
          "M": {"Type": "Map", "ItemsPath": "$.items", "End": True, "ItemProcessor": {
              "StartAt": "Validate", "States": {"Validate": END}}}}}, {"items": [1, 2]}),
      ("SUCCEEDED", [1, 2], None))

# 4. State names with a dot.
check("Parallel branch: 'Step 1.1' -> 'Step 1.2'",
      run(parallel_of({"Step 1.1": {"Type": "Pass", "Next": "Step 1.2"},
                       "Step 1.2": {"Type": "Pass", "Result": "done", "End": True}}, "Step 1.1"), {}),
      ("SUCCEEDED", ["done"], None))
check("Map iteration state 'Wait 0.5s'",
      run({"StartAt": "M", "States": {"M": {"Type": "Map", "End": True, "ItemProcessor": {
          "StartAt": "Wait 0.5s", "States": {"Wait 0.5s": {"Type": "Wait", "Seconds": 0.5, "End": True}}}}}}, [7]),
      ("SUCCEEDED", [7], None))

# ---- controls ----------------------------------------------------------------
check("control: the same names at the top level of the machine work",
      run({"StartAt": "Step 1.1", "States": {
          "Step 1.1": {"Type": "Pass", "Next": "Payload"},
          "Payload": {"Type": "Pass", "Parameters": {"Payload": {"x": 1}}, "End": True}}}, {}),
      ("SUCCEEDED", {"Payload": {"x": 1}}, None))
check("control: names with blanks and dashes in a branch",
      run(parallel_of({"Step 1": {"Type": "Pass", "Next": "Step-2"},
                       "Step-2": {"Type": "Pass", "Result": "done", "End": True}}, "Step 1"), {}),
      ("SUCCEEDED", ["done"], None))
check("control: Map nested in a Parallel branch, transitions inside the iteration",
      run(parallel_of({"M": {"Type": "Map", "End": True, "Iterator": {
          "StartAt": "I1", "States": {"I1": {"Type": "Pass", "Next": "I2"}, "I2": END}}}}, "M"), [1, 2]),
      ("SUCCEEDED", [[1, 2]], None))
# State names must be unique in the whole machine; the engine rejects a name
# that really is used for two states - that check has to keep working.
dup = run({"StartAt": "Par", "States": {"Par": {"Type": "Parallel", "End": True, "Branches": [
    {"StartAt": "Same", "States": {"Same": END}},
    {"StartAt": "Same", "States": {"Same": END}}]}}}, {})
check("control: a name really used by two states is still refused", dup[0::2], ("FAILED", "States.Runtime"))
check("control: transition to a state that does not exist in a branch",
      run(parallel_of({"A": {"Type": "Pass", "Next": "Nowhere"}}, "A"), {})[0::2], ("FAILED", "States.Runtime"))

if failures:
    print("\nDEFECT PRESENT: %d case(s) - states in a branch are looked up with the JSONPath "
          "'$..<name>' over the whole definition: %s" % (len(failures), failures))
    sys.exit(1)
print("\nall cases as prescribed by the States Language")
sys.exit(0)
