#!/usr/bin/env python3
"""
H00 / defect 4 (property C01, "... all assignments of success/error results to
task invocations ..."; FAILED exactly when an error is *unhandled*): the engine
keeps ONE retry counter per state ($$.State.RetryCount) and compares it with the
MaxAttempts of whichever Retrier matches, and uses it as the BackoffRate
exponent. The States Language gives every Retrier its own count ("A Retrier's
parameters apply across all visits to that Retrier in the context of a single
state execution"). With two Retriers the retries granted to the first one are
charged to the second: errors that the second Retrier must retry are instead
reported as unhandled (FAILED) or sent to the Catcher, and its waits are wrong.

Run as:
  cd <worktree>/asl-workflow-engine/py && /venv/bin/python /tmp/r7/hout/H00/4/repro.py
Drives the real StateEngine; only the broker (FIFO in-memory queue), the timers
(fired immediately, requested delays recorded) and the task invocation are
stubbed. Exits 1 on the unchanged tree.
"""
import sys, os, json, tempfile, collections, atexit, shutil
sys.path.insert(0, os.getcwd())
os.environ.setdefault("LOG_LEVEL", "CRITICAL")
from asl_workflow_engine.state_engine import StateEngine

SM_ARN = "arn:aws:states:local:0123456789:stateMachine:sm"


class Dispatcher(object):
    """FIFO, replies-in-order stand-in for the AMQP EventDispatcher."""
    def __init__(self, engine):
        self.engine = engine
        engine.event_dispatcher = self
        self.queue = collections.deque()
        self.next_id = 0
        self.unacknowledged_messages = {}
        self.notifications = []
        self.timers = {}
        self.timer_seq = 0
        self.delays = []

    def set_timeout(self, callback, delay):
        if delay:
            self.delays.append(delay / 1000.0)  # seconds, retry intervals only
        self.timer_seq += 1
        self.timers[self.timer_seq] = callback
        self.queue.append(("timer", self.timer_seq))
        return self.timer_seq

    def clear_timeout(self, tid):
        self.timers.pop(tid, None)

    def acknowledge(self, id):
        self.unacknowledged_messages.pop(id, None)

    def publish(self, item, **kw):
        self.queue.append(("event", json.dumps(item)))

    def broadcast(self, subject, message, carrier_properties=None):
        self.notifications.append(json.loads(json.dumps(message)))

    def run(self, limit=10000):
        while self.queue and limit:
            limit -= 1
            kind, payload = self.queue.popleft()
            if kind == "event":
                self.next_id += 1
                id = str(self.next_id)
                self.unacknowledged_messages[id] = payload
                self.engine.notify(json.loads(payload), id)
            else:
                callback = self.timers.pop(payload, None)
                if callback:
                    callback()


def run(asl, data, task_fn=None):
    tmp = tempfile.mkdtemp(prefix="h00_")
    atexit.register(shutil.rmtree, tmp, True)
    config = {"state_engine": {"store_url": os.path.join(tmp, "ASL_store.json"),
                               "execution_ttl": 500}}
    engine = StateEngine(config)
    dispatcher = Dispatcher(engine)
    calls = []

    def execute_task(resource_arn, parameters, callback, timeout,
                     is_task_timeout, context, event_id, redelivered):
        calls.append(context["State"].get("RetryCount", 0))  # $$.State.RetryCount at invocation
        result = task_fn(resource_arn, parameters, len(calls)) if task_fn else parameters
        callback(json.loads(json.dumps(result)))

    engine.task_dispatcher.execute_task = execute_task
    dispatcher.publish({"data": data, "context": {
        "StateMachine": {"Id": SM_ARN, "Definition": asl}}})
    dispatcher.run()
    global last_calls, last_delays
    last_calls, last_delays = calls, dispatcher.delays
    final = [n["detail"] for n in dispatcher.notifications
             if n["detail"]["status"] != "RUNNING"]
    if len(final) != 1:
        return ("NO-SINGLE-TERMINAL-NOTIFICATION(%d)" % len(final), None, None)
    d = final[0]
    # The DescribeExecution record must agree with the notification.
    rec = dict(engine.executions[d["executionArn"]])
    assert rec["status"] == d["status"], (rec, d)
    output = json.loads(d["output"]) if d.get("output") is not None else None
    return (d["status"], output, d.get("error"))



last_calls, last_delays = [], []
failures = []


def check(name, got, expected):
    ok = got == expected
    print("%-4s %s\n       expected %s\n       observed %s" % (
        "ok" if ok else "BAD", name, expected, got))
    if not ok:
        failures.append(name)


F = "arn:aws:rpcmessage:local::function:f"


def script(*outcomes):
    """n-th invocation of the task fails with the n-th error name, or succeeds"""
    def task(arn, parameters, n):
        o = outcomes[n - 1] if n <= len(outcomes) else "ok"
        if o == "ok":
            return {"ok": True, "invocation": n}
        return {"errorType": o, "errorMessage": "failure #%d" % n}
    return task


# The example of https://states-language.net/#retrying-after-error ("Complex
# retry scenarios"), states Y and Z made distinguishable.
SPEC = {"StartAt": "X", "States": {
    "X": {"Type": "Task", "Resource": F, "Next": "Y",
          "Retry": [
              {"ErrorEquals": ["ErrorA", "ErrorB"], "IntervalSeconds": 1, "BackoffRate": 2, "MaxAttempts": 2},
              {"ErrorEquals": ["ErrorC"], "IntervalSeconds": 5}],
          "Catch": [{"ErrorEquals": ["States.ALL"], "Next": "Z"}]},
    "Y": {"Type": "Pass", "Result": "Y", "End": True},
    "Z": {"Type": "Pass", "Result": "Z", "End": True}}}

# 1. verbatim: "fails four successive times, throwing ErrorA, ErrorB, ErrorC and
#    ErrorB. The first two errors match the first retrier and cause waits of one
#    and two seconds. The third error matches the second retrier and causes a
#    wait of five seconds. The fourth error would match the first retrier but
#    its MaxAttempts ceiling of two retries has already been reached ... Z"
r = run(SPEC, {}, script("ErrorA", "ErrorB", "ErrorC", "ErrorB"))
check("spec example: A, B, C, B -> waits of 1, 2, 5 seconds, then Z",
      (r, last_delays, len(last_calls)), (("SUCCEEDED", "Z", None), [1.0, 2.0, 5.0], 4))

# 2. same machine: A, A, C, C, then success. Retrier 1 is used twice (<= 2),
#    Retrier 2 twice (<= its default MaxAttempts of 3): every error is handled
#    by a retry, the fifth invocation succeeds -> Y.
r = run(SPEC, {}, script("ErrorA", "ErrorA", "ErrorC", "ErrorC"))
check("spec example machine: A, A, C, C, ok -> Y after 5 invocations",
      (r, last_delays, len(last_calls)), (("SUCCEEDED", "Y", None), [1.0, 2.0, 5.0, 10.0], 5))

# 3. no Catch: the error becomes "unhandled" although a Retrier with an unused
#    budget matches it -> wrong terminal status.
TWO = [{"ErrorEquals": ["ErrorA"], "MaxAttempts": 1}, {"ErrorEquals": ["ErrorB"], "MaxAttempts": 1}]
r = run({"StartAt": "T", "States": {"T": {"Type": "Task", "Resource": F, "Retry": TWO, "End": True}}},
        {}, script("ErrorA", "ErrorB"))
check("Retry [A max 1], [B max 1]: A, B, ok -> SUCCEEDED after 3 invocations",
      (r, len(last_calls)), (("SUCCEEDED", {"ok": True, "invocation": 3}, None), 3))

# 4. the same for the Retry of a Parallel state (errors of its branch)
r = run({"StartAt": "P", "States": {"P": {"Type": "Parallel", "Retry": TWO, "End": True, "Branches": [
        {"StartAt": "T", "States": {"T": {"Type": "Task", "Resource": F, "End": True}}}]}}},
        {}, script("ErrorA", "ErrorB"))
check("Parallel with Retry [A max 1], [B max 1]: branch fails A, B, then ok -> SUCCEEDED",
      (r, len(last_calls)), (("SUCCEEDED", [{"ok": True, "invocation": 3}], None), 3))

# ---- controls ----------------------------------------------------------------
ONE = [{"ErrorEquals": ["ErrorA"], "MaxAttempts": 2, "IntervalSeconds": 3, "BackoffRate": 1.5}]
r = run({"StartAt": "T", "States": {"T": {"Type": "Task", "Resource": F, "Retry": ONE, "End": True}}},
        {}, script("ErrorA", "ErrorA", "ErrorA"))
check("control: one Retrier, MaxAttempts 2: A, A, A -> FAILED after 3 invocations, waits 3, 4.5",
      (r, last_delays, len(last_calls)), (("FAILED", None, "ErrorA"), [3.0, 4.5], 3))
r = run({"StartAt": "T", "States": {"T": {"Type": "Task", "Resource": F, "Retry": ONE, "End": True}}},
        {}, script("ErrorB"))
check("control: an error no Retrier names is not retried",
      (r, len(last_calls)), (("FAILED", None, "ErrorB"), 1))
r = run({"StartAt": "T", "States": {"T": {"Type": "Task", "Resource": F, "End": True,
         "Retry": [{"ErrorEquals": ["ErrorA"], "MaxAttempts": 2}, {"ErrorEquals": ["ErrorB"], "MaxAttempts": 2}]}}},
        {}, script("ErrorA", "ErrorB"))
check("control: $$.State.RetryCount at the three invocations is the total number of retries",
      (r[0], last_calls), ("SUCCEEDED", [0, 1, 2]))
# "once the interpreter transitions to another state in any way, all the
# Retrier parameters reset": T is visited twice, fails once per visit.
LOOP = {"StartAt": "T", "States": {
    "T": {"Type": "Task", "Resource": F, "ResultPath": "$.t", "Next": "C",
          "Retry": [{"ErrorEquals": ["ErrorA"], "MaxAttempts": 1}]},
    "C": {"Type": "Choice", "Choices": [{"Variable": "$.t.invocation", "NumericLessThan": 3, "Next": "T"}],
          "Default": "D"},
    "D": {"Type": "Succeed"}}}
r = run(LOOP, {}, script("ErrorA", "ok", "ErrorA", "ok"))
check("control: the counts are reset when the state is left and entered again",
      (r[0], len(last_calls)), ("SUCCEEDED", 4))

if failures:
    print("\nDEFECT PRESENT: %d case(s) - one retry counter is shared by all Retriers of a "
          "state: %s" % (len(failures), failures))
    sys.exit(1)
print("\nall cases as prescribed by the States Language")
sys.exit(0)
