#!/usr/bin/env python3
"""
H00 / defect 2 (property C01, Parameters / ResultSelector step of the pipeline;
C12 "never corrupt data"): a Payload Template field  "x.$": "$"  (the whole
effective input / the whole result) does not insert the input, it runs the
*template expander* over the input DATA:
  * a scalar input (number, string, boolean) crashes it -> States.Runtime;
  * members of the data whose name ends in ".$" are renamed and their values
    evaluated as Paths / Intrinsic Functions against the data itself;
  * strings ending in ".$" inside arrays of the data are evaluated too, which
    fails the execution with States.IntrinsicFailure.
"x.$": "$.member" (any path other than "$") is handled correctly.

Run as:
  cd <worktree>/asl-workflow-engine/py && /venv/bin/python /tmp/r7/hout/H00/2/repro.py
Drives the real StateEngine; only the broker (FIFO in-memory queue), the timers
and the task invocation are stubbed. Exits 1 on the unchanged tree.
"""
import sys, os, json, tempfile, collections, atexit, shutil
sys.path.insert(0, os.getcwd())
os.environ.setdefault("LOG_LEVEL", "CRITICAL")
from asl_workflow_engine.state_engine import StateEngine

SM_ARN = "arn:aws:states:local:0123456789:stateMachine:sm"


class Dispatcher(object):
    """FIFO, replies-in-order stand-in for the AMQP EventDispatcher."""
    def __init__(self, engine):
        self.engine = engine
        engine.event_dispatcher = self
        self.queue = collections.deque()
        self.next_id = 0
        self.unacknowledged_messages = {}
        self.notifications = []
        self.timers = {}
        self.timer_seq = 0

    def set_timeout(self, callback, delay):
        self.timer_seq += 1
        self.timers[self.timer_seq] = callback
        self.queue.append(("timer", self.timer_seq))
        return self.timer_seq

    def clear_timeout(self, tid):
        self.timers.pop(tid, None)

    def acknowledge(self, id):
        self.unacknowledged_messages.pop(id, None)

    def publish(self, item, **kw):
        self.queue.append(("event", json.dumps(item)))

    def broadcast(self, subject, message, carrier_properties=None):
        self.notifications.append(json.loads(json.dumps(message)))

    def run(self, limit=10000):
        while self.queue and limit:
            limit -= 1
            kind, payload = self.queue.popleft()
            if kind == "event":
                self.next_id += 1
                id = str(self.next_id)
                self.unacknowledged_messages[id] = payload
                self.engine.notify(json.loads(payload), id)
            else:
                callback = self.timers.pop(payload, None)
                if callback:
                    callback()


def run(asl, data, task_fn=None):
    tmp = tempfile.mkdtemp(prefix="h00_")
    atexit.register(shutil.rmtree, tmp, True)
    config = {"state_engine": {"store_url": os.path.join(tmp, "ASL_store.json"),
                               "execution_ttl": 500}}
    engine = StateEngine(config)
    dispatcher = Dispatcher(engine)
    calls = []

    def execute_task(resource_arn, parameters, callback, timeout,
                     is_task_timeout, context, event_id, redelivered):
        calls.append(json.loads(json.dumps(parameters)))
        result = task_fn(resource_arn, parameters, len(calls)) if task_fn else parameters
        callback(json.loads(json.dumps(result)))

    engine.task_dispatcher.execute_task = execute_task
    dispatcher.publish({"data": data, "context": {
        "StateMachine": {"Id": SM_ARN, "Definition": asl}}})
    dispatcher.run()
    global last_calls
    last_calls = calls
    final = [n["detail"] for n in dispatcher.notifications
             if n["detail"]["status"] != "RUNNING"]
    if len(final) != 1:
        return ("NO-SINGLE-TERMINAL-NOTIFICATION(%d)" % len(final), None, None)
    d = final[0]
    # The DescribeExecution record must agree with the notification.
    rec = dict(engine.executions[d["executionArn"]])
    assert rec["status"] == d["status"], (rec, d)
    output = json.loads(d["output"]) if d.get("output") is not None else None
    return (d["status"], output, d.get("error"))



from asl_workflow_engine.state_engine_paths import evaluate_payload_template

last_calls = []
failures = []


def check(name, got, expected):
    ok = got == expected
    print("%-4s %s\n       expected %s\n       observed %s" % (
        "ok" if ok else "BAD", name, expected, got))
    if not ok:
        failures.append(name)


def pass_machine(**fields):
    state = {"Type": "Pass", "End": True}
    state.update(fields)
    return {"StartAt": "P", "States": {"P": state}}


WRAP = {"v.$": "$"}
ECHO = "arn:aws:rpcmessage:local::function:echo"

# 1. scalar effective input
check("Pass InputPath $.n (=5), Parameters {'v.$': '$'}",
      run(pass_machine(InputPath="$.n", Parameters=WRAP), {"n": 5}),
      ("SUCCEEDED", {"v": 5}, None))
check("Pass InputPath $.s (='abc'), Parameters {'v.$': '$'}",
      run(pass_machine(InputPath="$.s", Parameters=WRAP), {"s": "abc"}),
      ("SUCCEEDED", {"v": "abc"}, None))

# 2. ResultSelector over a scalar task result
check("Task returning 42, ResultSelector {'v.$': '$'}",
      run({"StartAt": "T", "States": {"T": {"Type": "Task", "Resource": ECHO,
           "ResultSelector": WRAP, "End": True}}}, {}, lambda arn, p, n: 42),
      ("SUCCEEDED", {"v": 42}, None))

# 3. the data has a member whose name ends in ".$" (e.g. the execution input is
#    itself a piece of ASL / a template that is being stored or forwarded)
doc = {"template": {"name.$": "$.user"}, "user": "alice"}
check("Pass Parameters {'v.$': '$'}, data has a member named 'name.$'",
      run(pass_machine(Parameters=WRAP), doc),
      ("SUCCEEDED", {"v": doc}, None))

# 4. the data has an array with a string that ends in ".$"
doc2 = {"columns": ["id", "price.$", "qty"]}
check("Pass Parameters {'v.$': '$'}, data has the string 'price.$' in an array",
      run(pass_machine(Parameters=WRAP), doc2),
      ("SUCCEEDED", {"v": doc2}, None))

# 5. what a Task is invoked with: Parameters {"Payload.$": "$"} is the idiom of
#    every Lambda invocation; the task must receive the effective input verbatim
run({"StartAt": "T", "States": {"T": {"Type": "Task", "Resource": ECHO,
     "Parameters": {"Payload.$": "$"}, "End": True}}}, doc)
check("Task Parameters {'Payload.$': '$'}: parameters the task is invoked with",
      last_calls, [{"Payload": doc}])

# 6. unit level, incl. the data reading the Context Object through the template

def _try(f):
    try:
        return f()
    except Exception as e:
        return "%s: %s" % (type(e).__name__, e)


check("evaluate_payload_template(7, ctx, {'v.$': '$'})",
      _try(lambda: evaluate_payload_template(7, {}, {"v.$": "$"})), {"v": 7})
secret_ctx = {"Execution": {"Id": "arn:secret"}}
check("data {'x.$': '$$.Execution.Id'} must stay data",
      _try(lambda: evaluate_payload_template({"x.$": "$$.Execution.Id"}, secret_ctx, {"v.$": "$"})),
      {"v": {"x.$": "$$.Execution.Id"}})

# ---- controls (sibling code: any other path is inserted verbatim) ------------
check("control: Parameters {'v.$': '$.n'} with n = 5",
      run(pass_machine(Parameters={"v.$": "$.n"}), {"n": 5}),
      ("SUCCEEDED", {"v": 5}, None))
check("control: Parameters {'v.$': '$.template'} inserts the member verbatim",
      run(pass_machine(Parameters={"v.$": "$.template"}), doc),
      ("SUCCEEDED", {"v": doc["template"]}, None))
check("control: Parameters {'v.$': '$'} with a plain object",
      run(pass_machine(Parameters=WRAP), {"a": [1, {"b": None}]}),
      ("SUCCEEDED", {"v": {"a": [1, {"b": None}]}}, None))
inp = {"a": {"b": 1}}
out = evaluate_payload_template(inp, {}, {"v.$": "$"})
out["v"]["a"]["b"] = 2
check("control: the inserted value is a copy (input not aliased)", inp, {"a": {"b": 1}})

if failures:
    print("\nDEFECT PRESENT: %d case(s) - \"x.$\": \"$\" expands the input data as if it "
          "were a Payload Template: %s" % (len(failures), failures))
    sys.exit(1)
print("\nall cases as prescribed by the States Language")
sys.exit(0)
