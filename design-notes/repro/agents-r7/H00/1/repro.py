#!/usr/bin/env python3
"""
H00 / defect 1 (property C01): the terminal status is derived in-band from the
data. Any state machine whose (perfectly successful) output - or the output of
one Parallel branch / Map iteration - is a JSON object with a truthy member
named "Error" is reported FAILED, although no Fail state was reached and no
error occurred.

Run as:
  cd <worktree>/asl-workflow-engine/py && /venv/bin/python /tmp/r7/hout/H00/1/repro.py
Drives the real StateEngine; only the broker (FIFO in-memory queue), the timers
and the task invocation are stubbed. Exits 1 on the unchanged tree.
"""
import sys, os, json, tempfile, collections, atexit, shutil
sys.path.insert(0, os.getcwd())
os.environ.setdefault("LOG_LEVEL", "CRITICAL")
from asl_workflow_engine.state_engine import StateEngine

SM_ARN = "arn:aws:states:local:0123456789:stateMachine:sm"


class Dispatcher(object):
    """FIFO, replies-in-order stand-in for the AMQP EventDispatcher."""
    def __init__(self, engine):
        self.engine = engine
        engine.event_dispatcher = self
        self.queue = collections.deque()
        self.next_id = 0
        self.unacknowledged_messages = {}
        self.notifications = []
        self.timers = {}
        self.timer_seq = 0

    def set_timeout(self, callback, delay):
        self.timer_seq += 1
        self.timers[self.timer_seq] = callback
        self.queue.append(("timer", self.timer_seq))
        return self.timer_seq

    def clear_timeout(self, tid):
        self.timers.pop(tid, None)

    def acknowledge(self, id):
        self.unacknowledged_messages.pop(id, None)

    def publish(self, item, **kw):
        self.queue.append(("event", json.dumps(item)))

    def broadcast(self, subject, message, carrier_properties=None):
        self.notifications.append(json.loads(json.dumps(message)))

    def run(self, limit=10000):
        while self.queue and limit:
            limit -= 1
            kind, payload = self.queue.popleft()
            if kind == "event":
                self.next_id += 1
                id = str(self.next_id)
                self.unacknowledged_messages[id] = payload
                self.engine.notify(json.loads(payload), id)
            else:
                callback = self.timers.pop(payload, None)
                if callback:
                    callback()


def run(asl, data, task_fn=None):
    tmp = tempfile.mkdtemp(prefix="h00_")
    atexit.register(shutil.rmtree, tmp, True)
    config = {"state_engine": {"store_url": os.path.join(tmp, "ASL_store.json"),
                               "execution_ttl": 500}}
    engine = StateEngine(config)
    dispatcher = Dispatcher(engine)
    calls = []

    def execute_task(resource_arn, parameters, callback, timeout,
                     is_task_timeout, context, event_id, redelivered):
        calls.append(resource_arn)
        result = task_fn(resource_arn, parameters, len(calls)) if task_fn else parameters
        callback(json.loads(json.dumps(result)))

    engine.task_dispatcher.execute_task = execute_task
    dispatcher.publish({"data": data, "context": {
        "StateMachine": {"Id": SM_ARN, "Definition": asl}}})
    dispatcher.run()
    final = [n["detail"] for n in dispatcher.notifications
             if n["detail"]["status"] != "RUNNING"]
    if len(final) != 1:
        return ("NO-SINGLE-TERMINAL-NOTIFICATION(%d)" % len(final), None, None)
    d = final[0]
    # The DescribeExecution record must agree with the notification.
    rec = dict(engine.executions[d["executionArn"]])
    assert rec["status"] == d["status"], (rec, d)
    output = json.loads(d["output"]) if d.get("output") is not None else None
    return (d["status"], output, d.get("error"))


failures = []


def check(name, got, expected):
    ok = got == expected
    print("%-4s %s\n       expected %s\n       observed %s" % (
        "ok" if ok else "BAD", name, expected, got))
    if not ok:
        failures.append(name)


PASS_END = {"Type": "Pass", "End": True}

# 1. A Pass state whose Result is an object with an "Error" member: End state
#    reached, nothing failed -> SUCCEEDED with the Result as output.
result = {"Error": "none", "Code": 0}
check("Pass/End with Result {'Error': 'none', 'Code': 0}",
      run({"StartAt": "P", "States": {"P": {"Type": "Pass", "Result": result, "End": True}}}, {}),
      ("SUCCEEDED", result, None))

# 2. The execution input merely has a field named Error (e.g. a record of an
#    earlier problem being post-processed) and reaches a Succeed state.
doc = {"Error": "E1234", "msg": "disk full on host-7"}
check("Succeed state, input has a field named 'Error'",
      run({"StartAt": "S", "States": {"S": {"Type": "Succeed"}}}, doc),
      ("SUCCEEDED", doc, None))

# 3. Same after a successful Task that returns its input.
check("Task/End echoing an input that has a field named 'Error'",
      run({"StartAt": "T", "States": {"T": {
          "Type": "Task", "Resource": "arn:aws:rpcmessage:local::function:echo",
          "ResultPath": "$.r", "OutputPath": "$.in", "End": True}}},
          {"in": doc}, lambda arn, p, n: {"done": True}),
      ("SUCCEEDED", doc, None))

# 4. One branch of a Parallel state (successfully) outputs such an object: the
#    Parallel state must yield the branch outputs in branch order.
check("Parallel, branch 1 outputs an object with an 'Error' member",
      run({"StartAt": "Par", "States": {"Par": {"Type": "Parallel", "End": True, "Branches": [
          {"StartAt": "A", "States": {"A": {"Type": "Pass", "Result": 1, "End": True}}},
          {"StartAt": "B", "States": {"B": {"Type": "Pass", "Result": result, "End": True}}}]}}}, {}),
      ("SUCCEEDED", [1, result], None))

# 5. Map over items that have an "Error" member.
items = [{"id": 1, "Error": "timeout"}, {"id": 2, "Error": "refused"}]
check("Map over items that have an 'Error' member",
      run({"StartAt": "M", "States": {"M": {"Type": "Map", "End": True, "ItemProcessor": {
          "StartAt": "I", "States": {"I": PASS_END}}}}}, items),
      ("SUCCEEDED", items, None))

# ---- controls: real failures must (still) be FAILED --------------------------
check("control: Fail state",
      run({"StartAt": "F", "States": {"F": {"Type": "Fail", "Error": "Boom", "Cause": "c"}}}, {}),
      ("FAILED", None, "Boom"))
check("control: unhandled task error",
      run({"StartAt": "T", "States": {"T": {
          "Type": "Task", "Resource": "arn:aws:rpcmessage:local::function:f", "End": True}}},
          {}, lambda arn, p, n: {"errorType": "MyError", "errorMessage": "m"}),
      ("FAILED", None, "MyError"))
check("control: Fail state inside a Parallel branch",
      run({"StartAt": "Par", "States": {"Par": {"Type": "Parallel", "End": True, "Branches": [
          {"StartAt": "A", "States": {"A": {"Type": "Pass", "End": True}}},
          {"StartAt": "B", "States": {"B": {"Type": "Fail", "Error": "Boom", "Cause": "c"}}}]}}}, {}),
      ("FAILED", None, "Boom"))
check("control: caught error, execution continues to an End state",
      run({"StartAt": "T", "States": {
          "T": {"Type": "Task", "Resource": "arn:aws:rpcmessage:local::function:f",
                "Catch": [{"ErrorEquals": ["States.ALL"], "ResultPath": "$.err", "Next": "R"}], "End": True},
          "R": {"Type": "Pass", "Result": "recovered", "ResultPath": "$.err", "End": True}}},
          {"a": 1}, lambda arn, p, n: {"errorType": "MyError", "errorMessage": "m"}),
      ("SUCCEEDED", {"a": 1, "err": "recovered"}, None))
check("control: failing iteration of a Map fails the execution",
      run({"StartAt": "M", "States": {"M": {"Type": "Map", "End": True, "ItemProcessor": {
          "StartAt": "I", "States": {"I": {"Type": "Fail", "Error": "Bad", "Cause": "c"}}}}}}, [1, 2]),
      ("FAILED", None, "Bad"))

if failures:
    print("\nDEFECT PRESENT: %d case(s) - a successful output that has a member named "
          "\"Error\" makes the engine report the execution (or Parallel/Map state) as "
          "FAILED: %s" % (len(failures), failures))
    sys.exit(1)
print("\nall cases as prescribed by the States Language")
sys.exit(0)
