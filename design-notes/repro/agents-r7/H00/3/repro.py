#!/usr/bin/env python3
"""
H00 / defect 3 (property C12, "Placing a result with ResultPath ... reading the
same path returns the result and every other member of the input is unchanged
... for dot and bracket notation alike"): apply_resultpath() does not understand
bracket notation. For the Reference Path $['a'] it keeps the quotes and writes
a NEW member literally named  'a'  (with the apostrophes); the addressed member
is not replaced, and reading the same path back does not return the result.

Run as:
  cd <worktree>/asl-workflow-engine/py && /venv/bin/python /tmp/r7/hout/H00/3/repro.py
Drives the real path functions and the real StateEngine; only the broker (FIFO
in-memory queue), the timers and the task invocation are stubbed.
Exits 1 on the unchanged tree.
"""
import sys, os, json, tempfile, collections, atexit, shutil
sys.path.insert(0, os.getcwd())
os.environ.setdefault("LOG_LEVEL", "CRITICAL")
from asl_workflow_engine.state_engine import StateEngine

SM_ARN = "arn:aws:states:local:0123456789:stateMachine:sm"


class Dispatcher(object):
    """FIFO, replies-in-order stand-in for the AMQP EventDispatcher."""
    def __init__(self, engine):
        self.engine = engine
        engine.event_dispatcher = self
        self.queue = collections.deque()
        self.next_id = 0
        self.unacknowledged_messages = {}
        self.notifications = []
        self.timers = {}
        self.timer_seq = 0

    def set_timeout(self, callback, delay):
        self.timer_seq += 1
        self.timers[self.timer_seq] = callback
        self.queue.append(("timer", self.timer_seq))
        return self.timer_seq

    def clear_timeout(self, tid):
        self.timers.pop(tid, None)

    def acknowledge(self, id):
        self.unacknowledged_messages.pop(id, None)

    def publish(self, item, **kw):
        self.queue.append(("event", json.dumps(item)))

    def broadcast(self, subject, message, carrier_properties=None):
        self.notifications.append(json.loads(json.dumps(message)))

    def run(self, limit=10000):
        while self.queue and limit:
            limit -= 1
            kind, payload = self.queue.popleft()
            if kind == "event":
                self.next_id += 1
                id = str(self.next_id)
                self.unacknowledged_messages[id] = payload
                self.engine.notify(json.loads(payload), id)
            else:
                callback = self.timers.pop(payload, None)
                if callback:
                    callback()


def run(asl, data, task_fn=None):
    tmp = tempfile.mkdtemp(prefix="h00_")
    atexit.register(shutil.rmtree, tmp, True)
    config = {"state_engine": {"store_url": os.path.join(tmp, "ASL_store.json"),
                               "execution_ttl": 500}}
    engine = StateEngine(config)
    dispatcher = Dispatcher(engine)
    calls = []

    def execute_task(resource_arn, parameters, callback, timeout,
                     is_task_timeout, context, event_id, redelivered):
        calls.append(resource_arn)
        result = task_fn(resource_arn, parameters, len(calls)) if task_fn else parameters
        callback(json.loads(json.dumps(result)))

    engine.task_dispatcher.execute_task = execute_task
    dispatcher.publish({"data": data, "context": {
        "StateMachine": {"Id": SM_ARN, "Definition": asl}}})
    dispatcher.run()
    final = [n["detail"] for n in dispatcher.notifications
             if n["detail"]["status"] != "RUNNING"]
    if len(final) != 1:
        return ("NO-SINGLE-TERMINAL-NOTIFICATION(%d)" % len(final), None, None)
    d = final[0]
    # The DescribeExecution record must agree with the notification.
    rec = dict(engine.executions[d["executionArn"]])
    assert rec["status"] == d["status"], (rec, d)
    output = json.loads(d["output"]) if d.get("output") is not None else None
    return (d["status"], output, d.get("error"))



import copy
from asl_workflow_engine.state_engine_paths import apply_resultpath, apply_jsonpath
from asl_workflow_engine.asl_exceptions import ResultPathMatchFailure

failures = []


def check(name, got, expected):
    ok = got == expected
    print("%-4s %s\n       expected %s\n       observed %s" % (
        "ok" if ok else "BAD", name, expected, got))
    if not ok:
        failures.append(name)


def put(document, result, path):
    """apply_resultpath on a private copy -> (output, what reading `path` from the output gives)"""
    try:
        out = apply_resultpath(copy.deepcopy(document), result, path)
    except ResultPathMatchFailure as e:
        return "ResultPathMatchFailure"
    except Exception as e:
        return "%s: %s" % (type(e).__name__, e)
    try:
        back = apply_jsonpath(out, path)
    except Exception as e:
        back = "%s" % type(e).__name__
    return (out, back)


R = {"r": [1, 2]}
# ---- the laws, function level (put-get, frame) -------------------------------
check("$['a'] replaces the existing member a",
      put({"a": 1, "b": 2}, R, "$['a']"), ({"a": R, "b": 2}, R))
check("$['c'] adds the member c",
      put({"a": 1}, R, "$['c']"), ({"a": 1, "c": R}, R))
check("$.a['b'] (dot then bracket)",
      put({"a": {"b": 1, "k": 0}}, R, "$.a['b']"), ({"a": {"b": R, "k": 0}}, R))
check("$['a']['b'] (bracket, bracket)",
      put({"a": {"b": 1, "k": 0}}, R, "$['a']['b']"), ({"a": {"b": R, "k": 0}}, R))
check("$['a'].b (bracket then dot)",
      put({"a": {"b": 1}}, R, "$['a'].b"), ({"a": {"b": R}}, R))
check("$['task result'] (a name that only bracket notation can express)",
      put({"x": 1}, R, "$['task result']"), ({"x": 1, "task result": R}, R))
check("$['list'][1] (bracket name, array index)",
      put({"list": [0, 1, 2]}, R, "$['list'][1]"), ({"list": [0, R, 2]}, R))

# ---- single-state executions -------------------------------------------------
check("Pass Result 7, ResultPath $['a'], input {'a': 1, 'b': 2}",
      run({"StartAt": "P", "States": {"P": {"Type": "Pass", "Result": 7,
           "ResultPath": "$['a']", "End": True}}}, {"a": 1, "b": 2}),
      ("SUCCEEDED", {"a": 7, "b": 2}, None))
check("Pass Result 7, ResultPath $['a'], OutputPath $['a']  (put then get)",
      run({"StartAt": "P", "States": {"P": {"Type": "Pass", "Result": 7,
           "ResultPath": "$['a']", "OutputPath": "$['a']", "End": True}}}, {"a": 1}),
      ("SUCCEEDED", 7, None))
check("Task ResultPath $['task result'], next state InputPath $['task result']",
      run({"StartAt": "T", "States": {
          "T": {"Type": "Task", "Resource": "arn:aws:rpcmessage:local::function:f",
                "ResultPath": "$['task result']", "Next": "U"},
          "U": {"Type": "Pass", "InputPath": "$['task result']", "End": True}}},
          {"x": 1}, lambda arn, p, n: {"ok": True}),
      ("SUCCEEDED", {"ok": True}, None))
check("Catch ResultPath $['error'] keeps the input and adds the Error Output",
      run({"StartAt": "T", "States": {
          "T": {"Type": "Task", "Resource": "arn:aws:rpcmessage:local::function:f",
                "Catch": [{"ErrorEquals": ["States.ALL"], "ResultPath": "$['error']", "Next": "U"}], "End": True},
          "U": {"Type": "Pass", "OutputPath": "$.error.Error", "End": True}}},
          {"x": 1}, lambda arn, p, n: {"errorType": "MyError", "errorMessage": "m"}),
      ("SUCCEEDED", "MyError", None))

# ---- controls: dot notation (sibling arm of the same tokeniser) is right -----
check("control: $.a", put({"a": 1, "b": 2}, R, "$.a"), ({"a": R, "b": 2}, R))
check("control: $.a.b", put({"a": {"b": 1, "k": 0}}, R, "$.a.b"), ({"a": {"b": R, "k": 0}}, R))
check("control: $.list[1]", put({"list": [0, 1, 2]}, R, "$.list[1]"), ({"list": [0, R, 2]}, R))
check("control: $.list[7] is unplaceable", put({"list": [0]}, R, "$.list[7]"), "ResultPathMatchFailure")
check("control: $.a.b with a primitive a is unplaceable", put({"a": 1}, R, "$.a.b"), "ResultPathMatchFailure")
check("control: $ replaces", put({"a": 1}, R, "$"), (R, R))
check("control: null discards", apply_resultpath({"a": 1}, R, None), {"a": 1})

if failures:
    print("\nDEFECT PRESENT: %d case(s) - ResultPath in bracket notation writes to a member "
          "named with the quotes instead of the addressed member: %s" % (len(failures), failures))
    sys.exit(1)
print("\nall cases obey put-get and frame")
sys.exit(0)
