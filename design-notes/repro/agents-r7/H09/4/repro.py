#!/usr/bin/env python
"""
C20 - "a cached view returns the current value ..." x store configuration (Redis server version).

RedisStore decides whether the server supports server-assisted client side caching (Redis >= 6.0.0)
with   int(redis_version.replace(".", "")) < 600.   That is only right while every component has
one digit: "5.0.9" -> 509 (old, fine) but "5.0.14" -> 5014, "4.0.14" -> 4014, "3.2.13" -> 3213 are
all taken for >= 6.0.0.  Against such a server (5.0.14 is the last Redis 5 release and what
Debian 10 ships) the first get_cached_view() sends CLIENT TRACKING, which the server rejects, so
the call raises instead of returning the value; tracker_id has been set by then, so every later
get_cached_view() fills / serves the LRU cache although tracking was never switched on: nothing
ever invalidates it and it returns superseded values for ever.

Run:  cd asl-workflow-engine/py && /venv/bin/python /tmp/r7/hout/H09/4/repro.py
"""
import sys, os
sys.path.insert(0, os.getcwd())
os.environ.setdefault("LOG_LEVEL", "CRITICAL")

import sys, types, json, threading, queue, fnmatch, time
from collections.abc import MutableMapping, MutableSequence

INVALIDATE = b"__redis__:invalidate"

class FakeServer:
    def __init__(self, version="7.0.11"):
        self.version = version
        self.data = {}            # key (str) -> dict | list
        self.ttls = {}            # key -> seconds
        self.ids = 0
        self.tracking = {}        # connection id -> redirect connection id (tracking is ON)
        self.remembered = {}      # key -> set(connection id)
        self.pubsubs = []         # every PubSub object of every connection
        self.lock = threading.RLock()
        self.commands = []        # (connection id, command, key)

    def new_id(self):
        self.ids += 1
        return self.ids

    # -- tracking
    def read(self, cid, cmd, key):
        self.commands.append((cid, cmd, key))
        if cid in self.tracking:
            self.remembered.setdefault(key, set()).add(cid)

    def modified(self, cid, cmd, key):
        self.commands.append((cid, cmd, key))
        for reader in self.remembered.pop(key, set()):
            redirect = self.tracking.get(reader)
            if redirect is not None:
                self.push(redirect, {"type": "message", "pattern": None,
                                     "channel": INVALIDATE, "data": [key.encode("utf-8")]})

    def push(self, cid, message):
        for ps in self.pubsubs:
            if ps.cid == cid and message["channel"] in ps.channels:
                ps.q.put(message)

    def publish(self, channel, data):
        channel = channel if isinstance(channel, bytes) else channel.encode()
        data = data if isinstance(data, bytes) else str(data).encode()
        n = 0
        for ps in self.pubsubs:
            if channel in ps.channels:
                ps.q.put({"type": "message", "pattern": None, "channel": channel, "data": data})
                n += 1
        return n

    def settle(self, timeout=2.0):
        """Wait until every pushed message has been consumed by a (live) listener, or time out."""
        end = time.time() + timeout
        while time.time() < end:
            if all(ps.q.unfinished_tasks == 0 for ps in self.pubsubs):
                return True
            time.sleep(0.005)
        return False

SERVERS = {}      # url -> FakeServer

class ResponseError(Exception):
    pass

class PubSub:
    def __init__(self, server, cid, ignore_subscribe_messages=False):
        self.server, self.cid = server, cid
        self.channels = {}        # channel (bytes) -> handler or None
        self.q = queue.Queue()
        server.pubsubs.append(self)
    def subscribe(self, *args, **kwargs):
        for c in args:
            self.channels[c.encode() if isinstance(c, str) else c] = None
        for c, h in kwargs.items():
            self.channels[c.encode()] = h
    @property
    def subscribed(self):
        return bool(self.channels)
    def listen(self):
        while self.subscribed:
            message = self.q.get()
            try:
                handler = self.channels.get(message["channel"])
                if handler:
                    handler(message)       # an exception propagates, as in redis-py
                    continue
            finally:
                self.q.task_done()
            yield message
    def close(self):
        self.channels = {}

class Pool:
    def __init__(self, server):
        self.server = server

class Redis:
    def __init__(self, connection_pool=None):
        self.connection_pool = connection_pool
        self.server = connection_pool.server
        self.cid = self.server.new_id()
    @classmethod
    def from_url(cls, url, **kw):
        return cls(connection_pool=Pool(SERVERS[url]))
    # -- admin
    def ping(self): return True
    def info(self, section=None): return {"redis_version": self.server.version}
    def client_id(self): return self.cid
    def close(self): pass
    def pubsub(self, ignore_subscribe_messages=False):
        return PubSub(self.server, self.cid, ignore_subscribe_messages)
    def publish(self, channel, data): return self.server.publish(channel, data)
    def execute_command(self, *args):
        args = [str(a) for a in args]
        if args[:2] == ["CLIENT", "TRACKING"]:
            if int(self.server.version.split(".")[0]) < 6:
                raise ResponseError("Unknown subcommand or wrong number of arguments for 'TRACKING'. Try CLIENT HELP")
            if args[2] == "ON":
                self.server.tracking[self.cid] = int(args[4])
            else:
                self.server.tracking.pop(self.cid, None)
            return b"OK"
        raise ResponseError("unknown command " + " ".join(args))
    # -- keys
    def delete(self, key):
        with self.server.lock:
            existed = key in self.server.data
            self.server.data.pop(key, None); self.server.ttls.pop(key, None)
            if existed: self.server.modified(self.cid, "DEL", key)
            return int(existed)
    def exists(self, key):
        self.server.read(self.cid, "EXISTS", key)
        return int(key in self.server.data)
    def expire(self, key, ttl):
        if key in self.server.data:
            self.server.ttls[key] = int(ttl)
            return 1
        return 0
    def ttl(self, key):
        if key not in self.server.data: return -2
        return self.server.ttls.get(key, -1)
    def scan(self, cursor=0, match=None, count=None):
        keys = [k.encode() for k in self.server.data if match is None or fnmatch.fnmatchcase(k, match)]
        return 0, keys
    # -- hashes
    def _hash(self, key, create=False):
        v = self.server.data.get(key)
        if v is None and create:
            v = self.server.data[key] = {}
        return v if v is not None else {}
    def hset(self, key, field, value):
        with self.server.lock:
            self._hash(key, True)[field] = value
            self.server.modified(self.cid, "HSET", key)
    def hget(self, key, field):
        self.server.read(self.cid, "HGET", key)
        return self._hash(key).get(field)
    def hdel(self, key, field):
        with self.server.lock:
            h = self._hash(key)
            if field in h:
                del h[field]
                if not h: self.server.data.pop(key, None); self.server.ttls.pop(key, None)
                self.server.modified(self.cid, "HDEL", key)
                return 1
            return 0
    def hkeys(self, key):
        self.server.read(self.cid, "HKEYS", key)
        return list(self._hash(key))
    def hlen(self, key):
        self.server.read(self.cid, "HLEN", key)
        return len(self._hash(key))
    # -- lists
    def rpush(self, key, *values):
        with self.server.lock:
            l = self.server.data.setdefault(key, [])
            l.extend(values)
            self.server.modified(self.cid, "RPUSH", key)
            return len(l)
    def lrange(self, key, start, stop):
        self.server.read(self.cid, "LRANGE", key)
        l = self.server.data.get(key, [])
        stop = len(l) if stop == -1 else stop + 1
        return l[start:stop]
    def llen(self, key):
        self.server.read(self.cid, "LLEN", key)
        return len(self.server.data.get(key, []))
    def lset(self, key, index, value):
        self.server.data[key][index] = value
        self.server.modified(self.cid, "LSET", key)

class KeyExistsError(Exception):
    pass

class RedisDict(MutableMapping):
    """pottery.RedisDict: a Redis hash whose fields and values are JSON encoded."""
    def __init__(self, data=None, *, redis=None, key=None, **kw):
        self.redis, self.key = redis, key
        if data:
            if redis.exists(key):
                raise KeyExistsError(key)
            for k, v in dict(data).items():
                self[k] = v
    def __getitem__(self, k):
        v = self.redis.hget(self.key, json.dumps(k))
        if v is None: raise KeyError(k)
        return json.loads(v)
    def __setitem__(self, k, v): self.redis.hset(self.key, json.dumps(k), json.dumps(v))
    def __delitem__(self, k):
        if not self.redis.hdel(self.key, json.dumps(k)): raise KeyError(k)
    def __iter__(self): return (json.loads(k) for k in self.redis.hkeys(self.key))
    def __len__(self): return self.redis.hlen(self.key)
    def __repr__(self): return "RedisDict" + repr(dict(self))

class RedisList(MutableSequence):
    """pottery.RedisList: a Redis list whose elements are JSON encoded."""
    def __init__(self, data=None, *, redis=None, key=None, **kw):
        self.redis, self.key = redis, key
        if data:
            if redis.exists(key):
                raise KeyExistsError(key)
            self.redis.rpush(key, *[json.dumps(v) for v in data])
    def __getitem__(self, i):
        l = [json.loads(v) for v in self.redis.lrange(self.key, 0, -1)]
        return l[i]
    def __setitem__(self, i, v): self.redis.lset(self.key, i, json.dumps(v))
    def __delitem__(self, i): raise NotImplementedError
    def __len__(self): return self.redis.llen(self.key)
    def insert(self, i, v):
        if i >= len(self): self.redis.rpush(self.key, json.dumps(v))
        else: raise NotImplementedError
    def __repr__(self): return "RedisList" + repr(list(self))

def install():
    r = types.ModuleType("redis"); r.Redis = Redis; r.ResponseError = ResponseError
    p = types.ModuleType("pottery"); p.RedisDict = RedisDict; p.RedisList = RedisList; p.KeyExistsError = KeyExistsError
    sys.modules["redis"] = r; sys.modules["pottery"] = p

# =============================================================================================
# The scenario - drives the REAL asl_workflow_engine.store classes
# =============================================================================================
install()
from asl_workflow_engine import store

ARN = "arn:aws:states:local:0123456789:stateMachine:sm"
def definition(v):
    return {"definition": {"StartAt": "S", "States": {"S": {"Type": "Pass", "Result": v, "End": True}}},
            "type": "STANDARD", "name": "sm"}

def new_engine_instance(url):
    if hasattr(store.RedisStore, "connection"):
        del store.RedisStore.connection
    return store.create_ASL_store(url)

failures = []
keep_alive = []
for version in ("5.0.9", "6.0.10", "7.0.11", "5.0.14"):
    url = "redis://fake-" + version
    server = SERVERS[url] = FakeServer(version)
    supports_tracking = int(version.split(".")[0]) >= 6
    reader = new_engine_instance(url)
    writer = new_engine_instance(url)
    keep_alive += [reader, writer]
    writer[ARN] = definition(1)
    seen = []
    for step in (1, 2):
        try:
            seen.append(reader.get_cached_view(ARN)["definition"]["States"]["S"]["Result"])
        except Exception as e:
            seen.append("%s: %s" % (type(e).__name__, e))
    writer[ARN] = definition(2)            # the definition is replaced (UpdateStateMachine elsewhere)
    server.settle()
    try:
        seen.append(reader.get_cached_view(ARN)["definition"]["States"]["S"]["Result"])
    except Exception as e:
        seen.append("%s: %s" % (type(e).__name__, e))
    tracking_sent = reader.tracker_id is not None
    print("Redis %-7s get_cached_view() -> %s   (after v1, v1, v2 written)   tracking attempted: %s" % (
        version, seen, tracking_sent))
    if seen != [1, 1, 2]:
        failures.append("Redis %s: get_cached_view() returned %s, expected [1, 1, 2]" % (version, seen))
    if tracking_sent != supports_tracking:
        failures.append("Redis %s: %s CLIENT TRACKING" % (
            version, "tried to use" if tracking_sent else "did not use"))

sys.stdout.flush()
if failures:
    print("FAIL (C20):")
    for f in failures:
        print("  -", f)
    os._exit(1)
print("OK")
os._exit(0)
