#!/usr/bin/env python
"""
C20 - "State machine definitions written through the file ... store are still there after the
engine restarts" x crash point.

JSONStore._update_store() rewrites the whole store file IN PLACE for every __setitem__/__delitem__:
open(path, "w") truncates the file first, json.dump() then streams the new content into it.  If the
engine dies anywhere in between (kill -9, OOM, power, disk full), the file is empty or cut short.
At the next start JSONStore.__init__ reports "does not contain valid JSON" and starts EMPTY:
not just the definition being written, but every definition ever persisted is gone (and the first
write afterwards makes the loss permanent).  With the engine's "Definition by value" feature
(notify() stores context.StateMachine.Definition) such a rewrite happens on every StartExecution.

The crash is real: a child process opens the store, starts writing a new definition and is
SIGKILLed half way through json.dump (the only instrumentation is in the child: json.dump is wrapped
so that the process kills itself after half of the document has been written).

Run:  cd asl-workflow-engine/py && /venv/bin/python /tmp/r7/hout/H09/6/repro.py
"""
import sys, os, json, subprocess, tempfile, textwrap
sys.path.insert(0, os.getcwd())
os.environ.setdefault("LOG_LEVEL", "CRITICAL")
from asl_workflow_engine.store import create_ASL_store

def definition(v):
    return {"definition": {"StartAt": "S", "States": {"S": {"Type": "Pass", "Result": v, "End": True}}},
            "type": "STANDARD", "name": "sm%d" % v}

import atexit, shutil
tmp = tempfile.mkdtemp(prefix="tmp_", dir=os.path.dirname(os.path.abspath(__file__)))
atexit.register(shutil.rmtree, tmp, True)
path = os.path.join(tmp, "ASL_store.json")

# Engine run 1: two state machines are created and persisted.
s = create_ASL_store(path)
s["arn:sm1"] = definition(1)
s["arn:sm2"] = definition(2)
del s

# Control: a normal restart finds them.
assert sorted(create_ASL_store(path)) == ["arn:sm1", "arn:sm2"], "control failed"

# Engine run 2: CreateStateMachine for a third one; the process is killed during the write.
child = textwrap.dedent("""
    import sys, os, json, signal
    sys.path.insert(0, os.getcwd())
    os.environ.setdefault("LOG_LEVEL", "CRITICAL")
    from asl_workflow_engine import store
    real_dump = json.dump
    def dump_then_die(obj, fp, **kw):
        text = json.dumps(obj, **kw)
        fp.write(text[:len(text) // 2]); fp.flush()
        os.kill(os.getpid(), signal.SIGKILL)           # the engine dies here
    s = store.create_ASL_store(sys.argv[1])
    assert sorted(s) == ["arn:sm1", "arn:sm2"]
    json.dump = dump_then_die
    s["arn:sm3"] = {"definition": {"StartAt": "S", "States": {"S": {"Type": "Succeed"}}}, "type": "STANDARD", "name": "sm3"}
""")
rc = subprocess.call([sys.executable, "-c", child, path])
print("engine run 2 ended with", rc, "(-9 = killed)")
assert rc == -9, "the child was expected to be killed"

# Engine run 3: restart.
restarted = create_ASL_store(path)
found = sorted(restarted)
print("definitions found after the restart:", found)
if "arn:sm1" not in found or "arn:sm2" not in found:
    print("FAIL (C20 persistence): definitions that had been persisted by an earlier run were lost by a "
          "crash during a later write; the store restarted with %s" % found)
    sys.exit(1)
if restarted["arn:sm1"] != definition(1) or restarted["arn:sm2"] != definition(2):
    print("FAIL (C20 persistence): persisted definitions were altered")
    sys.exit(1)
print("OK")
