#!/usr/bin/env python
"""
C06 - "Nothing a sibling does afterwards (... an already queued event ...) adds history, produces
another notification, changes the recorded outcome ...; the execution still ends exactly once."

The termination gate (branch_has_terminated) that drops the events of terminated branches is only
applied AFTER notify() has checked that the event's state exists.  A queued sibling event whose
state cannot be found (the branch's "Next" names a state that does not exist, or the state machine
was updated/renamed while the execution was in flight - the engine looks the definition up again
for every event) bypasses the gate, is turned into a States.Runtime failure of the *already failed*
Parallel state and ends the execution a second time.

Run:  cd asl-workflow-engine/py && /venv/bin/python /tmp/r7/hout/H09/3/repro.py
"""
"""
Harness: real StateEngine + real EventDispatcher + real TaskDispatcher + real Message class,
driven over an in-memory fake broker (fake Connection/Session/Producer/Consumer) with
explicitly-controlled delivery order and virtual timers.
"""
import sys, types, json, os, logging, itertools, collections
sys.path.insert(0, os.getcwd())

# ---- stub pika (only imported, never used by the fake connection) ----
pika = types.ModuleType("pika")
pika.exceptions = types.ModuleType("pika.exceptions")
class _E(Exception): pass
for n in ("ConnectionClosedByBroker", "NackError", "AMQPConnectionError", "ChannelClosed",
          "ChannelClosedByBroker", "ConnectionClosed", "UnroutableError", "AMQPError",
          "ChannelWrongStateError", "StreamLostError", "AMQPChannelError"):
    setattr(pika.exceptions, n, type(n, (_E,), {}))
pika.BasicProperties = lambda **kw: kw
pika.spec = types.ModuleType("pika.spec")
sys.modules.setdefault("pika", pika)
sys.modules.setdefault("pika.exceptions", pika.exceptions)
sys.modules.setdefault("pika.spec", pika.spec)

os.environ.setdefault("LOG_LEVEL", "CRITICAL")

import asl_workflow_engine.event_dispatcher as ed_mod
from asl_workflow_engine.state_engine import StateEngine
from asl_workflow_engine.event_dispatcher import EventDispatcher
from asl_workflow_engine.amqp_0_9_1_messaging import Message

logging.getLogger("asl_workflow_engine").setLevel(logging.CRITICAL)


class FakeChannel:
    def __init__(self, broker):
        self.broker = broker
    def basic_ack(self, delivery_tag=0, multiple=False):
        self.broker.acked(delivery_tag)
    def add_on_close_callback(self, cb): pass


class Broker:
    """Queues are FIFO lists of (Message-as-sent).  Nothing is delivered until the test says so."""
    def __init__(self):
        self.queues = collections.OrderedDict()     # name -> list of sent Message
        self.listeners = {}                         # queue name -> callable
        self.tags = itertools.count(1)
        self.unacked = {}                           # delivery tag -> (queue, Message)
        self.acks = []                              # (queue, message_id / correlation_id)
        self.broadcasts = []                        # (subject, body dict)
        self.timers = collections.OrderedDict()     # id -> [callback, delay, seq]
        self.timer_ids = itertools.count(1)
        self.channel = FakeChannel(self)
        self.rpc_requests = []                      # Messages sent to worker queues
        self.engine_queues = set()
        self.log = []

    # --- producer side
    def send(self, exchange, message):
        subject = message.subject or exchange
        if exchange and exchange.startswith("TOPIC:"):
            self.broadcasts.append((message.subject, json.loads(message.body)))
            return
        if subject in self.engine_queues:
            self.queues.setdefault(subject, []).append(message)
        else:
            self.rpc_requests.append(message)

    # --- consumer side
    def deliver(self, queue, index=0, redelivered=False):
        sent = self.queues[queue].pop(index)
        return self._deliver(queue, sent, redelivered)

    def _deliver(self, queue, sent, redelivered=False):
        body = sent.body if isinstance(sent.body, bytes) else sent.body.encode("utf8")
        m = Message(body, properties=dict(sent.properties or {}), content_type=sent.content_type,
                    correlation_id=sent.correlation_id, reply_to=sent.reply_to,
                    message_id=sent.message_id, redelivered=redelivered)
        m._channel = self.channel
        m._delivery_tag = next(self.tags)
        self.unacked[m._delivery_tag] = (queue, m)
        self.listeners[queue](m)
        return m

    def acked(self, tag):
        q, m = self.unacked.pop(tag)     # KeyError == double ack
        self.acks.append((q, m.message_id or m.correlation_id))

    # --- timers (virtual)
    def set_timeout(self, callback, delay):
        tid = next(self.timer_ids)
        self.timers[tid] = (callback, delay)
        return tid
    def clear_timeout(self, tid):
        self.timers.pop(tid, None)
    def fire(self, tid):
        cb, delay = self.timers.pop(tid)
        cb()
    def zero_timers(self):
        return [t for t, (cb, d) in self.timers.items() if d <= 0]
    def named_timers(self):
        return {t: (getattr(cb, "__qualname__", repr(cb)), d) for t, (cb, d) in self.timers.items()}


class FakeProducer:
    def __init__(self, broker, target):
        self.broker = broker
        self.name = target.split(";")[0].strip()
        self.return_cb = None
    def send(self, message, threadsafe=False):
        self.broker.send(self.name, message)
    def set_return_callback(self, cb):
        self.return_cb = cb
        self.broker.return_cb = cb

class FakeConsumer:
    def __init__(self, broker, source):
        self.broker = broker
        self.name = source.split(";")[0].strip()
        self.capacity = 0
        broker.engine_queues.add(self.name)
        broker.queues.setdefault(self.name, [])
    def set_message_listener(self, listener):
        self.broker.listeners[self.name] = listener

class FakeSession:
    def __init__(self, broker):
        self.broker = broker
        self.channel = broker.channel
    def producer(self, target=""):
        return FakeProducer(self.broker, target)
    def consumer(self, source=""):
        return FakeConsumer(self.broker, source)

class FakeConnection:
    broker = None
    def __init__(self, url=None):
        self.b = FakeConnection.broker
    def open(self): pass
    def session(self): return FakeSession(self.b)
    def set_timeout(self, cb, delay): return self.b.set_timeout(cb, delay)
    def clear_timeout(self, tid): return self.b.clear_timeout(tid)
    def start(self): pass       # returns immediately: the test drives the "event loop"
    def close(self): pass


import tempfile, atexit, shutil
_TMP = tempfile.mkdtemp(prefix="tmp_", dir=os.path.dirname(os.path.abspath(__file__)))
atexit.register(shutil.rmtree, _TMP, True)

def make_engine(store_url=None, retention_ms=600000, execution_ttl=86400):
    store_url = store_url or os.path.join(_TMP, "ASL_store.json")
    config = {
        "event_queue": {"queue_name": "asl_workflow_events", "instance_id": "i1",
                        "queue_implementation": "AMQP-0.9.1", "connection_url": "amqp://localhost:5672",
                        "orphaned_response_retention_ms": retention_ms},
        "notifier": {"topic": "TOPIC:asl_workflow_engine", "message_ttl": 0},
        "state_engine": {"store_url": store_url, "execution_ttl": execution_ttl},
    }
    try:
        os.remove(store_url)
    except OSError:
        pass
    broker = Broker()
    FakeConnection.broker = broker
    se = StateEngine(config)
    ed = EventDispatcher(se, config)
    ed_mod.Connection = FakeConnection
    ed.start()
    # drop the heartbeat timer, the test calls heartbeat itself if needed
    for t, (cb, d) in list(broker.timers.items()):
        if getattr(cb, "__name__", "") == "heartbeat":
            broker.timers.pop(t)
    return se, ed, broker

SHARED = "asl_workflow_events"
INST = "asl_workflow_events-i1"
REPLY = "asl_workflow_reply_to-i1"

def start_execution(broker, arn, asl, data, name="x1"):
    ctx = {"StateMachine": {"Id": arn, "Definition": asl}, "Execution": {"Name": name}}
    m = Message(json.dumps({"data": data, "context": ctx}), content_type="application/json")
    m.message_id = "start-" + name
    broker.queues[SHARED].append(m)

def run(broker, deliver_events=True, fire_zero=True, limit=1000):
    """Run until quiescent: FIFO event delivery, then zero-delay timers."""
    n = 0
    progress = True
    while progress and n < limit:
        progress = False
        if fire_zero:
            for t in broker.zero_timers():
                if t in broker.timers:
                    broker.fire(t); progress = True; n += 1
        if deliver_events:
            for q in (SHARED, INST):
                if broker.queues[q]:
                    broker.deliver(q); progress = True; n += 1
                    break
    return n

def reply(broker, request, body):
    m = Message(json.dumps(body), correlation_id=request.correlation_id)
    return broker._deliver(REPLY, m)

def history(se, execution_arn):
    return [(h["id"], h["type"]) for h in se.execution_history.get(execution_arn, [])]

def notifications(broker):
    return [(s.rsplit(".", 1)[1]) for s, b in broker.broadcasts]

# =============================================================================================
# Scenario
# =============================================================================================
import copy
ARN = "arn:aws:states:local:0123456789:stateMachine:sm"
EX = "arn:aws:states:local:0123456789:execution:sm:x1"

def task(fn, **kw):
    d = {"Type": "Task", "Resource": "arn:aws:rpcmessage:local::function:" + fn}
    d.update(kw)
    return d

def asl(next_name, defined_name):
    return {"StartAt": "P", "States": {"P": {"Type": "Parallel", "End": True, "Branches": [
        {"StartAt": "A", "States": {"A": task("fa", End=True)}},
        {"StartAt": "B", "States": {"B": task("fb", Next=next_name),
                                    defined_name: {"Type": "Pass", "End": True}}}]}}}

def scenario(variant):
    se, ed, b = make_engine()
    if variant == "dangling Next":
        start_execution(b, ARN, asl("B2", "B2_typo"), {})     # B.Next names a state that is not there
    else:
        start_execution(b, ARN, asl("B2", "B2"), {})          # perfectly legal definition
    run(b)
    fa = [m for m in b.rpc_requests if m.subject == "fa"][0]
    fb = [m for m in b.rpc_requests if m.subject == "fb"][0]
    reply(b, fb, {"ok": 1})                 # branch B moves on: its event for state "B2" is now queued
    assert len(b.queues[INST]) == 1
    reply(b, fa, {"errorType": "Boom", "errorMessage": "branch A failed"})   # branch A fails first
    after_failure = (history(se, EX), notifications(b), dict(se.executions[EX]))
    if variant == "definition updated":
        # UpdateStateMachine (rest_api: self.asl_store[arn] = state_machine) with a legal definition
        # in which the state has been renamed.
        sm = dict(se.asl_store[ARN]); sm["definition"] = asl("B2_renamed", "B2_renamed")
        se.asl_store[ARN] = sm
    run(b)                                  # the sibling's queued event is delivered
    return after_failure, (history(se, EX), notifications(b), dict(se.executions[EX])), ed, se

failures = []
for variant in ("dangling Next", "definition updated"):
    (h0, n0, d0), (h1, n1, d1), ed, se = scenario(variant)
    print("---", variant)
    print("   after the failure   : history ends", [t for _, t in h0[-3:]], " notifications", n0,
          " outcome", (d0["status"], d0.get("error")))
    print("   after the straggler : history ends", [t for _, t in h1[-5:]], " notifications", n1,
          " outcome", (d1["status"], d1.get("error")))
    if n0 != ["RUNNING", "FAILED"] or h0[-1][1] != "ExecutionFailed":
        failures.append("%s: unexpected state after the failure" % variant)
    if h1 != h0:
        failures.append("%s: the sibling's queued event added history after the terminal event: %s" % (
            variant, [t for _, t in h1[len(h0):]]))
    if n1 != n0:
        failures.append("%s: a second terminal notification was broadcast: %s" % (variant, n1))
    if (d1["status"], d1.get("error"), d1.get("cause")) != (d0["status"], d0.get("error"), d0.get("cause")):
        failures.append("%s: the recorded outcome changed from %r to %r" % (variant, d0.get("error"), d1.get("error")))
    if ed.unacknowledged_messages or se.branch_metadata:
        failures.append("%s: left-overs %s %s" % (variant, list(ed.unacknowledged_messages), list(se.branch_metadata)))
if failures:
    print("FAIL (C06):")
    for f in failures:
        print("  -", f)
    sys.exit(1)
print("OK")
