#!/usr/bin/env python
"""
C18 - a validator-accepted machine must run; a definition the engine cannot
interpret "at worst fails its own execution with a terminal FAILED status".

Run as:
  cd /tmp/r7/wt/H08/asl-workflow-engine/py && /venv/bin/python /tmp/r7/hout/H08/5/repro.py

The REAL StateLint and StateEngine are used, only the broker (EventDispatcher
queue / acknowledgements / timers) is stubbed.

    Fan out : Parallel  "Branches": []  (e.g. produced by a generator that had
                                          nothing to fan out to)  Next: Done
    Done    : Succeed

statelint reports no problem ("Branches" is an object-array, the ASL spec does
not ask for it to be non-empty). The engine publishes one event per branch -
i.e. none - acknowledges the Parallel state's event and returns: nothing is
left in flight, no timer, no branch metadata for the expiry back-stop, so the
execution stays RUNNING for ever (TimeoutSeconds: 5 notwithstanding).

Exit 0 iff the execution reaches a terminal status (the fix gives SUCCEEDED
with output [] like a Map state over an empty array); exit 1 if it is stuck.
"""
import sys, os, json, heapq, itertools, tempfile, shutil

os.environ.setdefault("LOG_LEVEL", "CRITICAL")
sys.path.insert(0, os.getcwd())

from asl_workflow_engine.state_engine import StateEngine
from statelint.statelint import StateLint


class Dispatcher(object):
    """FIFO, non recursive stand-in for EventDispatcher (broker + timers)."""
    def __init__(self, engine):
        self.engine = engine
        engine.event_dispatcher = self
        self.queue, self.timers = [], []
        self.now, self.seq, self.n = 0.0, itertools.count(), 0
        self.unacknowledged_messages = {}

    def publish(self, item, threadsafe=False, use_shared_queue=False):
        self.queue.append(json.dumps(item))

    def acknowledge(self, id):
        self.unacknowledged_messages.pop(id, None)

    def set_timeout(self, callback, delay):
        timer = (self.now + delay, next(self.seq), callback)
        heapq.heappush(self.timers, timer)
        return timer

    def clear_timeout(self, timer):
        if timer in self.timers:
            self.timers.remove(timer)
            heapq.heapify(self.timers)

    def broadcast(self, subject, message, carrier_properties=None):
        pass

    def run(self, max_steps=10000):
        for _ in range(max_steps):
            if self.queue:
                body = self.queue.pop(0)
                self.n += 1
                id = "event-%d" % self.n
                self.unacknowledged_messages[id] = body
                self.engine.notify(json.loads(body), id)
            elif self.timers:  # every timer, however far in the future
                timer = heapq.heappop(self.timers)
                self.now = max(self.now, timer[0])
                timer[2]()
            else:
                return


MACHINES = {
    "empty-next": {
        "StartAt": "Fan out", "TimeoutSeconds": 5,
        "States": {
            "Fan out": {"Type": "Parallel", "Branches": [],
                        "ResultPath": "$.results", "Next": "Done"},
            "Done": {"Type": "Succeed"},
        },
    },
    "empty-end": {
        "StartAt": "Fan out", "TimeoutSeconds": 5,
        "States": {"Fan out": {"Type": "Parallel", "Branches": [], "End": True}},
    },
    # The sibling: a Map state with nothing to iterate over completes with [].
    "map-empty": {
        "StartAt": "Each", "TimeoutSeconds": 5,
        "States": {"Each": {"Type": "Map", "ItemsPath": "$.items", "End": True,
                   "ItemProcessor": {"StartAt": "I", "States": {
                       "I": {"Type": "Pass", "End": True}}}}},
    },
    "healthy": {"StartAt": "A", "States": {"A": {"Type": "Pass", "End": True}}},
}


def main():
    tmp = tempfile.mkdtemp(prefix="h08-5-")
    stuck = []
    try:
        lint = StateLint()
        engine = StateEngine({"state_engine": {
            "store_url": os.path.join(tmp, "ASL_store.json"),
            "execution_ttl": 86400}})
        dispatcher = Dispatcher(engine)
        executions = {}
        for name, definition in MACHINES.items():
            problems = lint.validate(json.loads(json.dumps(definition)))
            print("%-11s validator problems: %s" % (name, problems))
            if problems:
                return 2
            arn = "arn:aws:states:local:0123456789:stateMachine:" + name
            engine.asl_store[arn] = {
                "creationDate": 0, "updateDate": 0, "definition": definition,
                "name": name, "stateMachineArn": arn,
                "roleArn": "arn:aws:iam::0123456789:role/r",
                "status": "ACTIVE", "type": "STANDARD"}
            dispatcher.publish({"data": {"items": []}, "context": {
                "StateMachine": {"Id": arn}, "Execution": {"Name": "e"}}})
            executions[name] = arn.replace(":stateMachine:", ":execution:") + ":e"

        dispatcher.run()
        # The periodic back-stop of the real EventDispatcher heartbeat
        engine.heartbeat(60)
        dispatcher.run()

        print("in flight: %d queued events, %d unacknowledged, %d timers, "
              "%d executions with branch metadata" % (
               len(dispatcher.queue), len(dispatcher.unacknowledged_messages),
               len(dispatcher.timers), len(engine.branch_metadata)))
        for name, execution_arn in executions.items():
            detail = engine.executions[execution_arn]
            types_ = [e["type"] for e in engine.execution_history[execution_arn]]
            print("%-11s -> %-9s output=%s  history=%s" % (
                name, detail["status"], detail.get("output"), types_))
            if detail["status"] not in ("SUCCEEDED", "FAILED"):
                stuck.append(name)
    finally:
        shutil.rmtree(tmp, ignore_errors=True)

    if stuck:
        print("\nFAIL (C18): validator-accepted machine(s) %s are stuck in RUNNING "
              "with nothing left in flight - they can never end" % stuck)
        return 1
    print("\nOK: every execution reached a terminal status")
    return 0


if __name__ == "__main__":
    sys.exit(main())
