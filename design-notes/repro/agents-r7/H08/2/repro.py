#!/usr/bin/env python
"""
C16 - "An execution input, a state output or a task result is accepted if its
JSON text has at most 262144 characters ... Values exactly at a limit are
accepted and values one over are refused", and the independent enforcement
points "have to agree with each other".

Run as:
  cd /tmp/r7/wt/H08/asl-workflow-engine/py && /venv/bin/python /tmp/r7/hout/H08/2/repro.py

The REAL RestAPI (Quart app, driven through its test client), the REAL
StateEngine and the REAL TaskDispatcher reply handler are used; only the
broker (EventDispatcher queue/timers, Message class, reply message) is stubbed.

A state machine   Copy (Pass, no fields) -> Done (Succeed)   is created through
CreateStateMachine and started through StartExecution with inputs whose JSON
text is AT or BELOW the 262144 character quota. StartExecution accepts every
one of them (HTTP 200). The Pass state copies its input to its output, so the
state output is the *same JSON value* and must be accepted as well.

Exit 0 iff every accepted input runs to SUCCEEDED (and the controls behave);
exit 1 (unchanged tree) because the engine fails them with
States.DataLimitExceeded.
"""
import sys, os, json, heapq, itertools, tempfile, shutil, asyncio, types

os.environ.setdefault("LOG_LEVEL", "CRITICAL")
sys.path.insert(0, os.getcwd())

for missing in ("pika", "pika.adapters", "pika.adapters.asyncio_connection",
                "pika.exceptions", "redis", "pottery"):
    sys.modules.setdefault(missing, types.ModuleType(missing))

from asl_workflow_engine.state_engine import StateEngine, MAX_DATA_LENGTH
import asl_workflow_engine.event_dispatcher as event_dispatcher_module


class Message(object):  # Stand-in for the AMQP Message class
    def __init__(self, body="", **kwargs):
        self.body = body.encode("utf8") if isinstance(body, str) else body
        self.properties = kwargs.get("properties") or {}
        self.correlation_id = kwargs.get("correlation_id")
        self.subject = kwargs.get("subject")
        self.acknowledged = False

    def acknowledge(self, multiple=False):
        self.acknowledged = True


event_dispatcher_module.Message = Message
from asl_workflow_engine.rest_api_asyncio import RestAPI


class Dispatcher(object):
    """FIFO, non recursive stand-in for EventDispatcher (broker + timers)."""
    def __init__(self, engine):
        self.engine = engine
        engine.event_dispatcher = self
        self.queue, self.timers = [], []
        self.now, self.seq, self.n = 0.0, itertools.count(), 0
        self.unacknowledged_messages = {}

    def publish(self, item, threadsafe=False, use_shared_queue=False):
        self.queue.append(json.dumps(item))  # as the real one: json.dumps(item)

    def acknowledge(self, id):
        self.unacknowledged_messages.pop(id, None)

    def set_timeout(self, callback, delay):
        timer = (self.now + delay, next(self.seq), callback)
        heapq.heappush(self.timers, timer)
        return timer

    def clear_timeout(self, timer):
        if timer in self.timers:
            self.timers.remove(timer)
            heapq.heapify(self.timers)

    def broadcast(self, subject, message, carrier_properties=None):
        pass

    def run(self, max_steps=10000):
        for _ in range(max_steps):
            if self.queue:
                body = self.queue.pop(0)
                self.n += 1
                id = "event-%d" % self.n
                self.unacknowledged_messages[id] = body
                self.engine.notify(json.loads(body), id)
            elif self.timers and self.timers[0][0] <= self.now:
                # Only timers that are due: virtual time never advances here,
                # so Task/Execution timeouts never fire.
                heapq.heappop(self.timers)[2]()
            else:
                return


def text_object(n, filler="x"):
    """JSON text {"a":"xxx..."} of exactly n characters."""
    text = '{"a":"' + filler * (n - 8) + '"}'
    assert len(text) == n
    return text


def text_string(n):
    text = '"' + "s" * (n - 2) + '"'
    assert len(text) == n
    return text


L = MAX_DATA_LENGTH
CASES = [
    # label, JSON text of the input, StartExecution must accept it?
    ("string, exactly L (control)",       text_string(L), True),
    ("string, L+1 (control)",             text_string(L + 1), False),
    ("object {\"a\":\"x..\"}, exactly L", text_object(L), True),
    ("object {\"a\":\"x..\"}, L-1",       text_object(L - 1), True),
    ("object {\"a\":\"x..\"}, L+1 (control)", text_object(L + 1), False),
    ("array [1,1,..], 200001 chars",      "[" + ",".join(["1"] * 100000) + "]", True),
    ("object with 50000 CJK chars (50008 chars)", text_object(50008, "汉"), True),
]

ROLE = "arn:aws:iam::0123456789:role/service-role/MyRole"
DEFINITION = json.dumps({
    "StartAt": "Copy",
    "States": {"Copy": {"Type": "Pass", "Next": "Done"},
               "Done": {"Type": "Succeed"}},
})


async def call(client, action, params):
    response = await client.post(
        "/", data=json.dumps(params),
        headers={"Content-Type": "application/x-amz-json-1.0",
                 "x-amz-target": "AWSStepFunctions." + action})
    body = await response.get_data()
    try:
        body = json.loads(body)
    except ValueError:
        body = body.decode("utf8")
    return response.status_code, body


async def scenario(tmp):
    failures = []
    config = {
        "state_engine": {"store_url": os.path.join(tmp, "ASL_store.json"),
                         "execution_ttl": 86400},
        "rest_api": {"host": "127.0.0.1", "port": 0, "region": "local",
                     "validate_asl": True},
    }
    engine = StateEngine(config)
    dispatcher = Dispatcher(engine)
    client = RestAPI(engine, dispatcher, config).create_app().test_client()

    status, body = await call(client, "CreateStateMachine", {
        "name": "copy", "roleArn": ROLE, "definition": DEFINITION})
    assert status == 200, (status, body)
    arn = body["stateMachineArn"]

    for i, (label, text, acceptable) in enumerate(CASES):
        status, body = await call(client, "StartExecution", {
            "stateMachineArn": arn, "name": "e%d" % i, "input": text})
        if not acceptable:
            ok = status == 400 and body.get("__type") == "InvalidExecutionInput"
            print("%-45s len=%6d  StartExecution -> %s %s  %s" % (
                label, len(text), status, body.get("__type"),
                "ok" if ok else "WRONG"))
            if not ok:
                failures.append(label)
            continue
        if status != 200:
            print("%-45s len=%6d  StartExecution -> %s %s  WRONG" % (
                label, len(text), status, body))
            failures.append(label)
            continue
        dispatcher.run()
        status, detail = await call(client, "DescribeExecution", {
            "executionArn": body["executionArn"]})
        same = (detail.get("output") is not None and
                json.loads(detail["output"]) == json.loads(text))
        ok = detail.get("status") == "SUCCEEDED" and same
        print("%-45s len=%6d  StartExecution -> 200, execution -> %s %s  %s" % (
            label, len(text), detail.get("status"), detail.get("error") or "",
            "ok" if ok else "WRONG"))
        if not ok:
            failures.append(label)

    """
    A state that really produces an output over / at the quota: Pass with
    "Result": "y", "ResultPath": "$.b" turns {"a":"x.."} (n characters) into
    {"a":"x..","b":"y"} (n + 8 characters).
    """
    grow_definition = {
        "StartAt": "Grow",
        "States": {"Grow": {"Type": "Pass", "Result": "y", "ResultPath": "$.b",
                            "Next": "Done"},
                   "Done": {"Type": "Succeed"}},
    }
    status, body = await call(client, "CreateStateMachine", {
        "name": "grow", "roleArn": ROLE,
        "definition": json.dumps(grow_definition)})
    assert status == 200, (status, body)
    for n, expected in ((L - 8, "SUCCEEDED"), (L - 7, "FAILED")):
        label = "Pass output {\"a\":\"x..\",\"b\":\"y\"} of %s chars" % (
            "exactly L" if n == L - 8 else "L+1")
        status, started = await call(client, "StartExecution", {
            "stateMachineArn": body["stateMachineArn"], "name": "g%d" % n,
            "input": text_object(n)})
        assert status == 200, (status, started)
        dispatcher.run()
        status, detail = await call(client, "DescribeExecution", {
            "executionArn": started["executionArn"]})
        ok = detail.get("status") == expected and (
            expected == "SUCCEEDED" or
            detail.get("error") == "States.DataLimitExceeded")
        print("%-45s len=%6d  execution -> %s %s  %s" % (
            label, n + 8, detail.get("status"), detail.get("error") or "",
            "ok" if ok else "WRONG (expected %s)" % expected))
        if not ok:
            failures.append(label)

    """
    The same disagreement between the task reply check (characters of the
    reply text, task_dispatcher.py) and the state output check: a worker reply
    of exactly L characters is accepted as the Task result, and then the Task
    state whose output *is* that result is failed.
    """
    task_definition = {
        "StartAt": "Work",
        "States": {"Work": {"Type": "Task", "End": True,
                   "Resource": "arn:aws:rpcmessage:local::function:worker"}},
    }
    status, body = await call(client, "CreateStateMachine", {
        "name": "task", "roleArn": ROLE,
        "definition": json.dumps(task_definition)})
    assert status == 200, (status, body)

    sent = []

    class Producer(object):
        def send(self, message, threadsafe=False):
            sent.append(message)
    engine.task_dispatcher.producer = Producer()
    engine.task_dispatcher.reply_to = types.SimpleNamespace(name="reply-queue")
    status, body = await call(client, "StartExecution", {
        "stateMachineArn": body["stateMachineArn"], "name": "t", "input": "{}"})
    assert status == 200, (status, body)
    dispatcher.run()
    label = "task reply {\"a\":\"x..\"}, exactly L"
    if len(sent) != 1:
        print("UNEXPECTED: the Task request was not sent", sent)
        failures.append(label)
    else:
        reply = Message(text_object(L), correlation_id=sent[0].correlation_id)
        engine.task_dispatcher.handle_rpcmessage_response(reply)
        dispatcher.run()
        status, detail = await call(client, "DescribeExecution", {
            "executionArn": body["executionArn"]})
        ok = detail.get("status") == "SUCCEEDED"
        print("%-45s len=%6d  execution -> %s %s  %s" % (
            label, L, detail.get("status"), detail.get("error") or "",
            "ok" if ok else "WRONG"))
        if not ok:
            failures.append(label)
    return failures


def main():
    tmp = tempfile.mkdtemp(prefix="h08-2-")
    try:
        failures = asyncio.run(scenario(tmp))
    finally:
        shutil.rmtree(tmp, ignore_errors=True)
    if failures:
        print("\nFAIL (C16): JSON texts within the 262144 character quota, "
              "accepted by the API / the task reply check,\nare refused by the "
              "state output check: %s" % failures)
        return 1
    print("\nOK: all enforcement points agree at the boundary")
    return 0


if __name__ == "__main__":
    sys.exit(main())
