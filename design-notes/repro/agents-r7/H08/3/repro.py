#!/usr/bin/env python
"""
C16 - "an execution whose history exceeds 25000 events is failed rather than
growing without bound".

Run as:
  cd /tmp/r7/wt/H08/asl-workflow-engine/py && /venv/bin/python /tmp/r7/hout/H08/3/repro.py

The REAL StateLint and StateEngine are used, only the broker (EventDispatcher
queue / acknowledgements / timers) is stubbed.

The (validator-clean) machine is the classic "keep trying until it works":

    Attempt : Parallel [ Work : Fail "NotReady" ]
              Catch [ { ErrorEquals: [States.ALL], Next: Attempt } ]
              Next: Done
    Done    : Succeed

Every attempt adds 5 events to the history, so the execution reaches the
25000 event quota after 5000 attempts. At that point it must be FAILED.
On the unchanged tree the States.ExecutionHistoryLimitExceeded error that
the engine raises is itself caught by the machine's own States.ALL catcher,
the execution stays RUNNING and its history grows for ever.

Exit 0 iff the execution is FAILED with at most a few events over the quota.
"""
import sys, os, json, heapq, itertools, tempfile, shutil

os.environ.setdefault("LOG_LEVEL", "CRITICAL")
sys.path.insert(0, os.getcwd())

from asl_workflow_engine.state_engine import StateEngine, MAX_EXECUTION_HISTORY_LENGTH
from statelint.statelint import StateLint


class Dispatcher(object):
    """FIFO, non recursive stand-in for EventDispatcher (broker + timers)."""
    def __init__(self, engine):
        self.engine = engine
        engine.event_dispatcher = self
        self.queue, self.timers = [], []
        self.now, self.seq, self.n = 0.0, itertools.count(), 0
        self.unacknowledged_messages = {}

    def publish(self, item, threadsafe=False, use_shared_queue=False):
        self.queue.append(json.dumps(item))

    def acknowledge(self, id):
        self.unacknowledged_messages.pop(id, None)

    def set_timeout(self, callback, delay):
        timer = (self.now + delay, next(self.seq), callback)
        heapq.heappush(self.timers, timer)
        return timer

    def clear_timeout(self, timer):
        if timer in self.timers:
            self.timers.remove(timer)
            heapq.heapify(self.timers)

    def broadcast(self, subject, message, carrier_properties=None):
        pass

    def run(self, max_steps):
        """Deliver up to max_steps events / due timers, return how many."""
        for step in range(max_steps):
            if self.queue:
                body = self.queue.pop(0)
                self.n += 1
                id = "event-%d" % self.n
                self.unacknowledged_messages[id] = body
                self.engine.notify(json.loads(body), id)
            elif self.timers and self.timers[0][0] <= self.now:
                heapq.heappop(self.timers)[2]()
            else:
                return step
        return max_steps


DEFINITION = {
    "StartAt": "Attempt",
    "States": {
        "Attempt": {
            "Type": "Parallel",
            "Branches": [{
                "StartAt": "Work",
                "States": {"Work": {"Type": "Fail", "Error": "NotReady",
                                    "Cause": "try again"}},
            }],
            "Catch": [{"ErrorEquals": ["States.ALL"], "Next": "Attempt"}],
            "Next": "Done",
        },
        "Done": {"Type": "Succeed"},
    },
}


def main():
    tmp = tempfile.mkdtemp(prefix="h08-3-")
    try:
        problems = StateLint().validate(json.loads(json.dumps(DEFINITION)))
        print("validator problems:", problems)
        if problems:
            return 2

        engine = StateEngine({"state_engine": {
            "store_url": os.path.join(tmp, "ASL_store.json"),
            "execution_ttl": 86400}})
        dispatcher = Dispatcher(engine)
        arn = "arn:aws:states:local:0123456789:stateMachine:retry-for-ever"
        engine.asl_store[arn] = {
            "creationDate": 0, "updateDate": 0, "definition": DEFINITION,
            "name": "retry-for-ever", "stateMachineArn": arn,
            "roleArn": "arn:aws:iam::0123456789:role/r",
            "status": "ACTIVE", "type": "STANDARD"}
        dispatcher.publish({"data": {}, "context": {
            "StateMachine": {"Id": arn}, "Execution": {"Name": "e"}}})
        execution_arn = "arn:aws:states:local:0123456789:execution:retry-for-ever:e"

        # Run until the quota has been passed ...
        while True:
            delivered = dispatcher.run(500)
            length = len(engine.execution_history[execution_arn])
            status = engine.executions[execution_arn]["status"]
            if delivered < 500 or status != "RUNNING" or length > MAX_EXECUTION_HISTORY_LENGTH:
                break
        print("quota passed  : history has %d events, status %s" % (length, status))

        # ... then give the engine plenty of further deliveries to fail it.
        for checkpoint in range(3):
            dispatcher.run(2000)
            length = len(engine.execution_history[execution_arn])
            detail = engine.executions[execution_arn]
            print("+2000 deliveries: history has %d events, status %s %s" % (
                length, detail["status"], detail.get("error") or ""))

        tail = [e["type"] for e in engine.execution_history[execution_arn][-4:]]
        print("last events   :", tail)
    finally:
        shutil.rmtree(tmp, ignore_errors=True)

    if detail["status"] != "FAILED" or length > MAX_EXECUTION_HISTORY_LENGTH + 10:
        print("\nFAIL (C16): the execution is %s with %d history events (quota %d): "
              "the history limit error was swallowed by the machine's own "
              "States.ALL catcher and the history grows without bound" % (
               detail["status"], length, MAX_EXECUTION_HISTORY_LENGTH))
        return 1
    print("\nOK: the execution was failed (%s) at %d events" % (
          detail.get("error"), length))
    return 0


if __name__ == "__main__":
    sys.exit(main())
