#!/usr/bin/env python
"""
C18 - a definition for which the bundled validator (statelint) reports no
problem must never fail at run time for being an "Illegal State Machine".

Run as:
  cd /tmp/r7/wt/H08/asl-workflow-engine/py && /venv/bin/python /tmp/r7/hout/H08/1/repro.py

The REAL StateLint and the REAL StateEngine are used. Only the broker (the
EventDispatcher: a FIFO queue with acknowledgements and a timer heap) is
stubbed. Three validator-clean machines whose Parallel branch / Map iterator
state names are perfectly legal strings are run beside a healthy execution:

  dotted     a branch state called "Step 1.1"            (name holds JSONPath syntax)
  own-key    a branch state called "Notify" whose own
             Parameters contain a key "Notify"            (name == a payload key)
  other-key  a branch state called "Check" while an
             unrelated top level Pass state has
             "Result": {"Check": true}                     (name == a payload key elsewhere)

Exit 0 iff all of them SUCCEED; exit 1 (unchanged tree) when any of them is
failed with States.Runtime "... Illegal State Machine.".
"""
import sys, os, json, heapq, itertools, tempfile, shutil

os.environ.setdefault("LOG_LEVEL", "CRITICAL")
sys.path.insert(0, os.getcwd())

from asl_workflow_engine.state_engine import StateEngine
from statelint.statelint import StateLint


class Dispatcher(object):
    """FIFO, non recursive stand-in for EventDispatcher (broker + timers)."""
    def __init__(self, engine):
        self.engine = engine
        engine.event_dispatcher = self
        self.queue, self.timers = [], []
        self.now, self.seq, self.n = 0.0, itertools.count(), 0
        self.unacknowledged_messages = {}

    def publish(self, item, threadsafe=False, use_shared_queue=False):
        self.queue.append(json.dumps(item))

    def acknowledge(self, id):
        self.unacknowledged_messages.pop(id, None)

    def set_timeout(self, callback, delay):
        timer = (self.now + delay, next(self.seq), callback)
        heapq.heappush(self.timers, timer)
        return timer

    def clear_timeout(self, timer):
        if timer in self.timers:
            self.timers.remove(timer)
            heapq.heapify(self.timers)

    def broadcast(self, subject, message, carrier_properties=None):
        pass

    def run(self, max_steps=10000):
        for _ in range(max_steps):
            if self.queue:
                body = self.queue.pop(0)
                self.n += 1
                id = "event-%d" % self.n
                self.unacknowledged_messages[id] = body
                self.engine.notify(json.loads(body), id)
            elif self.timers:
                timer = heapq.heappop(self.timers)
                self.now = max(self.now, timer[0])
                timer[2]()
            else:
                return


def branch(states, start):
    return {"StartAt": start, "States": states}


MACHINES = {
    "dotted": {
        "StartAt": "Fan out",
        "States": {
            "Fan out": {
                "Type": "Parallel", "End": True,
                "Branches": [branch({
                    "Step 1.1": {"Type": "Pass", "Next": "Step 1.2"},
                    "Step 1.2": {"Type": "Pass", "End": True},
                }, "Step 1.1")],
            }
        },
    },
    "own-key": {
        "StartAt": "Each",
        "States": {
            "Each": {
                "Type": "Map", "End": True,
                "ItemProcessor": branch({
                    "Notify": {"Type": "Pass",
                               "Parameters": {"Notify": {"channel": "mail"}},
                               "Next": "Done"},
                    "Done": {"Type": "Pass", "End": True},
                }, "Notify"),
            }
        },
    },
    "other-key": {
        "StartAt": "Init",
        "States": {
            "Init": {"Type": "Pass", "Result": {"Check": True},
                     "ResultPath": "$.flags", "Next": "Fan out"},
            "Fan out": {
                "Type": "Parallel", "End": True,
                "Branches": [branch({
                    "Check": {"Type": "Pass", "End": True},
                }, "Check")],
            },
        },
    },
}
INPUTS = {"dotted": {"k": 1}, "own-key": ["a", "b"], "other-key": {"k": 1}}
HEALTHY = {"StartAt": "A", "States": {"A": {"Type": "Pass", "End": True}}}


def install(engine, name, definition):
    arn = "arn:aws:states:local:0123456789:stateMachine:" + name
    engine.asl_store[arn] = {
        "creationDate": 0, "updateDate": 0, "definition": definition,
        "name": name, "roleArn": "arn:aws:iam::0123456789:role/r",
        "stateMachineArn": arn, "status": "ACTIVE", "type": "STANDARD",
    }
    return arn


def start(dispatcher, arn, name, data):
    dispatcher.publish({
        "data": data,
        "context": {"StateMachine": {"Id": arn}, "Execution": {"Name": name}},
    })
    return arn.replace(":stateMachine:", ":execution:") + ":" + name


def main():
    tmp = tempfile.mkdtemp(prefix="h08-1-")
    failures = []
    try:
        lint = StateLint()
        engine = StateEngine({"state_engine": {
            "store_url": os.path.join(tmp, "ASL_store.json"),
            "execution_ttl": 86400}})
        dispatcher = Dispatcher(engine)

        executions = {}
        for name, definition in MACHINES.items():
            problems = lint.validate(json.loads(json.dumps(definition)))
            print("%-10s validator problems: %s" % (name, problems))
            if problems:
                print("UNEXPECTED: the machine was meant to be validator-clean")
                return 2
            arn = install(engine, name, definition)
            executions[name] = start(dispatcher, arn, "e-" + name, INPUTS[name])
        healthy = start(dispatcher, install(engine, "healthy", HEALTHY), "h", {})

        dispatcher.run()

        for name, execution_arn in executions.items():
            detail = engine.executions[execution_arn]
            print("%-10s -> %s %s %s" % (name, detail["status"],
                  detail.get("error") or "", detail.get("cause") or detail.get("output")))
            if detail["status"] != "SUCCEEDED":
                failures.append(name)
        print("healthy    -> %s" % engine.executions[healthy]["status"])
        if engine.executions[healthy]["status"] != "SUCCEEDED":
            failures.append("healthy")
    finally:
        shutil.rmtree(tmp, ignore_errors=True)

    if failures:
        print("\nFAIL (C18): validator-accepted machine(s) %s were failed at run "
              "time as an 'Illegal State Machine'" % failures)
        return 1
    print("\nOK: every validator-accepted machine ran to SUCCEEDED")
    return 0


if __name__ == "__main__":
    sys.exit(main())
