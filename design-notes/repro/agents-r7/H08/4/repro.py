#!/usr/bin/env python
"""
C18 - "... the validator itself reports problems rather than raising, for any
JSON value."

Run as:
  cd /tmp/r7/wt/H08/asl-workflow-engine/py && /venv/bin/python /tmp/r7/hout/H08/4/repro.py

The REAL StateLint and the REAL RestAPI (Quart app through its test client) on
a REAL StateEngine are used; only the broker is stubbed (never reached).

A definition in which a field that J2119 types as "timestamp" (Wait.Timestamp,
Timestamp* comparison operators of a Choice Rule) holds a JSON value other
than a non-empty string - the obvious slip being epoch seconds,
"Timestamp": 1700000000 - makes StateLint.validate() raise instead of
returning a problem list, and CreateStateMachine / UpdateStateMachine answer
500 "InternalError" instead of 400 InvalidDefinition - whether or not
validate_asl is enabled.

Exit 0 iff validate() returns a non-empty problem list for every such value
and the API answers 400 InvalidDefinition; exit 1 on the unchanged tree.
"""
import sys, os, json, tempfile, shutil, asyncio, types

os.environ.setdefault("LOG_LEVEL", "CRITICAL")
sys.path.insert(0, os.getcwd())

for missing in ("pika", "pika.adapters", "pika.adapters.asyncio_connection",
                "pika.exceptions", "redis", "pottery"):
    sys.modules.setdefault(missing, types.ModuleType(missing))

from asl_workflow_engine.state_engine import StateEngine
import asl_workflow_engine.event_dispatcher as event_dispatcher_module
from statelint.statelint import StateLint


class Message(object):  # Stand-in for the AMQP Message class (never used)
    def __init__(self, *args, **kwargs):
        pass


event_dispatcher_module.Message = Message
from asl_workflow_engine.rest_api_asyncio import RestAPI


class Dispatcher(object):  # Stand-in for EventDispatcher (never used)
    def __init__(self, engine):
        engine.event_dispatcher = self

    def publish(self, item, threadsafe=False, use_shared_queue=False):
        pass

    def set_timeout(self, callback, delay):
        return None

    def clear_timeout(self, timer):
        pass


def wait_machine(value):
    return {"StartAt": "Until", "States": {
        "Until": {"Type": "Wait", "Timestamp": value, "End": True}}}


def choice_machine(value):
    return {"StartAt": "When", "States": {
        "When": {"Type": "Choice", "Choices": [
            {"Variable": "$.t", "TimestampLessThan": value, "Next": "Done"}],
            "Default": "Done"},
        "Done": {"Type": "Succeed"}}}


VALUES = [1700000000, 1700000000.5, True, "", [], ["2024-01-01T00:00:00Z"], {},
          {"at": "2024-01-01T00:00:00Z"}]
ROLE = "arn:aws:iam::0123456789:role/service-role/MyRole"


async def call(client, action, params):
    response = await client.post(
        "/", data=json.dumps(params),
        headers={"Content-Type": "application/x-amz-json-1.0",
                 "x-amz-target": "AWSStepFunctions." + action})
    body = await response.get_data()
    try:
        body = json.loads(body)
    except ValueError:
        body = body.decode("utf8")
    return response.status_code, body


async def api_checks(tmp, failures):
    for validate_asl in (True, False):
        config = {
            "state_engine": {"store_url": os.path.join(tmp, "ASL_store%s.json" % validate_asl),
                             "execution_ttl": 86400},
            "rest_api": {"host": "127.0.0.1", "port": 0, "region": "local",
                         "validate_asl": validate_asl},
        }
        engine = StateEngine(config)
        client = RestAPI(engine, Dispatcher(engine), config).create_app().test_client()
        status, body = await call(client, "CreateStateMachine", {
            "name": "until", "roleArn": ROLE,
            "definition": json.dumps(wait_machine(1700000000))})
        kind = body.get("__type") if isinstance(body, dict) else body
        # validate_asl on: 400 InvalidDefinition. validate_asl off: problems
        # are only logged and the machine is stored (200). Never a 500.
        expected = (400, "InvalidDefinition") if validate_asl else (200, None)
        ok = (status, kind) == expected
        print("CreateStateMachine (validate_asl=%-5s) \"Timestamp\": 1700000000 -> %s %s   %s" % (
            validate_asl, status, kind, "ok" if ok else "WRONG, expected %s %s" % expected))
        if not ok:
            failures.append("CreateStateMachine validate_asl=%s" % validate_asl)


def main():
    failures = []
    lint = StateLint()
    for make, field in ((wait_machine, "Wait.Timestamp"),
                        (choice_machine, "Choice Rule TimestampLessThan")):
        for value in VALUES:
            label = "%s = %s" % (field, json.dumps(value))
            try:
                problems = lint.validate(make(value))
            except Exception as e:
                print("%-62s RAISED %s: %s" % (label, type(e).__name__, e))
                failures.append(label)
                continue
            ok = isinstance(problems, list) and any("timestamp" in p for p in problems)
            print("%-62s %s" % (label, problems if ok else "WRONG %s" % problems))
            if not ok:
                failures.append(label)

    # Controls: a proper timestamp is accepted, a malformed string is reported.
    good = lint.validate(wait_machine("2024-01-01T00:00:00Z"))
    bad = lint.validate(wait_machine("tomorrow"))
    print("control: valid timestamp -> %s ; \"tomorrow\" -> %s" % (good, bad))
    if good or not bad:
        failures.append("controls")

    tmp = tempfile.mkdtemp(prefix="h08-4-")
    try:
        asyncio.run(api_checks(tmp, failures))
    finally:
        shutil.rmtree(tmp, ignore_errors=True)

    if failures:
        print("\nFAIL (C18): the validator raised instead of reporting a problem "
              "(and the API answered 500) for: %s" % failures)
        return 1
    print("\nOK: the validator reports a problem for every value")
    return 0


if __name__ == "__main__":
    sys.exit(main())
