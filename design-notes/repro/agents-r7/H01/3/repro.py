"""
In-memory stand-in for the AMQP broker and the event-loop timers, driving the
REAL StateEngine / EventDispatcher / TaskDispatcher code.  Only the broker
(queues, topic, rpc request/reply transport) and set_timeout/clear_timeout are
faked.  Nothing in the project is monkey-patched.
"""
import sys, os, types, json, itertools, tempfile, logging

os.environ.setdefault("LOG_LEVEL", "CRITICAL")
sys.path.insert(0, os.getcwd())

# ---------------------------------------------------------------- fake messaging
class Message(object):
    def __init__(self, body="", properties=None, content_type=None,
                 content_encoding=None, redelivered=False, durable=True,
                 mandatory=False, priority=None, correlation_id=None,
                 reply_to=None, expiration=None, message_id=None,
                 timestamp=None, type=None, user_id=None, app_id=None,
                 cluster_id=None, subject=None):
        self.body = body
        self.properties = {} if properties is None else properties
        self.content_type = content_type
        self.redelivered = redelivered
        self.mandatory = mandatory
        self.correlation_id = correlation_id
        self.reply_to = reply_to
        self.expiration = expiration
        self.message_id = message_id
        self.subject = subject
        self.acked = 0

    def acknowledge(self, multiple=True, threadsafe=False):
        self.acked += 1

    def __repr__(self):
        return "Message(id=%r, corr=%r, subject=%r)" % (
            self.message_id, self.correlation_id, self.subject)


class Connection(object):  # never used: we do not call EventDispatcher.start()
    pass


fake = types.ModuleType("asl_workflow_engine.fake_messaging")
fake.Message = Message
fake.Connection = Connection
sys.modules["asl_workflow_engine.fake_messaging"] = fake

from asl_workflow_engine.state_engine import StateEngine
from asl_workflow_engine.event_dispatcher import EventDispatcher

logging.getLogger("asl_workflow_engine").setLevel(logging.CRITICAL)


class Harness(object):
    def __init__(self, execution_ttl=86400, workdir=None, engine=None, ed=None):
        """
        Builds a StateEngine + EventDispatcher (or adopts the ones passed in)
        and attaches the in-memory broker and timers to them.
        """
        self.tmp = None
        if engine is None:
            self.tmp = tempfile.NamedTemporaryFile(
                prefix="asl_store_", suffix=".json", dir=workdir, delete=False)
            self.tmp.close()
            os.unlink(self.tmp.name)
            config = {
                "event_queue": {
                    "queue_name": "asl_workflow_events",
                    "instance_id": "i1",
                    "queue_implementation": "fake",
                    "connection_url": "amqp://localhost:5672",
                    "orphaned_response_retention_ms": 0,
                },
                "notifier": {"topic": "asl_workflow_engine", "message_ttl": 60000},
                "state_engine": {"store_url": self.tmp.name,
                                 "execution_ttl": execution_ttl},
                "metrics": {},
            }
            engine = StateEngine(config)
            ed = EventDispatcher(engine, config)
        self.engine = engine
        self.ed = ed
        self.td = self.engine.task_dispatcher

        self.queue = []          # undelivered state-transition events
        self.notifications = []  # (subject, cloudwatch event)
        self.rpc = []            # rpcmessage requests sent to workers
        self.timers = {}         # id -> (delay_ms, callback)
        self._tid = itertools.count(1)

        h = self

        class EventProducer(object):
            def send(self, message, threadsafe=False):
                h.queue.append(message)

        class TopicProducer(object):
            def send(self, message, threadsafe=False):
                h.notifications.append(
                    (message.subject, json.loads(message.body)))

        class RpcProducer(object):
            def send(self, message, threadsafe=False):
                h.rpc.append(message)

        class ReplyTo(object):
            name = "asl_workflow_reply_to-i1"

        self.ed.event_queue_producer = EventProducer()
        self.ed.topic_producer = TopicProducer()
        self.ed.set_timeout = self.set_timeout
        self.ed.clear_timeout = self.clear_timeout
        self.td.producer = RpcProducer()
        self.td.reply_to = ReplyTo()

    def cleanup(self):
        try:
            if self.tmp:
                os.unlink(self.tmp.name)
        except OSError:
            pass

    # ------------------------------------------------------------ timers
    def set_timeout(self, callback, delay):
        tid = next(self._tid)
        self.timers[tid] = (delay, callback)
        return tid

    def clear_timeout(self, tid):
        self.timers.pop(tid, None)

    def fire(self, tid):
        delay, cb = self.timers.pop(tid)
        cb()

    def fire_zero_timers(self):
        fired = False
        for tid in sorted(self.timers):
            if tid in self.timers and self.timers[tid][0] <= 0:
                self.fire(tid)
                fired = True
        return fired

    def pending_timers(self, min_delay=1):
        return [(tid, d) for tid, (d, cb) in sorted(self.timers.items())
                if d >= min_delay]

    # ------------------------------------------------------------ delivery
    def deliver(self, index=0, redelivered=False):
        m = self.queue.pop(index)
        m.redelivered = redelivered
        if isinstance(m.body, str):
            m.body = m.body.encode("utf8")
        self.ed.dispatch(m)
        return m

    def run(self, limit=100000):
        """Deliver events FIFO and run zero-delay timers until quiescent."""
        n = 0
        while n < limit:
            if self.fire_zero_timers():
                n += 1
                continue
            if self.queue:
                self.deliver(0)
                n += 1
                continue
            return n
        raise RuntimeError("harness did not quiesce")

    # ------------------------------------------------------------ API-like
    def create_machine(self, arn, definition, type="STANDARD"):
        import time
        now = time.time()
        self.engine.asl_store[arn] = {
            "creationDate": now, "definition": definition,
            "name": arn.rsplit(":", 1)[1],
            "roleArn": "arn:aws:iam::0123456789:role/r",
            "stateMachineArn": arn, "updateDate": now,
            "status": "ACTIVE", "type": type,
        }

    def start(self, sm_arn, name, input):
        """What RestAPI StartExecution publishes."""
        from datetime import datetime, timezone
        exec_arn = sm_arn.replace(":stateMachine:", ":execution:") + ":" + name
        start_time = datetime.now(timezone.utc).astimezone().isoformat()
        context = {
            "Tracer": {},
            "Execution": {"Id": exec_arn, "Input": input, "Name": name,
                          "RoleArn": "arn:aws:iam::0123456789:role/r",
                          "StartTime": start_time},
            "State": {"EnteredTime": start_time, "Name": ""},
            "StateMachine": {"Id": sm_arn, "Name": sm_arn.rsplit(":", 1)[1]},
        }
        self.ed.publish({"data": input, "context": context},
                        use_shared_queue=True)
        return exec_arn

    def reply(self, request, body):
        m = Message(json.dumps(body).encode("utf8"),
                    correlation_id=request.correlation_id,
                    subject=request.reply_to)
        self.td.handle_rpcmessage_response(m)

    # ------------------------------------------------------------ observation
    def describe(self, exec_arn):
        rec = self.engine.executions.get(exec_arn)
        return dict(rec) if rec else None

    def history(self, exec_arn):
        return list(self.engine.execution_history.get(exec_arn, []))

    def statuses(self, exec_arn):
        return [ev["detail"]["status"] for s, ev in self.notifications
                if ev["detail"]["executionArn"] == exec_arn]
# ============================================================== scenario
# C02: a child execution (startExecution.sync) whose parent Task is cancelled
# (parent Task timeout, or the parent's Parallel fails) is ended FAILED when it
# is a plain sequential machine, but NEVER terminates if it contains a
# Parallel/Map state (already completed, or currently running).

ACC = "arn:aws:states:local:0123456789:stateMachine:"
EXE = "arn:aws:states:local:0123456789:execution:"
problems = []

def expect(cond, msg):
    if not cond:
        problems.append(msg)
        print("VIOLATION:", msg)

WORK = {"Type": "Task", "Resource": "arn:aws:rpcmessage:local::function:work",
        "End": True}
PASS_BRANCHES = [{"StartAt": "A", "States": {"A": {"Type": "Pass", "End": True}}},
                 {"StartAt": "B", "States": {"B": {"Type": "Pass", "End": True}}}]
CHILDREN = {
    # control: no Parallel/Map -> today it is (correctly) ended FAILED
    "plain": {"StartAt": "Work", "States": {"Work": WORK}},
    # a Parallel state that completed successfully earlier on
    "afterpar": {"StartAt": "Par", "States": {
        "Par": {"Type": "Parallel", "Branches": PASS_BRANCHES, "Next": "Work"},
        "Work": WORK}},
    # Tasks running inside a Parallel state when the parent gives up
    "inpar": {"StartAt": "Par", "States": {
        "Par": {"Type": "Parallel", "Branches": [
            {"StartAt": "W1", "States": {"W1": WORK}},
            {"StartAt": "W2", "States": {"W2": WORK}}], "End": True}}},
    # waiting in a top level Wait state after a Map state
    "aftermap": {"StartAt": "M", "States": {
        "M": {"Type": "Map", "ItemsPath": "$.items", "Iterator": {
            "StartAt": "I", "States": {"I": {"Type": "Pass", "End": True}}},
            "ResultPath": "$.r", "Next": "Hold"},
        "Hold": {"Type": "Wait", "Seconds": 3600, "End": True}}},
}

def call(child):
    return {"Type": "Task",
            "Resource": "arn:aws:states:local:0123456789:states:startExecution.sync",
            "Parameters": {"StateMachineArn": ACC + child, "Name": "kid-" + child,
                           "Input": {"items": [1, 2]}},
            "TimeoutSeconds": 5, "End": True}

def check_child(H, label, child):
    c = EXE + child + ":kid-" + child
    rec = H.describe(c)
    idle = (not H.queue and not H.pending_timers() and not H.td.cancellers
            and not H.ed.unacknowledged_messages)
    print("  %-9s child %-8s record=%s notifications=%s  (engine idle: %s)"
          % (label, child, rec["status"], H.statuses(c), idle))
    expect(H.statuses(c) == ["RUNNING", "FAILED"] and rec["status"] == "FAILED"
           and rec["stopDate"] is not None and rec.get("error") and rec["output"] is None,
           "%s: cancelled child '%s' must end exactly once as FAILED; record=%s "
           "notifications=%s%s" % (label, child, rec["status"], H.statuses(c),
           " - nothing is left that could ever end it" if idle and rec["status"] == "RUNNING" else ""))
    types = [h["type"] for h in H.history(c)]
    expect(types.count("ExecutionFailed") + types.count("ExecutionSucceeded") == 1
           and types[-1] == "ExecutionFailed",
           "%s: history of child '%s' does not end with one ExecutionFailed: ...%s"
           % (label, child, types[-3:]))

for child in CHILDREN:
    # ---- trigger 1: the parent's Task state times out (TimeoutSeconds: 5)
    H = Harness(workdir=os.path.dirname(os.path.abspath(__file__)))
    try:
        for n, d in CHILDREN.items():
            H.create_machine(ACC + n, d)
        H.create_machine(ACC + "parent", {"StartAt": "Call", "States": {"Call": call(child)}})
        p = H.start(ACC + "parent", "p", {})
        H.run()
        tid = [t for t, d in H.pending_timers() if 4000 < d <= 5000]
        assert len(tid) == 1, H.pending_timers()
        H.fire(tid[0])               # States.Timeout of the parent's Task
        H.run()
        expect(H.statuses(p) == ["RUNNING", "FAILED"], "parent should have FAILED once: %s" % H.statuses(p))
        check_child(H, "timeout", child)
    finally:
        H.cleanup()

    # ---- trigger 2: the sibling branch of the parent's Parallel state fails
    H = Harness(workdir=os.path.dirname(os.path.abspath(__file__)))
    try:
        for n, d in CHILDREN.items():
            H.create_machine(ACC + n, d)
        H.create_machine(ACC + "pparent", {"StartAt": "P", "States": {"P": {
            "Type": "Parallel", "End": True, "Branches": [
                {"StartAt": "Call", "States": {"Call": call(child)}},
                {"StartAt": "Gate", "States": {
                    "Gate": {"Type": "Wait", "Seconds": 1, "Next": "Boom"},
                    "Boom": {"Type": "Fail", "Error": "Boom", "Cause": "sibling fails"}}}]}}})
        p = H.start(ACC + "pparent", "p", {})
        H.run()
        tid = [t for t, d in H.pending_timers() if d <= 1000]
        assert len(tid) == 1, H.pending_timers()
        H.fire(tid[0])               # the sibling's Wait ends, then it Fails
        H.run()
        expect(H.statuses(p) == ["RUNNING", "FAILED"], "parent should have FAILED once: %s" % H.statuses(p))
        check_child(H, "sibling", child)
    finally:
        H.cleanup()

if problems:
    print("\nFAIL: %d violation(s)" % len(problems))
    sys.exit(1)
print("OK")
sys.exit(0)
