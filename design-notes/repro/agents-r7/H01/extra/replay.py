import sys
sys.path.insert(0, "/tmp/r7/hout/H01/extra")
import fuzz, json
from harness import *
seed, fm = int(sys.argv[1]), sys.argv[2] == "1"
# monkeypatch Harness methods to log
orig_deliver, orig_fire, orig_reply = Harness.deliver, Harness.fire, Harness.reply
def deliver(self, index=0, redelivered=False):
    m = self.queue[index]
    ev = json.loads(m.body if isinstance(m.body, str) else m.body.decode())
    st = ev["context"]["State"]
    print("EV  ", ev["context"]["Execution"]["Id"].split(":")[-2:], st.get("Name"), [ (b.get("Parent"), b.get("Index")) for b in st.get("Branch", [])], "data=", json.dumps(ev["data"])[:60])
    r = orig_deliver(self, index, redelivered)
    return r
def fire(self, tid):
    print("TM  ", tid, self.timers[tid][0], getattr(self.timers[tid][1], "__qualname__", ""))
    return orig_fire(self, tid)
def reply(self, req, body):
    print("RP  ", req.subject, body)
    return orig_reply(self, req, body)
Harness.deliver, Harness.fire, Harness.reply = deliver, fire, reply
print(fuzz.run_one(seed, fm))
