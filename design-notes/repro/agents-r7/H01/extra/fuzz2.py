import sys, random, json, copy, traceback
sys.path.insert(0, "/tmp/r7/hout/H01/extra")
from harness import *

ACC = "arn:aws:states:local:0123456789:stateMachine:"
def task(name, **kw):
    d = {"Type": "Task", "Resource": "arn:aws:rpcmessage:local::function:" + name}
    d.update(kw); return d

MACHINES = {}
MACHINES["seq"] = {"StartAt": "A", "States": {
    "A": {"Type": "Pass", "Next": "T"},
    "T": task("t", Retry=[{"ErrorEquals": ["E1"], "MaxAttempts": 2, "IntervalSeconds": 3}],
              Catch=[{"ErrorEquals": ["E2"], "Next": "C", "ResultPath": "$.err"}], Next="W"),
    "W": {"Type": "Wait", "Seconds": 5, "Next": "Ch"},
    "Ch": {"Type": "Choice", "Choices": [{"Variable": "$.x", "NumericEquals": 1, "Next": "S"}], "Default": "C"},
    "C": {"Type": "Pass", "End": True},
    "S": {"Type": "Succeed"}}}
MACHINES["par"] = {"StartAt": "P", "States": {
    "P": {"Type": "Parallel", "Branches": [
        {"StartAt": "A1", "States": {"A1": task("a1", Next="A2"), "A2": {"Type": "Pass", "End": True}}},
        {"StartAt": "B1", "States": {"B1": {"Type": "Wait", "Seconds": 2, "Next": "B2"}, "B2": task("b2", End=True)}},
        {"StartAt": "C1", "States": {"C1": {"Type": "Pass", "End": True}}}],
        "Next": "Z"},
    "Z": task("z", End=True)}}
MACHINES["map"] = {"StartAt": "M", "States": {
    "M": {"Type": "Map", "ItemsPath": "$.items", "MaxConcurrency": 2, "Iterator": {
        "StartAt": "I1", "States": {"I1": task("i1", Retry=[{"ErrorEquals": ["E1"], "MaxAttempts": 1}], Next="I2"),
                                    "I2": {"Type": "Pass", "End": True}}},
        "ResultPath": "$.out", "Next": "Z"},
    "Z": {"Type": "Pass", "End": True}}}
MACHINES["nest"] = {"StartAt": "P", "States": {
    "P": {"Type": "Parallel", "Branches": [
        {"StartAt": "M", "States": {"M": {"Type": "Map", "ItemsPath": "$.items", "Iterator": {
            "StartAt": "I1", "States": {"I1": task("i1", End=True)}}, "End": True}}},
        {"StartAt": "Q", "States": {"Q": {"Type": "Parallel", "Branches": [
            {"StartAt": "Q1", "States": {"Q1": task("q1", End=True)}},
            {"StartAt": "Q2", "States": {"Q2": {"Type": "Wait", "Seconds": 1, "End": True}}}], "Next": "Q3"},
            "Q3": {"Type": "Pass", "End": True}}}],
        "End": True}}}
MACHINES["loop"] = {"StartAt": "P", "States": {
    "P": {"Type": "Parallel", "Branches": [
        {"StartAt": "A1", "States": {"A1": task("a1", End=True)}},
        {"StartAt": "B1", "States": {"B1": {"Type": "Pass", "End": True}}}],
        "ResultPath": "$.r", "Next": "Inc"},
    "Inc": {"Type": "Pass", "Parameters": {"n.$": "States.MathAdd($.n, 1)", "items.$": "$.items", "x.$": "$.x"}, "Next": "Ch"},
    "Ch": {"Type": "Choice", "Choices": [{"Variable": "$.n", "NumericLessThan": 3, "Next": "P"}], "Default": "Done"},
    "Done": {"Type": "Succeed"}}}

MACHINES["pretry"] = {"StartAt": "P", "States": {
    "P": {"Type": "Parallel", "Retry": [{"ErrorEquals": ["E1"], "MaxAttempts": 1, "IntervalSeconds": 2}], "Branches": [
        {"StartAt": "A1", "States": {"A1": task("a1", End=True)}},
        {"StartAt": "B1", "States": {"B1": {"Type": "Wait", "Seconds": 2, "Next": "B2"}, "B2": task("b2", End=True)}}],
        "Next": "Z"},
    "Z": {"Type": "Pass", "End": True}}}
MACHINES["mretry"] = {"StartAt": "M", "States": {
    "M": {"Type": "Map", "ItemsPath": "$.items", "Retry": [{"ErrorEquals": ["E1"], "MaxAttempts": 1, "IntervalSeconds": 2}],
          "Iterator": {"StartAt": "I1", "States": {"I1": task("i1", Next="I2"), "I2": {"Type": "Wait", "Seconds": 1, "End": True}}},
          "End": True}}}
MACHINES["parent"] = {"StartAt": "Call", "States": {
    "Call": {"Type": "Task", "Resource": "arn:aws:states:local:0123456789:states:startExecution.sync:2",
             "Parameters": {"StateMachineArn": ACC + "seq", "Input.$": "$"}, "Next": "After"},
    "After": {"Type": "Pass", "End": True}}}
MACHINES["pparent"] = {"StartAt": "P", "States": {
    "P": {"Type": "Parallel", "Branches": [
        {"StartAt": "Call", "States": {"Call": {"Type": "Task", "Resource": "arn:aws:states:local:0123456789:states:startExecution.sync",
             "Parameters": {"StateMachineArn": ACC + "par", "Input.$": "$"}, "End": True}}},
        {"StartAt": "X", "States": {"X": task("x", End=True)}}], "End": True}}}
MACHINES["misc"] = {"StartAt": "A", "States": {
    "A": {"Type": "Pass", "Parameters": {"v.$": "$.items[2]", "x.$": "$.x"}, "Next": "Ch"},
    "Ch": {"Type": "Choice", "Choices": [{"Variable": "$.x", "NumericEquals": 1, "Next": "F"}]},
    "F": {"Type": "Fail", "Error": "Boom", "Cause": "because"}}}

TERMINAL = {"SUCCEEDED", "FAILED"}

class Violation(Exception):
    pass

def check(H, execs, final=False):
    for e in execs:
        st = H.statuses(e)
        if st:
            if st[0] != "RUNNING": raise Violation("first notification not RUNNING %s %s" % (e, st))
            if st.count("RUNNING") > 1: raise Violation("RUNNING twice %s %s" % (e, st))
            terms = [s for s in st if s in TERMINAL]
            if len(terms) > 1: raise Violation("more than one terminal notification %s %s" % (e, st))
            if terms and st[-1] not in TERMINAL: raise Violation("notif after terminal %s %s" % (e, st))
        rec = H.describe(e)
        hist = H.history(e)
        if rec:
            s = rec["status"]
            if (rec["stopDate"] is not None) != (s in TERMINAL): raise Violation("stopDate/status %s %s" % (e, rec))
            if (rec["output"] is not None) != (s == "SUCCEEDED"): raise Violation("output/status %s %s" % (e, rec))
            if (rec.get("error") is not None) != (s == "FAILED"): raise Violation("error/status %s %s" % (e, rec))
            term_n = [x for x in st if x in TERMINAL]
            if s in TERMINAL and term_n != [s]: raise Violation("record %s vs notifications %s" % (s, st))
            if s == "RUNNING" and term_n: raise Violation("record RUNNING but notif %s" % st)
            key = (s, rec["output"], rec.get("error"), rec.get("cause"), rec["stopDate"])
            prev = H._frozen.get(e)
            if prev and prev != key: raise Violation("terminal record changed %s -> %s" % (prev, key))
            if s in TERMINAL: H._frozen[e] = key
        if hist:
            for i, ev in enumerate(hist):
                if ev["id"] != i + 1 or ev["previousEventId"] != i: raise Violation("ids %s" % e)
                if i and ev["timestamp"] < hist[i-1]["timestamp"]: raise Violation("timestamps")
            if hist[0]["type"] != "ExecutionStarted": raise Violation("first event %s" % hist[0]["type"])
            tt = [i for i, ev in enumerate(hist) if ev["type"] in ("ExecutionSucceeded", "ExecutionFailed")]
            if len(tt) > 1: raise Violation("two terminal history events %s %s" % (e, [h["type"] for h in hist]))
            if tt and tt[0] != len(hist) - 1: raise Violation("events after terminal %s %s" % (e, [h["type"] for h in hist][tt[0]:]))
            if rec and rec["status"] in TERMINAL and not tt: raise Violation("terminal record without terminal history event")
            if tt and rec:
                want = "ExecutionSucceeded" if rec["status"] == "SUCCEEDED" else "ExecutionFailed"
                if hist[tt[0]]["type"] != want: raise Violation("history end disagrees with record")
            # entered / exited pairing on success
            if rec and rec["status"] == "SUCCEEDED" and not any(h["type"].endswith("Failed") for h in hist):
                ent = {}
                for ev in hist:
                    t = ev["type"]
                    if t.endswith("StateEntered"):
                        n = ev["stateEnteredEventDetails"]["name"]; ent[n] = ent.get(n, 0) + 1
                    elif t.endswith("StateExited"):
                        n = ev["stateExitedEventDetails"]["name"]; ent[n] = ent.get(n, 0) - 1
                        if ent[n] < 0: raise Violation("exit before enter %s %s" % (n, [h["type"] for h in hist]))
                bad = {k: v for k, v in ent.items() if v}
                if bad: raise Violation("entered without exit in a SUCCEEDED execution %s %s" % (bad, [h["type"] for h in hist]))
        if final:
            if not rec or rec["status"] not in TERMINAL:
                raise Violation("execution never terminated %s rec=%s hist=%s" % (e, rec and rec["status"], [h["type"] for h in hist]))

def run_one(seed, fail_mode):
    rnd = random.Random(seed)
    H = Harness(workdir="/tmp/r7/hout/H01/extra")
    H._frozen = {}
    trace = []
    try:
        for n, d in MACHINES.items():
            H.create_machine(ACC + n, d)
        execs = []
        names = rnd.sample([m for m in MACHINES if not (fail_mode and m in ("pretry","mretry"))], rnd.randint(1, 3))
        for i, n in enumerate(names):
            inp = {"items": [1, 2, 3][:rnd.randint(1, 3)], "x": rnd.randint(0, 1), "n": 0}
            execs.append(H.start(ACC + n, "e%d" % i, inp))
        failures = 0
        answered = 0
        for step in range(3000):
            acts = []
            if H.queue: acts += [("ev", i) for i in range(len(H.queue))]
            zero = [t for t, (d, cb) in H.timers.items() if d <= 0]
            acts += [("tm", t) for t in zero]
            if answered < len(H.rpc): acts += [("rp", i) for i in range(answered, len(H.rpc))][:1] * 2
            shortt = [t for t, (d, cb) in H.timers.items() if 0 < d < 60000]
            acts += [("tm", t) for t in shortt]
            if not acts:
                break
            a = rnd.choice(acts)
            trace.append(a)
            if a[0] == "ev":
                H.deliver(a[1])
            elif a[0] == "tm":
                H.fire(a[1])
            else:
                req = H.rpc[answered]; answered += 1
                r = rnd.random()
                if fail_mode and r < 0.25:
                    err = rnd.choice(["E1", "E1", "E2", "E3"])
                    if err == "E3":
                        if failures: err = "E1"
                        else: failures += 1
                    H.reply(req, {"errorType": err, "errorMessage": "boom"})
                else:
                    H.reply(req, {"ok": answered})
            while H.fire_zero_timers(): pass
            check(H, execs)
        check(H, list(H.engine.executions.keys()), final=True)
        if H.ed.unacknowledged_messages:
            raise Violation("unacked messages at quiescence: %d" % len(H.ed.unacknowledged_messages))
        return None
    except Violation as v:
        return (seed, fail_mode, names, str(v)[:600])
    except Exception as ex:
        return (seed, fail_mode, names, "EXC " + traceback.format_exc()[-800:])
    finally:
        H.cleanup()

if __name__ == "__main__":
    lo, hi = int(sys.argv[1]), int(sys.argv[2])
    seen = {}
    for seed in range(lo, hi):
        for fm in (False, True):
            r = run_one(seed, fm)
            if r:
                k = r[3][:60]
                seen.setdefault(k, []).append(r)
    for k, v in seen.items():
        print(len(v), "x", v[0])
