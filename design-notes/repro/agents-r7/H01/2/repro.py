"""
In-memory stand-in for the AMQP broker and the event-loop timers, driving the
REAL StateEngine / EventDispatcher / TaskDispatcher code.  Only the broker
(queues, topic, rpc request/reply transport) and set_timeout/clear_timeout are
faked.  Nothing in the project is monkey-patched.
"""
import sys, os, types, json, itertools, tempfile, logging

os.environ.setdefault("LOG_LEVEL", "CRITICAL")
sys.path.insert(0, os.getcwd())

# ---------------------------------------------------------------- fake messaging
class Message(object):
    def __init__(self, body="", properties=None, content_type=None,
                 content_encoding=None, redelivered=False, durable=True,
                 mandatory=False, priority=None, correlation_id=None,
                 reply_to=None, expiration=None, message_id=None,
                 timestamp=None, type=None, user_id=None, app_id=None,
                 cluster_id=None, subject=None):
        self.body = body
        self.properties = {} if properties is None else properties
        self.content_type = content_type
        self.redelivered = redelivered
        self.mandatory = mandatory
        self.correlation_id = correlation_id
        self.reply_to = reply_to
        self.expiration = expiration
        self.message_id = message_id
        self.subject = subject
        self.acked = 0

    def acknowledge(self, multiple=True, threadsafe=False):
        self.acked += 1

    def __repr__(self):
        return "Message(id=%r, corr=%r, subject=%r)" % (
            self.message_id, self.correlation_id, self.subject)


class Connection(object):  # never used: we do not call EventDispatcher.start()
    pass


fake = types.ModuleType("asl_workflow_engine.fake_messaging")
fake.Message = Message
fake.Connection = Connection
sys.modules["asl_workflow_engine.fake_messaging"] = fake

from asl_workflow_engine.state_engine import StateEngine
from asl_workflow_engine.event_dispatcher import EventDispatcher

logging.getLogger("asl_workflow_engine").setLevel(logging.CRITICAL)


class Harness(object):
    def __init__(self, execution_ttl=86400, workdir=None, engine=None, ed=None):
        """
        Builds a StateEngine + EventDispatcher (or adopts the ones passed in)
        and attaches the in-memory broker and timers to them.
        """
        self.tmp = None
        if engine is None:
            self.tmp = tempfile.NamedTemporaryFile(
                prefix="asl_store_", suffix=".json", dir=workdir, delete=False)
            self.tmp.close()
            os.unlink(self.tmp.name)
            config = {
                "event_queue": {
                    "queue_name": "asl_workflow_events",
                    "instance_id": "i1",
                    "queue_implementation": "fake",
                    "connection_url": "amqp://localhost:5672",
                    "orphaned_response_retention_ms": 0,
                },
                "notifier": {"topic": "asl_workflow_engine", "message_ttl": 60000},
                "state_engine": {"store_url": self.tmp.name,
                                 "execution_ttl": execution_ttl},
                "metrics": {},
            }
            engine = StateEngine(config)
            ed = EventDispatcher(engine, config)
        self.engine = engine
        self.ed = ed
        self.td = self.engine.task_dispatcher

        self.queue = []          # undelivered state-transition events
        self.notifications = []  # (subject, cloudwatch event)
        self.rpc = []            # rpcmessage requests sent to workers
        self.timers = {}         # id -> (delay_ms, callback)
        self._tid = itertools.count(1)

        h = self

        class EventProducer(object):
            def send(self, message, threadsafe=False):
                h.queue.append(message)

        class TopicProducer(object):
            def send(self, message, threadsafe=False):
                h.notifications.append(
                    (message.subject, json.loads(message.body)))

        class RpcProducer(object):
            def send(self, message, threadsafe=False):
                h.rpc.append(message)

        class ReplyTo(object):
            name = "asl_workflow_reply_to-i1"

        self.ed.event_queue_producer = EventProducer()
        self.ed.topic_producer = TopicProducer()
        self.ed.set_timeout = self.set_timeout
        self.ed.clear_timeout = self.clear_timeout
        self.td.producer = RpcProducer()
        self.td.reply_to = ReplyTo()

    def cleanup(self):
        try:
            if self.tmp:
                os.unlink(self.tmp.name)
        except OSError:
            pass

    # ------------------------------------------------------------ timers
    def set_timeout(self, callback, delay):
        tid = next(self._tid)
        self.timers[tid] = (delay, callback)
        return tid

    def clear_timeout(self, tid):
        self.timers.pop(tid, None)

    def fire(self, tid):
        delay, cb = self.timers.pop(tid)
        cb()

    def fire_zero_timers(self):
        fired = False
        for tid in sorted(self.timers):
            if tid in self.timers and self.timers[tid][0] <= 0:
                self.fire(tid)
                fired = True
        return fired

    def pending_timers(self, min_delay=1):
        return [(tid, d) for tid, (d, cb) in sorted(self.timers.items())
                if d >= min_delay]

    # ------------------------------------------------------------ delivery
    def deliver(self, index=0, redelivered=False):
        m = self.queue.pop(index)
        m.redelivered = redelivered
        if isinstance(m.body, str):
            m.body = m.body.encode("utf8")
        self.ed.dispatch(m)
        return m

    def run(self, limit=100000):
        """Deliver events FIFO and run zero-delay timers until quiescent."""
        n = 0
        while n < limit:
            if self.fire_zero_timers():
                n += 1
                continue
            if self.queue:
                self.deliver(0)
                n += 1
                continue
            return n
        raise RuntimeError("harness did not quiesce")

    # ------------------------------------------------------------ API-like
    def create_machine(self, arn, definition, type="STANDARD"):
        import time
        now = time.time()
        self.engine.asl_store[arn] = {
            "creationDate": now, "definition": definition,
            "name": arn.rsplit(":", 1)[1],
            "roleArn": "arn:aws:iam::0123456789:role/r",
            "stateMachineArn": arn, "updateDate": now,
            "status": "ACTIVE", "type": type,
        }

    def start(self, sm_arn, name, input):
        """What RestAPI StartExecution publishes."""
        from datetime import datetime, timezone
        exec_arn = sm_arn.replace(":stateMachine:", ":execution:") + ":" + name
        start_time = datetime.now(timezone.utc).astimezone().isoformat()
        context = {
            "Tracer": {},
            "Execution": {"Id": exec_arn, "Input": input, "Name": name,
                          "RoleArn": "arn:aws:iam::0123456789:role/r",
                          "StartTime": start_time},
            "State": {"EnteredTime": start_time, "Name": ""},
            "StateMachine": {"Id": sm_arn, "Name": sm_arn.rsplit(":", 1)[1]},
        }
        self.ed.publish({"data": input, "context": context},
                        use_shared_queue=True)
        return exec_arn

    def reply(self, request, body):
        m = Message(json.dumps(body).encode("utf8"),
                    correlation_id=request.correlation_id,
                    subject=request.reply_to)
        self.td.handle_rpcmessage_response(m)

    # ------------------------------------------------------------ observation
    def describe(self, exec_arn):
        rec = self.engine.executions.get(exec_arn)
        return dict(rec) if rec else None

    def history(self, exec_arn):
        return list(self.engine.execution_history.get(exec_arn, []))

    def statuses(self, exec_arn):
        return [ev["detail"]["status"] for s, ev in self.notifications
                if ev["detail"]["executionArn"] == exec_arn]
# ============================================================== scenario
# C02: with the documented STATE_ENGINE_EXECUTION_TTL environment variable set,
# WorkflowEngine hands StateEngine the TTL as a *string*.  Every execution that
# enters a Parallel or Map state then never terminates (its branch events are
# dropped), and every Task / Wait state fails with States.Runtime.

from asl_workflow_engine.workflow_engine import WorkflowEngine

ACC = "arn:aws:states:local:0123456789:stateMachine:"
HERE = os.path.dirname(os.path.abspath(__file__))
STORE = os.path.join(HERE, "asl_store_repro.json")
problems = []

def expect(cond, msg):
    if not cond:
        problems.append(msg)
        print("VIOLATION:", msg)

MACHINES = {
    "par": {"StartAt": "P", "States": {"P": {"Type": "Parallel", "Branches": [
        {"StartAt": "A", "States": {"A": {"Type": "Pass", "End": True}}},
        {"StartAt": "B", "States": {"B": {"Type": "Pass", "End": True}}}],
        "End": True}}},
    "map": {"StartAt": "M", "States": {"M": {"Type": "Map", "Iterator": {
        "StartAt": "I", "States": {"I": {"Type": "Pass", "End": True}}},
        "End": True}}},
    "task": {"StartAt": "T", "States": {"T": {
        "Type": "Task", "Resource": "arn:aws:rpcmessage:local::function:f",
        "End": True}}},
    "wait": {"StartAt": "W", "States": {"W": {"Type": "Wait", "Seconds": 1,
                                              "End": True}}},
}
INPUTS = {"par": {"k": 1}, "map": [1, 2], "task": {"k": 1}, "wait": {"k": 1}}

def run_engine(ttl_env):
    """Build the engine the way the application does: config.json + env vars."""
    env = {
        "EVENT_QUEUE_QUEUE_IMPLEMENTATION": "fake",   # in-memory broker stub
        "TRACER_IMPLEMENTATION": "None",
        "METRICS_IMPLEMENTATION": "None",
        "STATE_ENGINE_STORE_URL": STORE,
    }
    if ttl_env is not None:
        env["STATE_ENGINE_EXECUTION_TTL"] = ttl_env
    os.environ.pop("STATE_ENGINE_EXECUTION_TTL", None)
    os.environ.update(env)
    we = WorkflowEngine(os.path.join("asl_workflow_engine", "config.json"))
    H = Harness(engine=we.state_engine, ed=we.event_dispatcher)
    results = {}
    for name, definition in MACHINES.items():
        H.create_machine(ACC + name, definition)
        arn = H.start(ACC + name, "x-" + str(ttl_env), INPUTS[name])
        H.run()
        if name == "task" and H.rpc:
            H.reply(H.rpc[-1], {"done": True})
            H.run()
        if name == "wait":
            for tid, delay in H.pending_timers():
                if delay < 5000:
                    H.fire(tid)     # the Wait state's 1 second timer expires
            H.run()
        rec = H.describe(arn)
        results[name] = (rec["status"], rec.get("error"), H.statuses(arn),
                         len(H.queue), len(H.ed.unacknowledged_messages))
    return we, results

try:
    we, control = run_engine(None)
    print("execution_ttl from config.json :", repr(we.state_engine.execution_ttl))
    for name, r in control.items():
        print("   control  %-5s %s" % (name, r[:3]))
        expect(r[0] == "SUCCEEDED", "control run (no env var) of %s should succeed: %r" % (name, r))

    we, observed = run_engine("3600")
    print("execution_ttl from STATE_ENGINE_EXECUTION_TTL=3600 :",
          repr(we.state_engine.execution_ttl))
    for name, r in observed.items():
        print("   observed %-5s %s  (undelivered events %d, unacknowledged %d)"
              % (name, r[:3], r[3], r[4]))
        if r[0] == "RUNNING":
            expect(False, "%s execution never terminates: nothing is queued, pending "
                          "or unacknowledged any more but the record is still RUNNING "
                          "and only %r was broadcast" % (name, r[2]))
        else:
            expect(r[0] == "SUCCEEDED" and r[2] == ["RUNNING", "SUCCEEDED"],
                   "%s execution ends %s (%s) although nothing in it fails"
                   % (name, r[0], r[1]))
finally:
    for f in (STORE,):
        try:
            os.unlink(f)
        except OSError:
            pass

if problems:
    print("\nFAIL: %d violation(s)" % len(problems))
    sys.exit(1)
print("OK")
sys.exit(0)
