#!/usr/bin/env python
"""
C13 repro: a payload template member  "x.$": "$"  must insert the template's
input VERBATIM.  The unchanged code re-walks the *input data* with the template
walker, so
  (a) members of the input whose name ends in ".$" are renamed and evaluated
      (as Paths against the input / Context Object, or as Intrinsic Functions);
  (b) a Path smuggled in that way reaches jsonpath's eval(): Python supplied in
      the *execution input* is executed inside the engine;
  (c) a scalar input (string / number / boolean) crashes the walker with an
      UnboundLocalError, the Pass state fails with States.Runtime.

Run:  cd <worktree>/asl-workflow-engine/py && /venv/bin/python repro.py
Exits 1 on the unchanged tree, 0 once "$" copies the input instead of cloning it
through the template walker.
"""
import sys, os, json, copy, logging, tempfile

sys.path.insert(0, os.getcwd())                 # the real project code
os.chdir(tempfile.mkdtemp(prefix="h07_1_"))     # keep ASL_store.json out of the worktree
logging.disable(logging.CRITICAL)

from asl_workflow_engine.state_engine import StateEngine
from asl_workflow_engine.state_engine_paths import evaluate_payload_template

failures = []
def check(label, ok, detail):
    print(("ok   " if ok else "FAIL ") + label + ("" if ok else "\n       " + detail))
    if not ok:
        failures.append(label)

TEMPLATE = {"payload.$": "$", "literal": {"keep.me": 1}}
CONTEXT = {"Execution": {"Id": "arn:aws:states:local:0123456789:execution:m:SECRET-ID"}}

# ---- (a) direct call: '.$' members of the INPUT must be copied verbatim ----------
hostile = {"n": 1, "who.$": "$$.Execution.Id", "fn.$": "States.MathAdd(40, 2)",
           "deep": [{"again.$": "$.n"}]}
before = copy.deepcopy(hostile)
try:
    got = evaluate_payload_template(hostile, CONTEXT, TEMPLATE)
    detail = "got payload %r" % (got.get("payload"),)
    ok = got == {"payload": before, "literal": {"keep.me": 1}}
except Exception as e:
    ok, detail = False, "raised %s: %s" % (type(e).__name__, e)
check("(a) input members named '*.$' are data, copied verbatim by \"x.$\": \"$\"", ok, detail)
check("(a) the input object is left unmodified", hostile == before, repr(hostile))

# ---- (b) Python smuggled in the input must not be executed -----------------------
os.environ.pop("H07_PWNED", None)
evil = {"x.$": "$[(__import__('os').environ.setdefault('H07_PWNED','1'))]"}
try:
    evaluate_payload_template(evil, CONTEXT, TEMPLATE)
except Exception:
    pass
check("(b) code carried in the execution input is not evaluated",
      "H07_PWNED" not in os.environ,
      "the input value %r was eval()ed by the engine (os.environ['H07_PWNED'] is set)" % evil["x.$"])

# ---- (c) scalar inputs ----------------------------------------------------------
for scalar in ["hello", 42, True]:
    try:
        got = evaluate_payload_template(scalar, CONTEXT, TEMPLATE)
        ok, detail = got.get("payload") == scalar, "got %r" % (got,)
    except Exception as e:
        ok, detail = False, "raised %s: %s" % (type(e).__name__, e)
    check("(c) \"x.$\": \"$\" with scalar input %r" % (scalar,), ok, detail)

# ---- (d) the same through a real Pass state of the StateEngine ------------------
class EventDispatcherStub(object):          # stubs the AMQP broker only
    def __init__(self, state_engine):
        self.state_engine = state_engine
        state_engine.event_dispatcher = self
        self.count = -1
        self.broadcasts = []
    def set_timeout(self, callback, delay):
        callback()
    def dispatch(self, message):
        self.count += 1
        self.state_engine.notify(json.loads(message), self.count)
    def acknowledge(self, id):
        pass
    def publish(self, item, **kwargs):
        self.dispatch(json.dumps(item))
    def broadcast(self, subject, message, carrier_properties=None):
        self.broadcasts.append(message)

ASL = {"StartAt": "Wrap", "States": {"Wrap": {"Type": "Pass", "Parameters": {"payload.$": "$"}, "End": True}}}

def run_pass(data):
    engine = StateEngine({"state_engine": {"store_url": "ASL_store.json", "execution_ttl": 500}})
    dispatcher = EventDispatcherStub(engine)
    context = {"StateMachine": {"Id": "arn:aws:states:local:0123456789:stateMachine:m", "Definition": ASL}}
    dispatcher.dispatch(json.dumps({"data": data, "context": context}))
    detail = dispatcher.broadcasts[-1]["detail"]
    return detail["status"], detail.get("error"), detail.get("cause"), detail.get("output")

for data in [{"who.$": "$$.StateMachine.Id", "n": 1}, "hello"]:
    status, error, cause, output = run_pass(data)
    ok = status == "SUCCEEDED" and output is not None and json.loads(output) == {"payload": data}
    check("(d) Pass state {\"payload.$\": \"$\"} with execution input %s" % json.dumps(data), ok,
          "status=%s error=%s cause=%s output=%s" % (status, error, cause, output))

if failures:
    print("\nDEFECT PRESENT: %d check(s) failed - \"x.$\": \"$\" treats the input data as a payload template" % len(failures))
    sys.exit(1)
print("\nall checks passed")
sys.exit(0)
