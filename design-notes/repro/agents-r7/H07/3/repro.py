#!/usr/bin/env python
"""
C13 repro: States.ArrayRange
 (1) with a negative increment does not include the end value (nor the one before
     it): States.ArrayRange(5, 1, -1) -> [5, 4, 3] instead of [5, 4, 3, 2, 1];
 (2) enforces its 1000-element limit only AFTER materialising the whole range, so
     States.ArrayRange(1, $.n, 1) with a large n taken from the input allocates
     without bound (MemoryError / minutes of CPU inside the single-threaded engine)
     instead of failing cleanly with States.IntrinsicFailure.

Run:  cd <worktree>/asl-workflow-engine/py && /venv/bin/python repro.py
Exits 1 on the unchanged tree, 0 when the range is inclusive in both directions and
the size is checked before the array is built.
"""
import sys, os, subprocess, time

PY_DIR = os.getcwd()
sys.path.insert(0, PY_DIR)                      # the real project code

CHILD = r'''
import sys, resource, time
resource.setrlimit(resource.RLIMIT_AS, (1 << 28, 1 << 28))      # 256 MiB is plenty for a 1000 element limit
sys.path.insert(0, %r)
from asl_workflow_engine.state_engine_paths import evaluate_payload_template
t = time.time()
try:
    r = evaluate_payload_template({"n": 10**10}, {}, {"r.$": "States.ArrayRange(1, $.n, 1)"})
    print("RESULT returned-%%d-items" %% len(r["r"]))
except BaseException as e:
    print("RESULT %%s %%.1fs" %% (type(e).__name__, time.time() - t))
''' % PY_DIR

failures = []
def check(label, ok, detail):
    print(("ok   " if ok else "FAIL ") + label + ("" if ok else "\n       " + detail))
    if not ok:
        failures.append(label)

from asl_workflow_engine.state_engine_paths import evaluate_payload_template

def ev(expr, data=None):
    try:
        return evaluate_payload_template(data or {}, {}, {"r.$": expr})["r"]
    except Exception as e:
        return type(e).__name__

# (1) inclusive in both directions
for expr, expected in [
    ("States.ArrayRange(1, 9, 2)",   [1, 3, 5, 7, 9]),       # the documented example
    ("States.ArrayRange(1, 5, 1)",   [1, 2, 3, 4, 5]),
    ("States.ArrayRange(3, 3, 1)",   [3]),
    ("States.ArrayRange(5, 1, -1)",  [5, 4, 3, 2, 1]),
    ("States.ArrayRange(9, 1, -2)",  [9, 7, 5, 3, 1]),
    ("States.ArrayRange(3, 3, -1)",  [3]),
    ("States.ArrayRange(0, -3, -1)", [0, -1, -2, -3]),
    ("States.ArrayRange(10, 1, -4)", [10, 6, 2]),
    ("States.ArrayRange(1, 1000, 1)", list(range(1, 1001))),  # exactly at the limit
    ("States.ArrayRange(1, 1001, 1)", "IntrinsicFailure"),    # one over
    ("States.ArrayRange(1, 5, 0)",   "IntrinsicFailure"),
]:
    got = ev(expr)
    shown = got if not isinstance(got, list) or len(got) < 12 else "[%d items]" % len(got)
    check("%s == %s" % (expr, expected if not isinstance(expected, list) or len(expected) < 12 else "[1..1000]"),
          got == expected, "got %s" % (shown,))

# (2) the size limit must be enforced before the array is built
t = time.time()
try:
    out = subprocess.run([sys.executable, "-c", CHILD], capture_output=True, text=True, timeout=20).stdout
    result = [l for l in out.splitlines() if l.startswith("RESULT")]
    result = result[-1][7:] if result else "child died without a result (killed?)"
except subprocess.TimeoutExpired:
    result = "still building the array after 20 s"
check("States.ArrayRange(1, $.n, 1) with n = 10**10 fails with IntrinsicFailure (limit is 1000 items)",
      result.startswith("IntrinsicFailure"), "under a 256 MiB address-space limit: %s" % result)

if failures:
    print("\nDEFECT PRESENT: %d check(s) failed" % len(failures))
    sys.exit(1)
print("\nall checks passed")
sys.exit(0)
