#!/usr/bin/env python
"""
C14 repro: "timestamps [compare] by instant" / IsTimestamp "reports the type fact".
An RFC 3339 timestamp with more than six fractional-second digits (nanosecond
precision: Go time.RFC3339Nano, Java Instant/OffsetDateTime, .NET "O" format ...)
is not recognised as a timestamp at all: IsTimestamp: true does not match and every
Timestamp* comparison silently yields "no match", so the Choice state takes the
wrong branch (Default) or fails with States.NoChoiceMatched.

Run:  cd <worktree>/asl-workflow-engine/py && /venv/bin/python repro.py
Exits 1 on the unchanged tree, 0 when such timestamps are parsed.
"""
import sys, os, json, logging, tempfile

sys.path.insert(0, os.getcwd())                 # the real project code
os.chdir(tempfile.mkdtemp(prefix="h07_4_"))     # keep ASL_store.json out of the worktree
logging.disable(logging.CRITICAL)

from asl_workflow_engine.state_engine import StateEngine

class EventDispatcherStub(object):          # stubs the AMQP broker only
    def __init__(self, state_engine):
        self.state_engine = state_engine
        state_engine.event_dispatcher = self
        self.count = -1
        self.broadcasts = []
    def set_timeout(self, callback, delay):
        callback()
    def dispatch(self, message):
        self.count += 1
        self.state_engine.notify(json.loads(message), self.count)
    def acknowledge(self, id):
        pass
    def publish(self, item, **kwargs):
        self.dispatch(json.dumps(item))
    def broadcast(self, subject, message, carrier_properties=None):
        self.broadcasts.append(message)

def taken(rule, data, default=True):
    """Run a one-Choice machine, return the marker of the branch taken (or the error name)"""
    rule = dict(rule, Next="Matched")
    choice = {"Type": "Choice", "Choices": [rule]}
    if default:
        choice["Default"] = "NotMatched"
    asl = {"StartAt": "C", "States": {
        "C": choice,
        "Matched": {"Type": "Pass", "Result": "Matched", "End": True},
        "NotMatched": {"Type": "Pass", "Result": "NotMatched", "End": True}}}
    engine = StateEngine({"state_engine": {"store_url": "ASL_store.json", "execution_ttl": 500}})
    dispatcher = EventDispatcherStub(engine)
    context = {"StateMachine": {"Id": "arn:aws:states:local:0123456789:stateMachine:m", "Definition": asl}}
    dispatcher.dispatch(json.dumps({"data": data, "context": context}))
    detail = dispatcher.broadcasts[-1]["detail"]
    return json.loads(detail["output"]) if detail.get("output") else detail.get("error")

NANO  = "2020-01-01T00:00:00.123456789Z"          # valid RFC 3339 (time-secfrac = "." 1*DIGIT)
NANO2 = "2020-01-01T01:00:00.123456789+01:00"     # the same instant written with an offset
MICRO = "2020-01-01T00:00:00.123456Z"

CASES = [
    # sanity: six digits work today
    ("IsTimestamp(micro)",              {"Variable": "$.t", "IsTimestamp": True},                             {"t": MICRO}, "Matched"),
    ("micro > 2019",                    {"Variable": "$.t", "TimestampGreaterThan": "2019-06-01T00:00:00Z"},  {"t": MICRO}, "Matched"),
    # nine digits
    ("IsTimestamp(nano) is true",       {"Variable": "$.t", "IsTimestamp": True},                             {"t": NANO},  "Matched"),
    ("IsTimestamp(nano) false: no",     {"Variable": "$.t", "IsTimestamp": False},                            {"t": NANO},  "NotMatched"),
    ("nano > 2019-06-01",               {"Variable": "$.t", "TimestampGreaterThan": "2019-06-01T00:00:00Z"},  {"t": NANO},  "Matched"),
    ("nano >= 2020-01-01T00:00:00Z",    {"Variable": "$.t", "TimestampGreaterThanEquals": "2020-01-01T00:00:00Z"}, {"t": NANO}, "Matched"),
    ("nano < ...00.5Z",                 {"Variable": "$.t", "TimestampLessThan": "2020-01-01T00:00:00.5Z"},   {"t": NANO},  "Matched"),
    ("nano <= 2021 (constant is nano)", {"Variable": "$.t", "TimestampLessThanEquals": "2021-01-01T00:00:00.000000001Z"}, {"t": MICRO}, "Matched"),
    ("nano == same instant, +01:00",    {"Variable": "$.t", "TimestampEqualsPath": "$.u"},                    {"t": NANO, "u": NANO2}, "Matched"),
    ("7 digits == itself",              {"Variable": "$.t", "TimestampEquals": "2020-01-01T00:00:00.1234567Z"}, {"t": "2020-01-01T00:00:00.1234567Z"}, "Matched"),
    # still rejected: not timestamps
    ("IsTimestamp('...00.Z') is false", {"Variable": "$.t", "IsTimestamp": True},                             {"t": "2020-01-01T00:00:00.Z"}, "NotMatched"),
    ("IsTimestamp('...00.12x4567Z')",   {"Variable": "$.t", "IsTimestamp": True},                             {"t": "2020-01-01T00:00:00.12x4567Z"}, "NotMatched"),
]

failures = 0
for label, rule, data, expected in CASES:
    got = taken(rule, data)
    ok = got == expected
    failures += not ok
    print("%s %-34s rule=%s data=%s -> %s%s" % ("ok  " if ok else "FAIL", label, json.dumps(rule), json.dumps(data), got,
                                                 "" if ok else "   (expected %s)" % expected))

got = taken({"Variable": "$.t", "TimestampGreaterThan": "2019-06-01T00:00:00Z"}, {"t": NANO}, default=False)
ok = got == "Matched"
failures += not ok
print("%s without Default the same rule gives %s%s" % ("ok  " if ok else "FAIL", got, "" if ok else "   (expected Matched)"))

if failures:
    print("\nDEFECT PRESENT: %d check(s) failed - valid RFC 3339 timestamps with > 6 fractional digits never match" % failures)
    sys.exit(1)
print("\nall checks passed")
sys.exit(0)
