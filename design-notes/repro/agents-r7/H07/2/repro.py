#!/usr/bin/env python
"""
C13 repro: the argument tokeniser of intrinsic functions is a regular expression
that cannot match nested parentheses or escape pairs, so well-formed calls
 - nested more than one level deep,
 - whose nested call has a string argument containing ")",
 - with a string argument ending in an escaped backslash ('...\\\\'),
are split in the wrong places and fail with States.IntrinsicFailure (or are
silently split into extra arguments).

Run:  cd <worktree>/asl-workflow-engine/py && /venv/bin/python repro.py
Exits 1 on the unchanged tree, 0 when arguments are split at top-level commas only.
"""
import sys, os, json, logging, tempfile

sys.path.insert(0, os.getcwd())                 # the real project code
os.chdir(tempfile.mkdtemp(prefix="h07_2_"))     # keep ASL_store.json out of the worktree
logging.disable(logging.CRITICAL)

from asl_workflow_engine.state_engine import StateEngine
from asl_workflow_engine.state_engine_paths import evaluate_payload_template

INPUT = {"key": "bucket/2024/report.csv", "items": [3, 1, 3, 2, 1], "a": "x", "b": "y"}
B = "\\"   # one backslash

CASES = [
    # (expression, expected value)                                  nesting depth
    ("States.Array(States.Array(States.Array(1)))", [[[1]]]),                                   # 2
    ("States.ArrayLength(States.ArrayPartition(States.ArrayRange(1, 9, 1), 4))", 3),           # 2
    ("States.Format('file={}', States.ArrayGetItem(States.StringSplit($.key, '/'), 2))",
        "file=report.csv"),                                                                     # 2
    ("States.MathAdd(States.ArrayLength(States.ArrayUnique($.items)), States.MathAdd(1, States.MathAdd(1, 1)))", 6),  # 2
    ("States.Base64Decode(States.Base64Encode(States.Format('{}-{}', $.a, $.b)))", "x-y"),      # 2
    ("States.Array(States.Array(States.Array(States.Array('d', 3), 2), 1), 0)",
        [[[["d", 3], 2], 1], 0]),                                                               # 3
    # depth 1, but the nested call has a string that contains ')' / '(' / ','
    ("States.Format('<{}>', States.Format('a)b'))", "<a)b>"),
    ("States.Array(States.Format('f(x), g(y)'), 7)", ["f(x), g(y)", 7]),
    # already fine on the unchanged tree (sanity: the expectations are not exotic)
    ("States.Array(States.Array(1), States.Array(2))", [[1], [2]]),
    ("States.Array('a,b', '(c)', $.a)", ["a,b", "(c)", "x"]),
]

failures = []
def check(label, ok, detail):
    print(("ok   " if ok else "FAIL ") + label + ("" if ok else "\n       " + detail))
    if not ok:
        failures.append(label)

for expr, expected in CASES:
    try:
        got = evaluate_payload_template(INPUT, {}, {"r.$": expr})["r"]
        ok, detail = got == expected, "got %r, expected %r" % (got, expected)
    except Exception as e:
        ok, detail = False, "raised %s: %s (expected %r)" % (type(e).__name__, e, expected)
    check(expr, ok, detail)

# A string literal that ends in an escaped backslash:  'C:\\'  followed by another
# argument.  Two arguments were written, two must arrive (the regex's lookbehind
# takes the closing apostrophe for an escaped one and swallows / mis-splits the rest).
expr = "States.Array('C:" + B + B + "', 'tail')"
try:
    got = evaluate_payload_template(INPUT, {}, {"r.$": expr})["r"]
    ok = isinstance(got, list) and len(got) == 2 and got[1] == "tail" and got[0].startswith("C:" + B)
    detail = "got %r, expected 2 items: a string starting 'C:%s' and 'tail'" % (got, B)
except Exception as e:
    ok, detail = False, "raised %s: %s" % (type(e).__name__, e)
check(expr, ok, detail)

# Arguments must be separated by commas: '*' is not a separator
expr = "States.Array(1*2)"
try:
    got = evaluate_payload_template(INPUT, {}, {"r.$": expr})["r"]
    ok, detail = False, "got %r, expected States.IntrinsicFailure (1*2 is not a number)" % (got,)
except Exception as e:
    ok, detail = type(e).__name__ == "IntrinsicFailure", "raised %s: %s" % (type(e).__name__, e)
check(expr + "  -> IntrinsicFailure", ok, detail)

# ---- the same through a real Pass state of the StateEngine ----------------------
class EventDispatcherStub(object):          # stubs the AMQP broker only
    def __init__(self, state_engine):
        self.state_engine = state_engine
        state_engine.event_dispatcher = self
        self.count = -1
        self.broadcasts = []
    def set_timeout(self, callback, delay):
        callback()
    def dispatch(self, message):
        self.count += 1
        self.state_engine.notify(json.loads(message), self.count)
    def acknowledge(self, id):
        pass
    def publish(self, item, **kwargs):
        self.dispatch(json.dumps(item))
    def broadcast(self, subject, message, carrier_properties=None):
        self.broadcasts.append(message)

ASL = {"StartAt": "Name", "States": {"Name": {"Type": "Pass", "End": True, "Parameters": {
    "file.$": "States.Format('file={}', States.ArrayGetItem(States.StringSplit($.key, '/'), 2))"}}}}
engine = StateEngine({"state_engine": {"store_url": "ASL_store.json", "execution_ttl": 500}})
dispatcher = EventDispatcherStub(engine)
context = {"StateMachine": {"Id": "arn:aws:states:local:0123456789:stateMachine:m", "Definition": ASL}}
dispatcher.dispatch(json.dumps({"data": INPUT, "context": context}))
d = dispatcher.broadcasts[-1]["detail"]
check("Pass state with a two-level nested intrinsic succeeds with {\"file\": \"file=report.csv\"}",
      d["status"] == "SUCCEEDED" and json.loads(d["output"]) == {"file": "file=report.csv"},
      "status=%s error=%s cause=%s" % (d["status"], d.get("error"), d.get("cause")))

if failures:
    print("\nDEFECT PRESENT: %d well-formed intrinsic call(s) mis-tokenised" % len(failures))
    sys.exit(1)
print("\nall checks passed")
sys.exit(0)
