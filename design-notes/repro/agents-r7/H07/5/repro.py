#!/usr/bin/env python
"""
C14 repro: the type-test operators disagree about a MISSING Variable.
With input {} (no "$.x"):
    {"Variable": "$.x", "IsBoolean":   false}  -> no match
    {"Variable": "$.x", "IsNull":      false}  -> MATCH
    {"Variable": "$.x", "IsNumeric":   false}  -> MATCH
    {"Variable": "$.x", "IsString":    false}  -> MATCH
    {"Variable": "$.x", "IsTimestamp": false}  -> MATCH
Five operators of the same family, same (absent) value, same constant: they must
agree.  By the ASL spec / AWS behaviour (only IsPresent may be applied to a path
that selects nothing; for any other operator the rule can never send the machine
to its Next) and by this project's own rule "a missing Variable never matches"
(IsBoolean, and every value comparison) the answer is "no match".

Run:  cd <worktree>/asl-workflow-engine/py && /venv/bin/python repro.py
Exits 1 while the five operators disagree, 0 when they agree.
"""
import sys, os, json, logging, tempfile

sys.path.insert(0, os.getcwd())                 # the real project code
os.chdir(tempfile.mkdtemp(prefix="h07_5_"))     # keep ASL_store.json out of the worktree
logging.disable(logging.CRITICAL)

from asl_workflow_engine.state_engine import StateEngine

class EventDispatcherStub(object):          # stubs the AMQP broker only
    def __init__(self, state_engine):
        self.state_engine = state_engine
        state_engine.event_dispatcher = self
        self.count = -1
        self.broadcasts = []
    def set_timeout(self, callback, delay):
        callback()
    def dispatch(self, message):
        self.count += 1
        self.state_engine.notify(json.loads(message), self.count)
    def acknowledge(self, id):
        pass
    def publish(self, item, **kwargs):
        self.dispatch(json.dumps(item))
    def broadcast(self, subject, message, carrier_properties=None):
        self.broadcasts.append(message)

def taken(rule, data):
    """Run a one-Choice machine, return the marker of the branch taken (or the error name)"""
    rule = dict(rule, Next="Matched")
    asl = {"StartAt": "C", "States": {
        "C": {"Type": "Choice", "Choices": [rule], "Default": "NotMatched"},
        "Matched": {"Type": "Pass", "Result": "Matched", "End": True},
        "NotMatched": {"Type": "Pass", "Result": "NotMatched", "End": True}}}
    engine = StateEngine({"state_engine": {"store_url": "ASL_store.json", "execution_ttl": 500}})
    dispatcher = EventDispatcherStub(engine)
    context = {"StateMachine": {"Id": "arn:aws:states:local:0123456789:stateMachine:m", "Definition": asl}}
    dispatcher.dispatch(json.dumps({"data": data, "context": context}))
    detail = dispatcher.broadcasts[-1]["detail"]
    return json.loads(detail["output"]) if detail.get("output") else detail.get("error")

OPS = ["IsBoolean", "IsNull", "IsNumeric", "IsString", "IsTimestamp"]
failures = 0

# sanity: with the Variable present the five behave alike (x = {} is none of the five types)
present = {op: taken({"Variable": "$.x", op: False}, {"x": {}}) for op in OPS}
print("Variable present ({\"x\": {}}), <op>: false ->", present)
if set(present.values()) != {"Matched"}:
    print("FAIL unexpected result for a present variable")
    failures += 1

for constant in (False, True):
    verdicts = {op: taken({"Variable": "$.x", op: constant}, {}) for op in OPS}
    print("Variable MISSING ({}), <op>: %-5s ->" % json.dumps(constant), verdicts)
    if len(set(verdicts.values())) != 1:
        failures += 1
        print("FAIL the type tests disagree about a missing Variable: " +
              ", ".join("%s:%s=%s" % (op, json.dumps(constant), v) for op, v in verdicts.items()))

# what that means for a state machine author: "x is not null, so use it"
got = taken({"Variable": "$.x", "IsNull": False}, {})
print("rule {\"Variable\": \"$.x\", \"IsNull\": false, \"Next\": \"UseX\"} with input {} ->", got,
      "(IsBoolean:false on the same input -> %s)" % taken({"Variable": "$.x", "IsBoolean": False}, {}))

# IsPresent is the one operator defined for a missing Variable and must keep working
if taken({"Variable": "$.x", "IsPresent": False}, {}) != "Matched" or taken({"Variable": "$.x", "IsPresent": True}, {}) != "NotMatched":
    print("FAIL IsPresent on a missing Variable")
    failures += 1

if failures:
    print("\nDEFECT PRESENT: sibling type-test operators give contradictory answers for a missing Variable")
    sys.exit(1)
print("\nall checks passed")
sys.exit(0)
