import sys, os, json, heapq, itertools, tempfile, logging, types, uuid, shutil

sys.path.insert(0, os.getcwd())
for _name in ("pika", "redis", "pottery"):      # not installed: stub them
    try:
        __import__(_name)
    except Exception:
        sys.modules[_name] = types.ModuleType(_name)
os.environ["LOG_LEVEL"] = "CRITICAL"

from asl_workflow_engine import event_dispatcher as ed_mod
from asl_workflow_engine.state_engine import StateEngine

logging.disable(logging.CRITICAL)


class FakeMessage(object):
    """Stand-in for the AMQP Message class (broker stub)."""
    def __init__(self, body="", properties=None, content_type=None, subject=None,
                 reply_to=None, correlation_id=None, expiration=None,
                 mandatory=False, message_id=None):
        self.body = body.encode("utf8") if isinstance(body, str) else body
        self.properties = properties or {}
        self.subject = subject
        self.reply_to = reply_to
        self.correlation_id = correlation_id
        self.message_id = message_id
        self.redelivered = False

    def acknowledge(self, multiple=False):
        pass


ed_mod.Message = FakeMessage   # task_dispatcher imports Message from here


class Broker(object):
    """
    In-memory broker + timer stub driving the REAL StateEngine and the REAL
    TaskDispatcher. Published state events are queued (self.queue) until the
    test delivers them, RPC requests to workers are collected in self.rpc,
    set_timeout() callbacks run on a virtual clock (self.now, milliseconds).
    """
    def __init__(self):
        self.tmp = tempfile.mkdtemp(prefix="h03_")
        config = {
            "state_engine": {"store_url": os.path.join(self.tmp, "ASL_store.json"),
                             "execution_ttl": 31536000},
            "event_queue": {"instance_id": "x", "orphaned_response_retention_ms": 0},
        }
        self.now = 0.0
        self.queue, self.rpc, self.rpc_times, self.timers = [], [], [], []
        self.cancelled, self.notifications = set(), []
        self.seq = itertools.count()
        self.unacknowledged_messages = {}
        self.engine = StateEngine(config)
        self.engine.event_dispatcher = self
        td = self.engine.task_dispatcher
        td.producer = self
        td.reply_to = types.SimpleNamespace(name="reply_to_queue")

    # --- EventDispatcher interface used by the engine --------------------
    def set_timeout(self, callback, delay):
        tid = next(self.seq)
        heapq.heappush(self.timers, (self.now + delay, tid, callback))
        return tid

    def clear_timeout(self, tid):
        self.cancelled.add(tid)

    def acknowledge(self, id):
        self.unacknowledged_messages.pop(id, None)

    def publish(self, item, threadsafe=False, use_shared_queue=False):
        self.queue.append(FakeMessage(json.dumps(item), message_id=str(uuid.uuid4())))

    def broadcast(self, subject, item, carrier_properties=None):
        self.notifications.append(json.loads(json.dumps(item))["detail"])

    # --- producer interface used by the TaskDispatcher --------------------
    def send(self, message, threadsafe=False):
        self.rpc.append(message)
        self.rpc_times.append(self.now)

    # --- test driver -------------------------------------------------------
    def start(self, asl, data):
        arn = "arn:aws:states:local:0123456789:stateMachine:sm"
        self.engine.asl_store[arn] = {
            "creationDate": 0, "definition": asl, "name": "sm",
            "roleArn": "arn:aws:iam::0123456789:role/r", "stateMachineArn": arn,
            "updateDate": 0, "status": "ACTIVE", "type": "STANDARD"}
        self.publish({"data": data, "context": {"StateMachine": {"Id": arn}}})

    def run_due_timers(self, horizon=0):
        """Fire timers due within `horizon` ms (advancing the virtual clock)."""
        while True:
            live = sorted(t for t in self.timers if t[1] not in self.cancelled)
            if not live or live[0][0] - self.now > horizon:
                return
            self.timers.remove(live[0])
            self.now = max(self.now, live[0][0])
            live[0][2]()

    def deliver(self, i=0):
        m = self.queue.pop(i)
        self.unacknowledged_messages[m.message_id] = m
        self.engine.notify(json.loads(m.body.decode("utf8")), m.message_id, False)
        self.run_due_timers()

    def deliver_all(self):
        while self.queue:
            self.deliver(0)

    def payload(self, i):
        return json.loads(self.rpc[i].body.decode("utf8"))

    def reply(self, i, result):
        req = self.rpc.pop(i)
        self.engine.task_dispatcher.handle_rpcmessage_response(
            FakeMessage(json.dumps(result), correlation_id=req.correlation_id))
        self.run_due_timers()

    def ended(self):
        return [n for n in self.notifications if n["status"] != "RUNNING"]

    def history(self):
        for k in self.engine.execution_history.keys():
            return [e["type"] for e in self.engine.execution_history[k]]
        return []

    def close(self):
        shutil.rmtree(self.tmp, ignore_errors=True)


# ---------------------------------------------------------------------------
# C07 / C05: after a nested Map's failure has been CAUGHT, the late reply of a
# sibling iteration terminates the ENCLOSING Parallel state: the fallback path
# and the other branch are dropped and the execution never ends
# ---------------------------------------------------------------------------
INNER = {
    "StartAt": "M",
    "States": {
        "M": {
            "Type": "Map",
            "ItemsPath": "$.items",
            "ItemProcessor": {"StartAt": "T", "States": {
                "T": {"Type": "Task", "Resource": "arn:aws:rpcmessage:local::function:T", "End": True}}},
            "Catch": [{"ErrorEquals": ["States.ALL"], "ResultPath": "$.err", "Next": "Fallback"}],
            "End": True
        },
        "Fallback": {"Type": "Pass", "End": True}
    }
}
SIBLING = {"StartAt": "Sib", "States": {
    "Sib": {"Type": "Task", "Resource": "arn:aws:rpcmessage:local::function:Sib", "End": True}}}
ASL = {
    "StartAt": "P",
    "States": {
        "P": {"Type": "Parallel", "Branches": [INNER, SIBLING], "Next": "After"},
        "After": {"Type": "Pass", "End": True}
    }
}


def find(b, subject, item=None):
    for i, r in enumerate(b.rpc):
        if r.subject == subject and (item is None or b.payload(i)["id"] == item):
            return i
    return None


def run(late_reply):
    b = Broker()
    b.start(ASL, {"items": [{"id": 0}, {"id": 1}]})
    b.deliver_all()                      # P, M, both iterations and Sib are dispatched
    assert sorted(r.subject for r in b.rpc) == ["Sib", "T", "T"]
    # iteration 1 fails: the Map state M fails, its catcher transfers to Fallback
    b.reply(find(b, "T", 1), {"errorType": "Boom", "errorMessage": "bad item"})
    if late_reply:
        # the worker of iteration 0 (a sibling of the failed iteration) now answers
        b.reply(find(b, "T", 0), {"id": 0, "ok": True})
    b.deliver_all()                      # Fallback runs and ends branch 0
    sib_cancelled = len(b.engine.task_dispatcher.pending_requests) == 0
    i = find(b, "Sib")
    b.reply(i, {"sib": "done"})          # branch 1 ends
    b.deliver_all()
    ended, hist = b.ended(), b.history()
    b.close()
    return ended, hist, sib_cancelled


def ok(ended):
    if len(ended) != 1 or ended[0]["status"] != "SUCCEEDED":
        return False
    out = json.loads(ended[0]["output"])
    return (isinstance(out, list) and len(out) == 2 and out[1] == {"sib": "done"}
            and out[0].get("err", {}).get("Error") == "Boom"
            and out[0].get("items") == [{"id": 0}, {"id": 1}])


# Without the late reply (the worker of iteration 0 never answers) all is well.
ended, hist, sib_cancelled = run(late_reply=False)
assert ok(ended), ended

ended, hist, sib_cancelled = run(late_reply=True)
if not ok(ended):
    print("DEFECT (C07 catch / C05 join): M's failure was caught (history has MapStateFailed and "
          "MapStateExited: %s) and transferred to Fallback, but when the sibling iteration's reply arrived "
          "the Task.Terminated of that iteration was propagated to the enclosing Parallel state P:" %
          ("MapStateFailed" in hist and "MapStateExited" in hist))
    print(" - the request of the other branch (Sib) was cancelled by the engine: %s" % sib_cancelled)
    print(" - terminal notifications: %r (expected exactly one, SUCCEEDED, output "
          "[{items, err: {Error: Boom}}, {sib: done}])" % (ended,))
    print(" - 'After' entered: %s; history tail: %s" % (hist.count("PassStateEntered") > 1, hist[-5:]))
    sys.exit(1)
print("OK: a late sibling reply after a caught nested Map failure leaves the enclosing Parallel alone")
sys.exit(0)
