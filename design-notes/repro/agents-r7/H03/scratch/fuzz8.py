import sys, copy, random, json, traceback, hashlib; sys.path.insert(0, "/tmp/r7/hout/H03")
from harness import *

def fails(seed, task, id_, trace):
    x = hashlib.md5(("%s|%s|%s|%s" % (seed, task, id_, ",".join(trace))).encode()).digest()[0]
    return x < 70

class Gen:
    def __init__(self, rng, mode):
        self.rng = rng; self.n = 0; self.maps = {}; self.mode = mode
    def name(self, p):
        self.n += 1; return "%s%d" % (p, self.n)
    def chain(self, depth):
        rng = self.rng
        k = rng.choice([1, 1, 2, 3])
        seq = []; states = {}
        for i in range(k):
            kinds = ["Task", "Task", "Pass"]
            if depth > 0: kinds += ["Parallel", "Map", "Map"]
            kind = rng.choice(kinds)
            nm = self.name(kind[0])
            extra = None
            if kind == "Task":
                st = {"Type": "Task", "Resource": "arn:aws:rpcmessage:local::function:" + nm}
                m = self.mode if self.mode != "mix" else rng.choice(["retry", "catch"])
                st["_mode"] = m
                if m == "retry":
                    st["Retry"] = [{"ErrorEquals": ["Other"], "MaxAttempts": 5}, {"ErrorEquals": ["E1"], "IntervalSeconds": rng.choice([1, 2]), "MaxAttempts": rng.choice([1, 2]), "BackoffRate": 2}]
                else:
                    f = self.name("F")
                    st["Catch"] = [{"ErrorEquals": ["Other"], "Next": "nowhere"}, {"ErrorEquals": ["States.ALL"], "ResultPath": "$.err", "Next": f}]
                    extra = (f, {"Type": "Pass"})
            elif kind == "Pass":
                st = {"Type": "Pass"}
            elif kind == "Parallel":
                nb = rng.choice([1, 2, 3])
                st = {"Type": "Parallel", "ResultPath": "$.res", "Branches": [self.chain(depth - 1) for _ in range(nb)]}
            else:
                mc = rng.choice([0, 0, 1, 2, 3])
                st = {"Type": "Map", "ItemsPath": "$.sub", "ResultPath": "$.res", "ItemProcessor": self.chain(depth - 1)}
                if mc: st["MaxConcurrency"] = mc
                self.maps[nm] = mc
            seq.append((nm, extra)); states[nm] = st
            if extra: states[extra[0]] = extra[1]
        for j, (nm, extra) in enumerate(seq):
            tgt = [nm] + ([extra[0]] if extra else [])
            for t in tgt:
                if j + 1 < len(seq): states[t]["Next"] = seq[j + 1][0]
                else: states[t]["End"] = True
        return {"StartAt": seq[0][0], "States": states}

def items(rng, depth, prefix):
    if depth == 0: return []
    n = rng.choice([0, 1, 2, 3, 4])
    return [{"id": prefix + str(i), "sub": items(rng, depth - 1, prefix + str(i) + ".")} for i in range(n)]

def ref(seed, chain, data, calls):
    nm = chain["StartAt"]
    while True:
        st = chain["States"][nm]
        t = st["Type"]
        nxt = None
        if t == "Task":
            calls.append((nm, data.get("id")))
            if fails(seed, nm, data.get("id"), data.get("trace", [])):
                if st["_mode"] == "retry":
                    calls.append((nm, data.get("id")))
                    data = copy.deepcopy(data); data["trace"] = data.get("trace", []) + [nm]
                else:
                    data = copy.deepcopy(data); data["err"] = {"Error": "E1"}
                    nxt = st["Catch"][1]["Next"]
            else:
                data = copy.deepcopy(data); data["trace"] = data.get("trace", []) + [nm]
        elif t == "Parallel":
            res = [ref(seed, b, copy.deepcopy(data), calls) for b in st["Branches"]]
            data = copy.deepcopy(data); data["res"] = res
        elif t == "Map":
            res = [ref(seed, st["ItemProcessor"], copy.deepcopy(i), calls) for i in data["sub"]]
            data = copy.deepcopy(data); data["res"] = res
        if nxt: nm = nxt; continue
        if st.get("End"): return data
        nm = st["Next"]

def strip(o):
    if isinstance(o, dict):
        return {k: strip(v) for k, v in o.items() if k != "Cause"}
    if isinstance(o, list): return [strip(x) for x in o]
    return o

def clean(asl):
    s = json.dumps(asl); o = json.loads(s)
    def rec(c):
        for st in c["States"].values():
            st.pop("_mode", None)
            for b in st.get("Branches", []): rec(b)
            if "ItemProcessor" in st: rec(st["ItemProcessor"])
    rec(o); return o

def inflight(h, maps, waiting):
    evs = [json.loads(m.body.decode()) for m in h.queue]
    for r in h.rpc_requests:
        m = h.ed.unacknowledged_messages.get(r.correlation_id)
        if m: evs.append(json.loads(m.body.decode()))
    # events waiting for retry timers: unacked Task events with RetryTimeout and no rpc
    d = {}
    for e in evs:
        for b in (e["context"].get("State") or {}).get("Branch", []):
            if "Index" in b and b.get("Parent") in maps:
                d.setdefault((b["Parent"], b["ID"]), set()).add(b["Index"])
    return d

def one(seed, mode):
    rng = random.Random(seed)
    g = Gen(rng, mode)
    asl = g.chain(2)
    data = {"id": "r", "sub": items(rng, 3, "")}
    calls = []
    exp = ref(seed, asl, copy.deepcopy(data), calls)
    h = Harness()
    h.start(clean(asl), copy.deepcopy(data))
    got_calls = []
    seen = {}
    def w(p, s):
        got_calls.append((s, p.get("id")))
        key = (s, p.get("id"), tuple(p.get("trace", [])))
        seen[key] = seen.get(key, 0) + 1
        if seen[key] == 1 and fails(seed, s, p.get("id"), p.get("trace", [])):
            return {"errorType": "E1", "errorMessage": "boom"}
        p = dict(p); p["trace"] = p.get("trace", []) + [s]; return p
    steps = 0
    viol = None
    while steps < 40000:
        steps += 1
        ch = []
        if h.queue: ch.append("ev")
        if h.rpc_requests: ch.append("rpc")
        soon = [t for t in h.timers if t[1] not in h.timers_cancelled and t[0] - h.now < 600000]
        if soon: ch.append("timer")
        if not ch: break
        c = rng.choice(ch)
        if c == "ev": h.deliver(rng.randrange(len(h.queue)))
        elif c == "timer": h.fire_next_timer(max_delay=600000); h.fire_zero_timers()
        else:
            i = rng.randrange(len(h.rpc_requests)); r = h.rpc_requests[i]
            h.reply(i, w(json.loads(r.body.decode()), r.subject))
        for (mn, mid), idx in inflight(h, g.maps, None).items():
            c_ = g.maps[mn]
            if c_ and len(idx) > c_:
                viol = "inflight %s %s > %d" % (mn, sorted(idx), c_)
    ends = h.end_notifications()
    problems = []
    if viol: problems.append(viol)
    if len(ends) != 1: problems.append("ends=%d" % len(ends))
    elif ends[0]["status"] != "SUCCEEDED": problems.append("status %s %s %s" % (ends[0]["status"], ends[0].get("error"), ends[0].get("cause")))
    elif strip(json.loads(ends[0]["output"])) != exp: problems.append("output differs")
    if sorted(map(str, got_calls)) != sorted(map(str, calls)): problems.append("calls differ got %d exp %d" % (len(got_calls), len(calls)))
    if h.engine.branch_metadata: problems.append("branch_metadata left")
    return problems, asl, data

if __name__ == "__main__":
    mode = sys.argv[1]; a, b = int(sys.argv[2]), int(sys.argv[3])
    bad = 0
    for seed in range(a, b):
        try:
            p, asl, data = one(seed, mode)
        except Exception as e:
            p, asl, data = ["EXC " + traceback.format_exc()[-400:]], None, None
        if p:
            bad += 1
            if bad < 25: print(seed, [x[:250] for x in p[:3]])
    print("done", bad)
