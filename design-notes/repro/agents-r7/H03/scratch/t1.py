import sys; sys.path.insert(0, "/tmp/r7/hout/H03")
from harness import *
asl = {"StartAt": "M", "States": {"M": {"Type": "Map", "ItemProcessor": {"StartAt": "P", "States": {"P": {"Type": "Pass", "End": True}}}, "Next": "Done"}, "Done": {"Type": "Succeed"}}}
for data in ([1,2,3], [1,None,3]):
    h = Harness()
    h.start(asl, data)
    h.run(lambda p, s: p)
    print(data, h.status() and (h.status()["status"], h.status()["output"]), len(h.queue), len(h.ed.unacknowledged_messages))
# task returning null
asl = {"StartAt": "M", "States": {"M": {"Type": "Map", "ItemProcessor": {"StartAt": "T", "States": {"T": {"Type": "Task", "Resource": "arn:aws:rpcmessage:local::function:f", "End": True}}}, "Next": "Done"}, "Done": {"Type": "Succeed"}}}
for w in (lambda p, s: p, lambda p, s: None):
    h = Harness()
    h.start(asl, [1,2])
    h.run(w)
    print(h.status() and (h.status()["status"], h.status()["output"]), len(h.queue), len(h.ed.unacknowledged_messages))
