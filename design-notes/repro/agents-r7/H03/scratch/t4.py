import sys; sys.path.insert(0, "/tmp/r7/hout/H03")
from harness import *
def run(retry, catch, outcomes, kind="Task"):
    task = {"Type": "Task", "Resource": "arn:aws:rpcmessage:local::function:f"}
    if kind == "Task":
        st = dict(task); st["Retry"] = retry; st["Catch"] = catch; st["Next"] = "Done"
    elif kind == "Parallel":
        t = dict(task); t["End"] = True
        st = {"Type": "Parallel", "Branches": [{"StartAt": "T", "States": {"T": t}}], "Retry": retry, "Catch": catch, "Next": "Done"}
    else:
        t = dict(task); t["End"] = True
        st = {"Type": "Map", "ItemsPath": "$.items", "ItemProcessor": {"StartAt": "T", "States": {"T": t}}, "Retry": retry, "Catch": catch, "Next": "Done"}
    asl = {"StartAt": "S", "States": {"S": st, "Done": {"Type": "Succeed"}, "Z": {"Type": "Pass", "End": True}}}
    h = Harness()
    h.start(asl, {"items": [1], "k": "v"})
    it = iter(outcomes)
    def w(p, s):
        o = next(it, None)
        if o is None: return {"ok": 1}
        return {"errorType": o, "errorMessage": "m"}
    h.run(w)
    times = [l[3] for l in h.log if l[0] == "rpc"]
    st = h.status()
    return [ (b-a)/1000 for a,b in zip(times, times[1:])], st and st["status"], st and (st.get("output") or st.get("error"))
retry = [{"ErrorEquals": ["ErrorA", "ErrorB"], "IntervalSeconds": 1, "BackoffRate": 2, "MaxAttempts": 2}, {"ErrorEquals": ["ErrorC"], "IntervalSeconds": 5}]
catch = [{"ErrorEquals": ["States.ALL"], "Next": "Z", "ResultPath": "$.err"}]
for kind in ("Task", "Parallel", "Map"):
    print(kind, run(retry, catch, ["ErrorA", "ErrorB", "ErrorC", "ErrorB"], kind))
    print(kind, run(retry, catch, ["ErrorA", "ErrorA", "ErrorC", "ErrorC", "ErrorC", "ErrorC"], kind))
    print(kind, run([{"ErrorEquals": ["ErrorA"], "MaxAttempts": 1}, {"ErrorEquals": ["ErrorC"], "MaxAttempts": 1}], catch, ["ErrorA", "ErrorC"], kind))
