import sys; sys.path.insert(0, "/tmp/r7/hout/H03")
from harness import *
asl = {"StartAt": "M", "States": {"M": {"Type": "Map", "ItemProcessor": {"StartAt": "T", "States": {"T": {"Type": "Task", "Resource": "arn:aws:states:local::rpcmessage:invoke", "Parameters": {"FunctionName": "arn:aws:rpcmessage:local::function:f", "Payload.$": "$"}, "OutputPath": "$.Payload", "End": True}}}, "Next": "Done"}, "Done": {"Type": "Succeed"}}}
for w in (lambda p, s: p["n"], lambda p, s: None if p["n"] == 2 else p["n"]):
    h = Harness()
    h.start(asl, [{"n":1},{"n":2},{"n":3}])
    h.run(w)
    print(h.status() and (h.status()["status"], h.status()["output"]), len(h.queue), len(h.ed.unacknowledged_messages), [e["type"] for e in h.history()][-5:])
