import sys; sys.path.insert(0, "/tmp/r7/hout/H03")
from harness import *
task = {"Type": "Task", "Resource": "arn:aws:rpcmessage:local::function:f", "Catch": [{"ErrorEquals": ["States.ALL"], "Next": "Handled"}], "End": True}
it = {"StartAt": "T", "States": {"T": task, "Handled": {"Type": "Pass", "End": True}}}
asl = {"StartAt": "M", "States": {"M": {"Type": "Map", "ItemProcessor": it, "Next": "After"}, "After": {"Type": "Pass", "End": True}}}
def w(p, s):
    if p["n"] == 2: return {"errorType": "Boom", "errorMessage": "bad item"}
    return p
h = Harness(); h.start(asl, [{"n":1},{"n":2},{"n":3}]); h.run(w)
st = h.status(); print(st["status"], st.get("output"), st.get("error"))
print([e["type"] for e in h.history()])
# top level
asl2 = {"StartAt": "T", "States": {"T": dict(task), "Handled": {"Type": "Pass", "End": True}}}
h = Harness(); h.start(asl2, {"n":2}); h.run(w)
st = h.status(); print(st["status"], st.get("output"), st.get("error"))
# parallel
aslp = {"StartAt": "P", "States": {"P": {"Type": "Parallel", "Branches": [it, {"StartAt": "B", "States": {"B": {"Type": "Pass", "End": True}}}], "Next": "After"}, "After": {"Type": "Pass", "End": True}}}
h = Harness(); h.start(aslp, {"n":2}); h.run(w)
st = h.status(); print(st["status"], st.get("output"), st.get("error"))
