import sys; sys.path.insert(0, "/tmp/r7/hout/H03/scratch")
from fuzz5 import *
import fuzz5
seed = int(sys.argv[1])
orig = Harness
hs = []
class H2(Harness):
    def __init__(self): super().__init__(); hs.append(self)
fuzz5.Harness = H2
p, asl, data = fuzz5.one(seed)
print(p); print(json.dumps(asl)); print(json.dumps(data))
for m in hs[0].ed.unacknowledged_messages.values():
    e = json.loads(m.body.decode()); print(e["context"]["State"]["Name"], e["context"]["State"].get("Branch"))
