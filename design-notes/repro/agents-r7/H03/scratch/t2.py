import sys; sys.path.insert(0, "/tmp/r7/hout/H03")
from harness import *
asl = {"StartAt": "M", "States": {"M": {"Type": "Map", "ItemProcessor": {"StartAt": "T", "States": {"T": {"Type": "Task", "Resource": "arn:aws:states:local::rpcmessage:invoke", "Parameters": {"FunctionName": "arn:aws:rpcmessage:local::function:f", "Payload.$": "$"}, "OutputPath": "$.Payload", "End": True}}}, "Next": "Done"}, "Done": {"Type": "Succeed"}}}
for w in (lambda p, s: p, lambda p, s: None if p == 2 else p):
    h = Harness()
    h.start(asl, [1,2,3])
    h.run(w)
    print(h.status() and (h.status()["status"], h.status()["output"]), len(h.queue), len(h.ed.unacknowledged_messages), [e["type"] for e in h.history()][-5:])
aslp = {"StartAt": "P", "States": {"P": {"Type": "Parallel", "Branches": [{"StartAt": "A", "States": {"A": {"Type": "Pass", "OutputPath": "$.x", "End": True}}}, {"StartAt": "B", "States": {"B": {"Type": "Pass", "End": True}}}], "End": True}}}
for d in ({"x": 1}, {"x": None}):
    h = Harness()
    h.start(aslp, d)
    h.run(lambda p,s: p)
    print(h.status() and (h.status()["status"], h.status()["output"]), len(h.queue), len(h.ed.unacknowledged_messages), [e["type"] for e in h.history()][-5:])
h = Harness()
h.start(asl, [1,2,3])
h.run(lambda p,s: p)
print(h.status())
