import sys
src = open("/tmp/r7/hout/H03/4/repro.py").read().split("# Without the late reply")[0]
exec(src)
b = Broker()
b.start(ASL, {"items": [{"id": 0}, {"id": 1}]})
b.deliver_all()
b.reply(find(b, "T", 1), {"errorType": "Boom", "errorMessage": "bad item"})
bm = b.engine.branch_metadata
print("groups before late reply", {k[:6]: (v["results"].__len__(), v.get("terminated")) for m in bm.values() for k, v in m.results.items()})
b.reply(find(b, "T", 0), {"id": 0, "ok": True})
print("bm after late reply", list(bm), "pending", len(b.engine.task_dispatcher.pending_requests))
b.deliver_all()
print("groups after Fallback", {k[:6]: (v["results"], v.get("terminated")) for m in bm.values() for k, v in m.results.items()})
b.reply(find(b, "Sib"), {"sib": "done"})
print("orphans", len(b.engine.task_dispatcher.orphaned_responses), b.ended())
b.close()
