import sys, random, json; sys.path.insert(0, "/tmp/r7/hout/H03")
from harness import *
def scenario(seed, kind, mc, n, failidx, nfail, nested):
    rng = random.Random(seed)
    t = {"Type": "Task", "Resource": "arn:aws:rpcmessage:local::function:T", "End": True}
    retry = [{"ErrorEquals": ["E1"], "IntervalSeconds": 3, "MaxAttempts": 2, "BackoffRate": 2}]
    catch = [{"ErrorEquals": ["States.ALL"], "ResultPath": "$.err", "Next": "F"}]
    if kind == "Map":
        st = {"Type": "Map", "ItemsPath": "$.sub", "ResultPath": "$.res", "MaxConcurrency": mc, "ItemProcessor": {"StartAt": "T", "States": {"T": t}}, "Retry": retry, "Catch": catch, "Next": "Done"}
    else:
        brs = []
        for i in range(n):
            tt = dict(t); tt["Resource"] = "arn:aws:rpcmessage:local::function:T%d" % i
            brs.append({"StartAt": "T%d" % i, "States": {"T%d" % i: tt}})
        st = {"Type": "Parallel", "ResultPath": "$.res", "Branches": brs, "Retry": retry, "Catch": catch, "Next": "Done"}
    top = {"StartAt": "S", "States": {"S": st, "Done": {"Type": "Pass", "End": True}, "F": {"Type": "Pass", "End": True}}}
    if nested:
        top["States"]["Done"] = {"Type": "Pass", "End": True}
        inner = top
        top = {"StartAt": "O", "States": {"O": {"Type": "Parallel", "Branches": [inner, {"StartAt": "Sib", "States": {"Sib": {"Type": "Task", "Resource": "arn:aws:rpcmessage:local::function:Sib", "End": True}}}], "End": True}}}
    data = {"sub": [{"id": i} for i in range(n)]}
    h = Harness(); h.start(top, data)
    cnt = {}
    def w(p, s):
        if s == "Sib": return {"sib": 1}
        i = p["id"] if kind == "Map" else int(s[1:])
        cnt[i] = cnt.get(i, 0) + 1
        if i == failidx and cnt[i] <= nfail: return {"errorType": "E1", "errorMessage": "x"}
        return {"done": i}
    viol = []
    steps = 0
    while steps < 5000:
        steps += 1
        ch = []
        if h.queue: ch.append("ev")
        if h.rpc_requests: ch.append("rpc")
        soon = [t_ for t_ in h.timers if t_[1] not in h.timers_cancelled and t_[0] - h.now < 600000]
        if soon: ch.append("timer")
        if not ch: break
        c = rng.choice(ch)
        if c == "ev": h.deliver(rng.randrange(len(h.queue)))
        elif c == "timer": h.fire_next_timer(600000); h.fire_zero_timers()
        else:
            i = rng.randrange(len(h.rpc_requests)); r = h.rpc_requests[i]
            h.reply(i, w(json.loads(r.body.decode()), r.subject))
        if kind == "Map" and mc:
            out = [r for r in h.rpc_requests if r.subject == "T"]
            if len(out) > mc: viol.append("inflight %d > %d" % (len(out), mc))
    ends = h.end_notifications()
    return ends, viol, cnt, h
if __name__ == "__main__":
    bad = 0
    for seed in range(int(sys.argv[1]), int(sys.argv[2])):
        rng = random.Random(seed * 7919)
        kind = rng.choice(["Map", "Parallel"]); n = rng.choice([1,2,3,4,5]); mc = rng.choice([0,1,2,3]); failidx = rng.randrange(n); nfail = rng.choice([1,2,3]); nested = rng.choice([False, True])
        try:
            ends, viol, cnt, h = scenario(seed, kind, mc, n, failidx, nfail, nested)
        except Exception as e:
            import traceback; print(seed, "EXC", traceback.format_exc()[-500:]); bad += 1; continue
        p = list(viol[:1])
        if len(ends) != 1: p.append("ends %d" % len(ends))
        else:
            e = ends[0]
            if e["status"] != "SUCCEEDED": p.append("status %s %s %s" % (e["status"], e.get("error"), (e.get("cause") or "")[:200]))
            else:
                out = json.loads(e["output"])
                inner = out[0] if nested else out
                if nested and out[1] != {"sib": 1}: p.append("sib wrong %s" % out)
                if nfail <= 2:
                    if inner.get("res") != [{"done": i} for i in range(n)]: p.append("res wrong %s" % inner)
                else:
                    if "err" not in inner or inner["err"]["Error"] != "E1" or inner.get("sub") != [{"id": i} for i in range(n)]: p.append("catch wrong %s" % inner)
        if p:
            bad += 1
            if bad < 12 and not any("inflight" in x for x in p): print(seed, kind, n, mc, failidx, nfail, nested, p)
    print("done", bad)
