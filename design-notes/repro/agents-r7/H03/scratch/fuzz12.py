import sys, copy, random, json, traceback; sys.path.insert(0, "/tmp/r7/hout/H03/scratch"); sys.path.insert(0, "/tmp/r7/hout/H03")
import fuzz8
from fuzz8 import *
def one(seed):
    rng = random.Random(seed)
    g = Gen(rng, "retry")
    asl = g.chain(2)
    # strip Retry so failures are uncaught
    c = clean(asl)
    def rec(ch):
        for st in ch["States"].values():
            st.pop("Retry", None)
            for b in st.get("Branches", []): rec(b)
            if "ItemProcessor" in st: rec(st["ItemProcessor"])
    rec(c)
    data = {"id": "r", "sub": items(rng, 3, "")}
    h = Harness(); h.start(c, copy.deepcopy(data))
    nfail = [0]
    def w(p, s):
        if fails(seed, s, p.get("id"), p.get("trace", [])):
            nfail[0] += 1
            return {"errorType": "E1", "errorMessage": "boom"}
        p = dict(p); p["trace"] = p.get("trace", []) + [s]; return p
    steps = 0
    while steps < 40000:
        steps += 1
        ch = []
        if h.queue: ch.append("ev")
        if h.rpc_requests: ch.append("rpc")
        if not ch: break
        cc = rng.choice(ch)
        if cc == "ev": h.deliver(rng.randrange(len(h.queue)))
        else:
            i = rng.randrange(len(h.rpc_requests)); r = h.rpc_requests[i]
            h.reply(i, w(json.loads(r.body.decode()), r.subject))
    ends = h.end_notifications()
    p = []
    if len(ends) != 1: p.append("ends=%d" % len(ends))
    elif nfail[0] and ends[0]["status"] != "FAILED": p.append("status " + ends[0]["status"])
    elif ends[0]["status"] == "FAILED" and ends[0]["error"] != "E1": p.append("error " + str(ends[0]["error"]))
    if h.engine.branch_metadata: p.append("bm left")
    if h.ed.unacknowledged_messages: p.append("unacked %d" % len(h.ed.unacknowledged_messages))
    if h.engine.task_dispatcher.pending_requests: p.append("pending")
    return p
bad = {}
for seed in range(int(sys.argv[1]), int(sys.argv[2])):
    try: p = one(seed)
    except Exception: p = ["EXC " + traceback.format_exc()[-300:]]
    for x in p:
        k = x.split()[0]
        bad.setdefault(k, []).append(seed)
print({k: (len(v), v[:8]) for k, v in bad.items()})
