import sys; sys.path.insert(0, "/tmp/r7/hout/H03/scratch"); sys.path.insert(0, "/tmp/r7/hout/H03")
sys.argv = ["x", "0", "0"]
import fuzz12, harness
hs = []
class H2(harness.Harness):
    def __init__(self): super().__init__(); hs.append(self)
fuzz12.Harness = H2
seed = 153
print(fuzz12.one(seed))
h = hs[0]
for k, v in h.engine.branch_metadata.items():
    print("ended", v.ended)
    for i, r in v.results.items():
        print(i[:6], [("NONE" if x is None else (x.get("Error") if isinstance(x, dict) and "Error" in x else "res")) for x in r["results"]], r.get("terminated"), r["state"])
print([e["type"] for e in h.history()][-12:])
print([l for l in h.log if l[0] in ("cancel", "reply")])
