import sys, json; sys.path.insert(0, "/tmp/r7/hout/H03")
from harness import *
T = {"Type": "Task", "Resource": "arn:aws:rpcmessage:local::function:T", "End": True}
M = {"Type": "Map", "ItemsPath": "$.sub", "ItemProcessor": {"StartAt": "T", "States": {"T": T}}, "Catch": [{"ErrorEquals": ["States.ALL"], "ResultPath": "$.err", "Next": "F"}], "Next": "F"}
inner = {"StartAt": "M", "States": {"M": M, "F": {"Type": "Pass", "End": True}}}
sib = {"StartAt": "Sib", "States": {"Sib": {"Type": "Task", "Resource": "arn:aws:rpcmessage:local::function:Sib", "End": True}}}
asl = {"StartAt": "P", "States": {"P": {"Type": "Parallel", "Branches": [inner, sib], "Next": "After"}, "After": {"Type": "Pass", "End": True}}}
h = Harness(); h.start(asl, {"sub": [{"id": 0}, {"id": 1}]})
while h.queue: h.deliver(0)
print([(r.subject, json.loads(r.body.decode())) for r in h.rpc_requests])
# fail item 1
i = [k for k, r in enumerate(h.rpc_requests) if r.subject == "T" and json.loads(r.body.decode())["id"] == 1][0]
h.reply(i, {"errorType": "E1", "errorMessage": "x"})
print("queue after failure", [json.loads(m.body.decode())["context"]["State"]["Name"] for m in h.queue])
# late reply from item 0
i = [k for k, r in enumerate(h.rpc_requests) if r.subject == "T"][0]
h.reply(i, {"done": 0})
while h.queue: h.deliver(0)
print("rpc left", [r.subject for r in h.rpc_requests], "pending", len(h.engine.task_dispatcher.pending_requests))
if h.rpc_requests: h.reply(0, {"sib": 1})
while h.queue: h.deliver(0)
print(h.status())
print([e["type"] for e in h.history()][-8:])
print([l for l in h.log if l[0] in ("cancel", "reply")])
