import sys, copy, random, json, traceback; sys.path.insert(0, "/tmp/r7/hout/H03")
from harness import *

class Gen:
    def __init__(self, rng):
        self.rng = rng; self.n = 0; self.maps = {}
    def name(self, p):
        self.n += 1; return "%s%d" % (p, self.n)
    def chain(self, depth):
        rng = self.rng
        k = rng.choice([1, 1, 2, 3])
        names = []; states = {}
        for i in range(k):
            kinds = ["Task", "Task", "Pass"]
            if depth > 0: kinds += ["Parallel", "Map", "Map"]
            kind = rng.choice(kinds)
            nm = self.name(kind[0])
            if kind == "Task":
                st = {"Type": "Task", "Resource": "arn:aws:rpcmessage:local::function:" + nm}
            elif kind == "Pass":
                st = {"Type": "Pass"}
            elif kind == "Parallel":
                nb = rng.choice([1, 2, 3])
                st = {"Type": "Parallel", "ResultPath": "$.res", "Branches": [self.chain(depth - 1) for _ in range(nb)]}
            else:
                mc = rng.choice([0, 0, 1, 2, 3, 4])
                st = {"Type": "Map", "ItemsPath": "$.sub", "ResultPath": "$.res", "ItemProcessor": self.chain(depth - 1)}
                if mc or rng.random() < 0.3: st["MaxConcurrency"] = mc
                self.maps[nm] = mc
            names.append(nm); states[nm] = st
        for a, b in zip(names, names[1:]): states[a]["Next"] = b
        states[names[-1]]["End"] = True
        return {"StartAt": names[0], "States": states}

def items(rng, depth, prefix):
    if depth == 0: return []
    n = rng.choice([0, 1, 2, 3, 4])
    return [{"id": prefix + str(i), "sub": items(rng, depth - 1, prefix + str(i) + ".")} for i in range(n)]

def ref(chain, data, calls):
    nm = chain["StartAt"]
    while True:
        st = chain["States"][nm]
        t = st["Type"]
        if t == "Task":
            calls.append((nm, data.get("id")))
            data = copy.deepcopy(data); data["trace"] = data.get("trace", []) + [nm]
        elif t == "Parallel":
            res = [ref(b, copy.deepcopy(data), calls) for b in st["Branches"]]
            data = copy.deepcopy(data); data["res"] = res
        elif t == "Map":
            res = [ref(st["ItemProcessor"], copy.deepcopy(i), calls) for i in data["sub"]]
            data = copy.deepcopy(data); data["res"] = res
        if st.get("End"): return data
        nm = st["Next"]

def inflight(h, maps):
    evs = [json.loads(m.body.decode()) for m in h.queue]
    for r in h.rpc_requests:
        m = h.ed.unacknowledged_messages.get(r.correlation_id)
        if m: evs.append(json.loads(m.body.decode()))
    d = {}
    for e in evs:
        for b in (e["context"].get("State") or {}).get("Branch", []):
            if "Index" in b and b.get("Parent") in maps:
                d.setdefault((b["Parent"], b["ID"]), set()).add(b["Index"])
    return d

def one(seed):
    rng = random.Random(seed)
    g = Gen(rng)
    asl = g.chain(2)
    data = {"id": "r", "sub": items(rng, 3, "")}
    calls = []
    exp = ref(asl, copy.deepcopy(data), calls)
    h = Harness()
    h.start(asl, copy.deepcopy(data))
    got_calls = []
    def w(p, s):
        got_calls.append((s, p.get("id")))
        p = dict(p); p["trace"] = p.get("trace", []) + [s]; return p
    steps = 0
    viol = None
    while steps < 20000:
        steps += 1
        ch = []
        if h.queue: ch.append("ev")
        if h.rpc_requests: ch.append("rpc")
        if not ch: break
        c = rng.choice(ch)
        if c == "ev": h.deliver(rng.randrange(len(h.queue)))
        else:
            i = rng.randrange(len(h.rpc_requests)); r = h.rpc_requests[i]
            h.reply(i, w(json.loads(r.body.decode()), r.subject))
        for (mn, mid), idx in inflight(h, g.maps).items():
            c_ = g.maps[mn]
            if c_ and len(idx) > c_:
                viol = "inflight %s %s > %d" % (mn, sorted(idx), c_)
    ends = h.end_notifications()
    problems = []
    if viol: problems.append(viol)
    if len(ends) != 1: problems.append("ends=%d" % len(ends))
    elif ends[0]["status"] != "SUCCEEDED": problems.append("status %s %s %s" % (ends[0]["status"], ends[0].get("error"), ends[0].get("cause")))
    elif json.loads(ends[0]["output"]) != exp: problems.append("output differs")
    if sorted(map(str, got_calls)) != sorted(map(str, calls)): problems.append("calls differ got %d exp %d" % (len(got_calls), len(calls)))
    if 0 and h.ed.unacknowledged_messages: problems.append("unacked %d" % len(h.ed.unacknowledged_messages))
    if h.engine.branch_metadata: problems.append("branch_metadata left")
    return problems, asl, data

if __name__ == "__main__":
    a, b = int(sys.argv[1]), int(sys.argv[2])
    bad = 0
    for seed in range(a, b):
        try:
            p, asl, data = one(seed)
        except Exception as e:
            p, asl, data = ["EXC " + traceback.format_exc()[-600:]], None, None
        if p:
            bad += 1
            print(seed, [x[:150] for x in p[:3]])
    print("done", bad)
