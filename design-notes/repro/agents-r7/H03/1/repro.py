import sys, os, json, heapq, itertools, tempfile, logging, types, uuid, shutil

sys.path.insert(0, os.getcwd())
for _name in ("pika", "redis", "pottery"):      # not installed: stub them
    try:
        __import__(_name)
    except Exception:
        sys.modules[_name] = types.ModuleType(_name)
os.environ["LOG_LEVEL"] = "CRITICAL"

from asl_workflow_engine import event_dispatcher as ed_mod
from asl_workflow_engine.state_engine import StateEngine

logging.disable(logging.CRITICAL)


class FakeMessage(object):
    """Stand-in for the AMQP Message class (broker stub)."""
    def __init__(self, body="", properties=None, content_type=None, subject=None,
                 reply_to=None, correlation_id=None, expiration=None,
                 mandatory=False, message_id=None):
        self.body = body.encode("utf8") if isinstance(body, str) else body
        self.properties = properties or {}
        self.subject = subject
        self.reply_to = reply_to
        self.correlation_id = correlation_id
        self.message_id = message_id
        self.redelivered = False

    def acknowledge(self, multiple=False):
        pass


ed_mod.Message = FakeMessage   # task_dispatcher imports Message from here


class Broker(object):
    """
    In-memory broker + timer stub driving the REAL StateEngine and the REAL
    TaskDispatcher. Published state events are queued (self.queue) until the
    test delivers them, RPC requests to workers are collected in self.rpc,
    set_timeout() callbacks run on a virtual clock (self.now, milliseconds).
    """
    def __init__(self):
        self.tmp = tempfile.mkdtemp(prefix="h03_")
        config = {
            "state_engine": {"store_url": os.path.join(self.tmp, "ASL_store.json"),
                             "execution_ttl": 31536000},
            "event_queue": {"instance_id": "x", "orphaned_response_retention_ms": 0},
        }
        self.now = 0.0
        self.queue, self.rpc, self.rpc_times, self.timers = [], [], [], []
        self.cancelled, self.notifications = set(), []
        self.seq = itertools.count()
        self.unacknowledged_messages = {}
        self.engine = StateEngine(config)
        self.engine.event_dispatcher = self
        td = self.engine.task_dispatcher
        td.producer = self
        td.reply_to = types.SimpleNamespace(name="reply_to_queue")

    # --- EventDispatcher interface used by the engine --------------------
    def set_timeout(self, callback, delay):
        tid = next(self.seq)
        heapq.heappush(self.timers, (self.now + delay, tid, callback))
        return tid

    def clear_timeout(self, tid):
        self.cancelled.add(tid)

    def acknowledge(self, id):
        self.unacknowledged_messages.pop(id, None)

    def publish(self, item, threadsafe=False, use_shared_queue=False):
        self.queue.append(FakeMessage(json.dumps(item), message_id=str(uuid.uuid4())))

    def broadcast(self, subject, item, carrier_properties=None):
        self.notifications.append(json.loads(json.dumps(item))["detail"])

    # --- producer interface used by the TaskDispatcher --------------------
    def send(self, message, threadsafe=False):
        self.rpc.append(message)
        self.rpc_times.append(self.now)

    # --- test driver -------------------------------------------------------
    def start(self, asl, data):
        arn = "arn:aws:states:local:0123456789:stateMachine:sm"
        self.engine.asl_store[arn] = {
            "creationDate": 0, "definition": asl, "name": "sm",
            "roleArn": "arn:aws:iam::0123456789:role/r", "stateMachineArn": arn,
            "updateDate": 0, "status": "ACTIVE", "type": "STANDARD"}
        self.publish({"data": data, "context": {"StateMachine": {"Id": arn}}})

    def run_due_timers(self, horizon=0):
        """Fire timers due within `horizon` ms (advancing the virtual clock)."""
        while True:
            live = sorted(t for t in self.timers if t[1] not in self.cancelled)
            if not live or live[0][0] - self.now > horizon:
                return
            self.timers.remove(live[0])
            self.now = max(self.now, live[0][0])
            live[0][2]()

    def deliver(self, i=0):
        m = self.queue.pop(i)
        self.unacknowledged_messages[m.message_id] = m
        self.engine.notify(json.loads(m.body.decode("utf8")), m.message_id, False)
        self.run_due_timers()

    def deliver_all(self):
        while self.queue:
            self.deliver(0)

    def payload(self, i):
        return json.loads(self.rpc[i].body.decode("utf8"))

    def reply(self, i, result):
        req = self.rpc.pop(i)
        self.engine.task_dispatcher.handle_rpcmessage_response(
            FakeMessage(json.dumps(result), correlation_id=req.correlation_id))
        self.run_due_timers()

    def ended(self):
        return [n for n in self.notifications if n["status"] != "RUNNING"]

    def history(self):
        for k in self.engine.execution_history.keys():
            return [e["type"] for e in self.engine.execution_history[k]]
        return []

    def close(self):
        shutil.rmtree(self.tmp, ignore_errors=True)


# ---------------------------------------------------------------------------
# C05: a branch / iteration whose output is JSON null never completes the join
# ---------------------------------------------------------------------------
failures = []

# (a) Map whose iterations invoke a function with the usual
#     "OutputPath": "$.Payload"; the function returns null for one item.
MAP_ASL = {
    "StartAt": "M",
    "States": {
        "M": {
            "Type": "Map",
            "ItemProcessor": {
                "StartAt": "T",
                "States": {
                    "T": {
                        "Type": "Task",
                        "Resource": "arn:aws:states:local::rpcmessage:invoke",
                        "Parameters": {
                            "FunctionName": "arn:aws:rpcmessage:local::function:f",
                            "Payload.$": "$"
                        },
                        "OutputPath": "$.Payload",
                        "End": True
                    }
                }
            },
            "Next": "After"
        },
        "After": {"Type": "Pass", "End": True}
    }
}


def run_map(null_for):
    b = Broker()
    b.start(MAP_ASL, [{"n": 1}, {"n": 2}, {"n": 3}])
    b.deliver_all()
    while b.rpc:
        n = b.payload(0)["n"]
        b.reply(0, None if n == null_for else n * 10)
        b.deliver_all()
    ended, hist, held = b.ended(), b.history(), len(b.unacknowledged_messages)
    b.close()
    return ended, hist, held


ended, hist, held = run_map(null_for=None)
assert len(ended) == 1 and ended[0]["output"] == "[10, 20, 30]", ended  # sanity

ended, hist, held = run_map(null_for=2)
if len(ended) != 1 or ended[0]["status"] != "SUCCEEDED" or json.loads(ended[0]["output"]) != [10, None, 30]:
    failures.append(
        "Map: all 3 iterations have finished (3 x TaskStateExited: %s) and every worker has "
        "replied, but the Map state never joined: terminal notifications=%r, "
        "'After' entered=%s, events still held unacknowledged=%d; expected SUCCEEDED with "
        "output [10, null, 30]" % (hist.count("TaskStateExited") == 3, ended,
                                   "PassStateEntered" in hist, held))

# (b) Parallel whose first branch selects a null field with OutputPath.
PAR_ASL = {
    "StartAt": "P",
    "States": {
        "P": {
            "Type": "Parallel",
            "Branches": [
                {"StartAt": "A", "States": {"A": {"Type": "Pass", "OutputPath": "$.x", "End": True}}},
                {"StartAt": "B", "States": {"B": {"Type": "Pass", "OutputPath": "$.y", "End": True}}}
            ],
            "End": True
        }
    }
}


def run_par(data):
    b = Broker()
    b.start(PAR_ASL, data)
    b.deliver_all()
    ended = b.ended()
    b.close()
    return ended


ended = run_par({"x": 1, "y": 2})
assert len(ended) == 1 and ended[0]["output"] == "[1, 2]", ended  # sanity
ended = run_par({"x": None, "y": 2})
if len(ended) != 1 or ended[0]["status"] != "SUCCEEDED" or json.loads(ended[0]["output"]) != [None, 2]:
    failures.append("Parallel: both branches reached their End state but the execution never "
                    "ended: terminal notifications=%r; expected SUCCEEDED with output [null, 2]" % (ended,))

if failures:
    print("DEFECT (C05, join completeness): a null branch/iteration output is mistaken for "
          "'no result yet'")
    for f in failures:
        print(" - " + f)
    sys.exit(1)
print("OK: Map and Parallel joins complete when a branch output is null")
sys.exit(0)
