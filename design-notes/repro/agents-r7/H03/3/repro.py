import sys, os, json, heapq, itertools, tempfile, logging, types, uuid, shutil

sys.path.insert(0, os.getcwd())
for _name in ("pika", "redis", "pottery"):      # not installed: stub them
    try:
        __import__(_name)
    except Exception:
        sys.modules[_name] = types.ModuleType(_name)
os.environ["LOG_LEVEL"] = "CRITICAL"

from asl_workflow_engine import event_dispatcher as ed_mod
from asl_workflow_engine.state_engine import StateEngine

logging.disable(logging.CRITICAL)


class FakeMessage(object):
    """Stand-in for the AMQP Message class (broker stub)."""
    def __init__(self, body="", properties=None, content_type=None, subject=None,
                 reply_to=None, correlation_id=None, expiration=None,
                 mandatory=False, message_id=None):
        self.body = body.encode("utf8") if isinstance(body, str) else body
        self.properties = properties or {}
        self.subject = subject
        self.reply_to = reply_to
        self.correlation_id = correlation_id
        self.message_id = message_id
        self.redelivered = False

    def acknowledge(self, multiple=False):
        pass


ed_mod.Message = FakeMessage   # task_dispatcher imports Message from here


class Broker(object):
    """
    In-memory broker + timer stub driving the REAL StateEngine and the REAL
    TaskDispatcher. Published state events are queued (self.queue) until the
    test delivers them, RPC requests to workers are collected in self.rpc,
    set_timeout() callbacks run on a virtual clock (self.now, milliseconds).
    """
    def __init__(self):
        self.tmp = tempfile.mkdtemp(prefix="h03_")
        config = {
            "state_engine": {"store_url": os.path.join(self.tmp, "ASL_store.json"),
                             "execution_ttl": 31536000},
            "event_queue": {"instance_id": "x", "orphaned_response_retention_ms": 0},
        }
        self.now = 0.0
        self.queue, self.rpc, self.rpc_times, self.timers = [], [], [], []
        self.cancelled, self.notifications = set(), []
        self.seq = itertools.count()
        self.unacknowledged_messages = {}
        self.engine = StateEngine(config)
        self.engine.event_dispatcher = self
        td = self.engine.task_dispatcher
        td.producer = self
        td.reply_to = types.SimpleNamespace(name="reply_to_queue")

    # --- EventDispatcher interface used by the engine --------------------
    def set_timeout(self, callback, delay):
        tid = next(self.seq)
        heapq.heappush(self.timers, (self.now + delay, tid, callback))
        return tid

    def clear_timeout(self, tid):
        self.cancelled.add(tid)

    def acknowledge(self, id):
        self.unacknowledged_messages.pop(id, None)

    def publish(self, item, threadsafe=False, use_shared_queue=False):
        self.queue.append(FakeMessage(json.dumps(item), message_id=str(uuid.uuid4())))

    def broadcast(self, subject, item, carrier_properties=None):
        self.notifications.append(json.loads(json.dumps(item))["detail"])

    # --- producer interface used by the TaskDispatcher --------------------
    def send(self, message, threadsafe=False):
        self.rpc.append(message)
        self.rpc_times.append(self.now)

    # --- test driver -------------------------------------------------------
    def start(self, asl, data):
        arn = "arn:aws:states:local:0123456789:stateMachine:sm"
        self.engine.asl_store[arn] = {
            "creationDate": 0, "definition": asl, "name": "sm",
            "roleArn": "arn:aws:iam::0123456789:role/r", "stateMachineArn": arn,
            "updateDate": 0, "status": "ACTIVE", "type": "STANDARD"}
        self.publish({"data": data, "context": {"StateMachine": {"Id": arn}}})

    def run_due_timers(self, horizon=0):
        """Fire timers due within `horizon` ms (advancing the virtual clock)."""
        while True:
            live = sorted(t for t in self.timers if t[1] not in self.cancelled)
            if not live or live[0][0] - self.now > horizon:
                return
            self.timers.remove(live[0])
            self.now = max(self.now, live[0][0])
            live[0][2]()

    def deliver(self, i=0):
        m = self.queue.pop(i)
        self.unacknowledged_messages[m.message_id] = m
        self.engine.notify(json.loads(m.body.decode("utf8")), m.message_id, False)
        self.run_due_timers()

    def deliver_all(self):
        while self.queue:
            self.deliver(0)

    def payload(self, i):
        return json.loads(self.rpc[i].body.decode("utf8"))

    def reply(self, i, result):
        req = self.rpc.pop(i)
        self.engine.task_dispatcher.handle_rpcmessage_response(
            FakeMessage(json.dumps(result), correlation_id=req.correlation_id))
        self.run_due_timers()

    def ended(self):
        return [n for n in self.notifications if n["status"] != "RUNNING"]

    def history(self):
        for k in self.engine.execution_history.keys():
            return [e["type"] for e in self.engine.execution_history[k]]
        return []

    def close(self):
        shutil.rmtree(self.tmp, ignore_errors=True)


# ---------------------------------------------------------------------------
# C07 / C05: an error that WAS caught still fails the Map / Parallel state and
# the execution when the Error Output reaches the end of the branch
# ---------------------------------------------------------------------------
TASK = {
    "Type": "Task",
    "Resource": "arn:aws:rpcmessage:local::function:f",
    # default ResultPath "$": the input of "Handled" is the Error Output itself
    "Catch": [{"ErrorEquals": ["States.ALL"], "Next": "Handled"}],
    "End": True
}
ITERATOR = {"StartAt": "T", "States": {"T": TASK, "Handled": {"Type": "Pass", "End": True}}}

MAP_ASL = {
    "StartAt": "M",
    "States": {
        "M": {"Type": "Map", "ItemProcessor": ITERATOR, "Next": "After"},
        "After": {"Type": "Pass", "End": True}
    }
}
PAR_ASL = {
    "StartAt": "P",
    "States": {
        "P": {"Type": "Parallel",
              "Branches": [ITERATOR, {"StartAt": "B", "States": {"B": {"Type": "Pass", "End": True}}}],
              "Next": "After"},
        "After": {"Type": "Pass", "End": True}
    }
}
TOP_ASL = {"StartAt": "T", "States": {"T": TASK, "Handled": {"Type": "Pass", "End": True}}}


def run(asl, data):
    b = Broker()
    b.start(asl, data)
    for _ in range(50):
        b.deliver_all()
        if not b.rpc:
            break
        n = b.payload(0)["n"]
        if n == 2:
            b.reply(0, {"errorType": "Boom", "errorMessage": "bad item"})
        else:
            b.reply(0, {"n": n, "ok": True})
    ended, hist = b.ended(), b.history()
    b.close()
    assert len(ended) == 1, ended
    out = ended[0]["output"] and json.loads(ended[0]["output"])
    return ended[0]["status"], out, ended[0].get("error"), hist


def error_name(o):
    return o.get("Error") if isinstance(o, dict) else None


failures = []

status, out, error, hist = run(MAP_ASL, [{"n": 1}, {"n": 2}, {"n": 3}])
if not (status == "SUCCEEDED" and isinstance(out, list) and len(out) == 3
        and out[0] == {"n": 1, "ok": True} and error_name(out[1]) == "Boom" and out[2] == {"n": 3, "ok": True}):
    failures.append("Map: item 1's error Boom was caught inside the iteration (T -> Handled -> End), yet "
                    "status=%s error=%s output=%r, history tail %s; expected SUCCEEDED with the Error "
                    "Output at position 1 of the Map result" % (status, error, out, hist[-4:]))

status, out, error, hist = run(PAR_ASL, {"n": 2})
if not (status == "SUCCEEDED" and isinstance(out, list) and error_name(out[0]) == "Boom" and out[1] == {"n": 2}):
    failures.append("Parallel: branch 0 caught Boom and ended normally, yet status=%s error=%s output=%r; "
                    "expected SUCCEEDED with [Error Output, {n: 2}]" % (status, error, out))

status, out, error, hist = run(TOP_ASL, {"n": 2})
if not (status == "SUCCEEDED" and error_name(out) == "Boom"):
    failures.append("top level: Boom was caught and the fallback state ended the execution normally "
                    "(history tail %s), yet status=%s error=%s; expected SUCCEEDED with the Error Output "
                    "as the execution output" % (hist[-3:], status, error))

# sanity: an error nobody catches does fail the execution, a Fail state too
UNCAUGHT = {"StartAt": "M", "States": {"M": {"Type": "Map", "End": True, "ItemProcessor": {
    "StartAt": "T", "States": {"T": {"Type": "Task", "Resource": "arn:aws:rpcmessage:local::function:f", "End": True}}}}}}
status, out, error, hist = run(UNCAUGHT, [{"n": 1}, {"n": 2}])
assert status == "FAILED" and error == "Boom", (status, error)
FAIL = {"StartAt": "P", "States": {"P": {"Type": "Parallel", "End": True, "Branches": [
    {"StartAt": "F", "States": {"F": {"Type": "Fail", "Error": "Nope", "Cause": "c"}}}]}}}
status, out, error, hist = run(FAIL, {"n": 1})
assert status == "FAILED" and error == "Nope", (status, error)

if failures:
    print("DEFECT (C07 catch / C05 join): a caught error is raised again because any state output "
          "with an \"Error\" field is taken for a failure")
    for f in failures:
        print(" - " + f)
    sys.exit(1)
print("OK: a caught error whose Error Output reaches the end of a branch does not fail the join")
sys.exit(0)
