"""
Exploration harness: real StateEngine + real TaskDispatcher, fake broker / timers.
Run from asl-workflow-engine/py.
"""
import sys, os, json, heapq, itertools, tempfile, logging, types, random, uuid

sys.path.insert(0, os.getcwd())
for name in ("pika", "pika.exceptions", "pika.adapters", "pika.adapters.asyncio_connection", "redis", "pottery"):
    if name not in sys.modules:
        try:
            __import__(name)
        except Exception:
            sys.modules[name] = types.ModuleType(name)

os.environ.setdefault("LOG_LEVEL", "CRITICAL")

from asl_workflow_engine import state_engine as se_mod
from asl_workflow_engine import event_dispatcher as ed_mod
from asl_workflow_engine.state_engine import StateEngine

logging.disable(logging.CRITICAL)


class FakeMessage(object):
    def __init__(self, body="", properties=None, content_type=None, subject=None,
                 reply_to=None, correlation_id=None, expiration=None, mandatory=False,
                 message_id=None):
        self.body = body.encode("utf8") if isinstance(body, str) else body
        self.properties = properties or {}
        self.subject = subject
        self.reply_to = reply_to
        self.correlation_id = correlation_id
        self.expiration = expiration
        self.message_id = message_id
        self.redelivered = False
        self.acked = False

    def acknowledge(self, multiple=False):
        self.acked = True


ed_mod.Message = FakeMessage


class FakeProducer(object):
    def __init__(self, h):
        self.h = h

    def send(self, message, threadsafe=False):
        self.h.rpc_requests.append(message)
        self.h.log.append(("rpc", message.subject, message.correlation_id, self.h.now))

    def set_return_callback(self, cb):
        pass


class ReplyTo(object):
    name = "reply_to_queue"


class FakeED(object):
    def __init__(self, h, engine):
        self.h = h
        self.state_engine = engine
        engine.event_dispatcher = self
        self.unacknowledged_messages = {}

    def set_timeout(self, callback, delay):
        return self.h.add_timer(callback, delay)

    def clear_timeout(self, tid):
        self.h.timers_cancelled.add(tid)

    def acknowledge(self, id):
        m = self.unacknowledged_messages.pop(id, None)
        if m is not None:
            m.acknowledge()

    def publish(self, item, threadsafe=False, use_shared_queue=False):
        m = FakeMessage(json.dumps(item), message_id=str(uuid.uuid4()))
        self.h.queue.append(m)

    def broadcast(self, subject, item, carrier_properties=None):
        self.h.notifications.append(json.loads(json.dumps(item)))

    def dispatch(self, message):
        item = json.loads(message.body.decode("utf8"))
        self.unacknowledged_messages[message.message_id] = message
        self.state_engine.notify(item, message.message_id, message.redelivered)


class Harness(object):
    def __init__(self, store_url=None):
        self.tmp = tempfile.mkdtemp(prefix="h03_")
        config = {
            "state_engine": {
                "store_url": store_url or os.path.join(self.tmp, "ASL_store.json"),
                "execution_ttl": 31536000,
            },
            "event_queue": {"instance_id": "x", "orphaned_response_retention_ms": 0},
        }
        self.now = 0.0  # virtual ms
        self.queue = []          # published, undelivered events
        self.rpc_requests = []   # outstanding RPC requests at the "workers"
        self.timers = []         # (due, seq, id, callback)
        self.timers_cancelled = set()
        self.seq = itertools.count()
        self.notifications = []
        self.log = []
        self.engine = StateEngine(config)
        self.ed = FakeED(self, self.engine)
        td = self.engine.task_dispatcher
        td.producer = FakeProducer(self)
        td.reply_to = ReplyTo()
        oc = td.cancel_task
        def cancel_task(event_id, oc=oc):
            c = td.cancellers.get(event_id)
            self.log.append(("cancel", event_id[:6], c and c.get("TaskID", "")[:6]))
            return oc(event_id)
        td.cancel_task = cancel_task

    # timers ---------------------------------------------------------------
    def add_timer(self, callback, delay):
        tid = next(self.seq)
        heapq.heappush(self.timers, (self.now + delay, tid, callback))
        self.log.append(("timer", getattr(callback, "__name__", "?"), delay, self.now))
        return tid

    def due_timers(self):
        return [t for t in self.timers if t[1] not in self.timers_cancelled]

    def fire_next_timer(self, max_delay=None):
        while self.timers:
            due, tid, cb = heapq.heappop(self.timers)
            if tid in self.timers_cancelled:
                continue
            if max_delay is not None and due - self.now > max_delay:
                heapq.heappush(self.timers, (due, tid, cb))
                return False
            self.now = max(self.now, due)
            cb()
            return True
        return False

    def fire_zero_timers(self):
        fired = True
        while fired:
            fired = False
            for t in sorted(self.timers):
                if t[1] in self.timers_cancelled:
                    continue
                if t[0] <= self.now:
                    self.timers.remove(t)
                    heapq.heapify(self.timers)
                    t[2]()
                    fired = True
                    break

    # events ---------------------------------------------------------------
    def start(self, asl, data, name="exec1", sm_type="STANDARD"):
        arn = "arn:aws:states:local:0123456789:stateMachine:sm"
        self.engine.asl_store[arn] = {
            "creationDate": 0, "definition": asl, "name": "sm",
            "roleArn": "arn:aws:iam::0123456789:role/r", "stateMachineArn": arn,
            "updateDate": 0, "status": "ACTIVE", "type": sm_type,
        }
        self.exec_arn = "arn:aws:states:local:0123456789:execution:sm:" + name
        ctx = {"StateMachine": {"Id": arn}}
        self.ed.publish({"data": data, "context": ctx})

    def deliver(self, i=0):
        m = self.queue.pop(i)
        self.ed.dispatch(m)
        self.fire_zero_timers()

    def reply(self, i, result):
        req = self.rpc_requests.pop(i)
        m = FakeMessage(json.dumps(result), correlation_id=req.correlation_id)
        self.log.append(("reply", req.subject, req.correlation_id[:6], req.correlation_id in self.engine.task_dispatcher.pending_requests))
        self.engine.task_dispatcher.handle_rpcmessage_response(m)
        self.fire_zero_timers()

    def status(self):
        for n in reversed(self.notifications):
            st = n["detail"]["status"]
            if st != "RUNNING":
                return n["detail"]
        return None

    def end_notifications(self):
        return [n["detail"] for n in self.notifications if n["detail"]["status"] != "RUNNING"]

    def history(self):
        for k in self.engine.execution_history.keys():
            return list(self.engine.execution_history[k])
        return []

    def run(self, worker, rng=None, max_steps=10000, fire_timers=True):
        """
        worker(request_payload, subject, attempt_index) -> result JSON
        rng: random.Random for schedule choice (None = FIFO)
        """
        steps = 0
        while steps < max_steps:
            steps += 1
            choices = []
            if self.queue:
                choices.append("ev")
            if self.rpc_requests:
                choices.append("rpc")
            if not choices:
                if fire_timers and self.fire_next_timer(max_delay=10 * 60 * 1000):
                    continue
                break
            c = rng.choice(choices) if rng else choices[0]
            if c == "ev":
                i = rng.randrange(len(self.queue)) if rng else 0
                self.deliver(i)
            else:
                i = rng.randrange(len(self.rpc_requests)) if rng else 0
                req = self.rpc_requests[i]
                payload = json.loads(req.body.decode("utf8"))
                self.reply(i, worker(payload, req.subject))
        return steps
