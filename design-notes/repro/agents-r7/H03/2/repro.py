import sys, os, json, heapq, itertools, tempfile, logging, types, uuid, shutil

sys.path.insert(0, os.getcwd())
for _name in ("pika", "redis", "pottery"):      # not installed: stub them
    try:
        __import__(_name)
    except Exception:
        sys.modules[_name] = types.ModuleType(_name)
os.environ["LOG_LEVEL"] = "CRITICAL"

from asl_workflow_engine import event_dispatcher as ed_mod
from asl_workflow_engine.state_engine import StateEngine

logging.disable(logging.CRITICAL)


class FakeMessage(object):
    """Stand-in for the AMQP Message class (broker stub)."""
    def __init__(self, body="", properties=None, content_type=None, subject=None,
                 reply_to=None, correlation_id=None, expiration=None,
                 mandatory=False, message_id=None):
        self.body = body.encode("utf8") if isinstance(body, str) else body
        self.properties = properties or {}
        self.subject = subject
        self.reply_to = reply_to
        self.correlation_id = correlation_id
        self.message_id = message_id
        self.redelivered = False

    def acknowledge(self, multiple=False):
        pass


ed_mod.Message = FakeMessage   # task_dispatcher imports Message from here


class Broker(object):
    """
    In-memory broker + timer stub driving the REAL StateEngine and the REAL
    TaskDispatcher. Published state events are queued (self.queue) until the
    test delivers them, RPC requests to workers are collected in self.rpc,
    set_timeout() callbacks run on a virtual clock (self.now, milliseconds).
    """
    def __init__(self):
        self.tmp = tempfile.mkdtemp(prefix="h03_")
        config = {
            "state_engine": {"store_url": os.path.join(self.tmp, "ASL_store.json"),
                             "execution_ttl": 31536000},
            "event_queue": {"instance_id": "x", "orphaned_response_retention_ms": 0},
        }
        self.now = 0.0
        self.queue, self.rpc, self.rpc_times, self.timers = [], [], [], []
        self.cancelled, self.notifications = set(), []
        self.seq = itertools.count()
        self.unacknowledged_messages = {}
        self.engine = StateEngine(config)
        self.engine.event_dispatcher = self
        td = self.engine.task_dispatcher
        td.producer = self
        td.reply_to = types.SimpleNamespace(name="reply_to_queue")

    # --- EventDispatcher interface used by the engine --------------------
    def set_timeout(self, callback, delay):
        tid = next(self.seq)
        heapq.heappush(self.timers, (self.now + delay, tid, callback))
        return tid

    def clear_timeout(self, tid):
        self.cancelled.add(tid)

    def acknowledge(self, id):
        self.unacknowledged_messages.pop(id, None)

    def publish(self, item, threadsafe=False, use_shared_queue=False):
        self.queue.append(FakeMessage(json.dumps(item), message_id=str(uuid.uuid4())))

    def broadcast(self, subject, item, carrier_properties=None):
        self.notifications.append(json.loads(json.dumps(item))["detail"])

    # --- producer interface used by the TaskDispatcher --------------------
    def send(self, message, threadsafe=False):
        self.rpc.append(message)
        self.rpc_times.append(self.now)

    # --- test driver -------------------------------------------------------
    def start(self, asl, data):
        arn = "arn:aws:states:local:0123456789:stateMachine:sm"
        self.engine.asl_store[arn] = {
            "creationDate": 0, "definition": asl, "name": "sm",
            "roleArn": "arn:aws:iam::0123456789:role/r", "stateMachineArn": arn,
            "updateDate": 0, "status": "ACTIVE", "type": "STANDARD"}
        self.publish({"data": data, "context": {"StateMachine": {"Id": arn}}})

    def run_due_timers(self, horizon=0):
        """Fire timers due within `horizon` ms (advancing the virtual clock)."""
        while True:
            live = sorted(t for t in self.timers if t[1] not in self.cancelled)
            if not live or live[0][0] - self.now > horizon:
                return
            self.timers.remove(live[0])
            self.now = max(self.now, live[0][0])
            live[0][2]()

    def deliver(self, i=0):
        m = self.queue.pop(i)
        self.unacknowledged_messages[m.message_id] = m
        self.engine.notify(json.loads(m.body.decode("utf8")), m.message_id, False)
        self.run_due_timers()

    def deliver_all(self):
        while self.queue:
            self.deliver(0)

    def payload(self, i):
        return json.loads(self.rpc[i].body.decode("utf8"))

    def reply(self, i, result):
        req = self.rpc.pop(i)
        self.engine.task_dispatcher.handle_rpcmessage_response(
            FakeMessage(json.dumps(result), correlation_id=req.correlation_id))
        self.run_due_timers()

    def ended(self):
        return [n for n in self.notifications if n["status"] != "RUNNING"]

    def history(self):
        for k in self.engine.execution_history.keys():
            return [e["type"] for e in self.engine.execution_history[k]]
        return []

    def close(self):
        shutil.rmtree(self.tmp, ignore_errors=True)


# ---------------------------------------------------------------------------
# C07: retry attempts / back-off are counted per state, not per Retrier
# ---------------------------------------------------------------------------
def machine(retry, kind="Task"):
    task = {"Type": "Task", "Resource": "arn:aws:rpcmessage:local::function:f"}
    if kind == "Task":
        x = dict(task)
    elif kind == "Parallel":     # the retried state is a Parallel state with one branch
        x = {"Type": "Parallel", "OutputPath": "$[0]",
             "Branches": [{"StartAt": "T", "States": {"T": dict(task, End=True)}}]}
    else:                        # ... or a Map state with one item
        x = {"Type": "Map", "ItemsPath": "$.items", "OutputPath": "$[0]",
             "ItemProcessor": {"StartAt": "T", "States": {"T": dict(task, End=True)}}}
    x.update({"Retry": retry, "Next": "Done",
              "Catch": [{"ErrorEquals": ["States.ALL"], "ResultPath": "$.err", "Next": "Z"}]})
    return {"StartAt": "X",
            "States": {"X": x, "Done": {"Type": "Succeed"}, "Z": {"Type": "Pass", "End": True}}}


def run(retry, outcomes, kind="Task"):
    """
    The worker fails with the given error names in turn, then succeeds.
    Returns (seconds between consecutive RPC requests on the virtual clock,
    status, output).
    """
    b = Broker()
    b.start(machine(retry, kind), {"k": "v", "items": [1]})
    outcomes = list(outcomes)
    for _ in range(50):
        b.deliver_all()
        if b.rpc:
            if outcomes:
                b.reply(0, {"errorType": outcomes.pop(0), "errorMessage": "m"})
            else:
                b.reply(0, {"ok": True})
        elif not b.queue:
            if b.ended():
                break
            b.run_due_timers(horizon=3600 * 1000)   # wait out the retry interval
    ended = b.ended()
    waits = [(t1 - t0) / 1000 for t0, t1 in zip(b.rpc_times, b.rpc_times[1:])]
    b.close()
    assert len(ended) == 1, ended
    return waits, ended[0]["status"], ended[0]["output"] and json.loads(ended[0]["output"])


failures = []

# (1) The example of https://states-language.net/spec.html#retrying-after-error
#     ("Complex retry scenarios"), verbatim.
SPEC_RETRY = [
    {"ErrorEquals": ["ErrorA", "ErrorB"], "IntervalSeconds": 1, "BackoffRate": 2, "MaxAttempts": 2},
    {"ErrorEquals": ["ErrorC"], "IntervalSeconds": 5},
]
waits, status, output = run(SPEC_RETRY, ["ErrorA", "ErrorB", "ErrorC", "ErrorB"])
if waits != [1.0, 2.0, 5.0] or output.get("err", {}).get("Error") != "ErrorB":
    failures.append("spec example (ErrorA, ErrorB, ErrorC, ErrorB): waits between attempts were %r s, "
                    "expected [1, 2, 5] (the first retry of the ErrorC retrier must wait "
                    "IntervalSeconds=5, not 5 x 2^2)" % (waits,))

# (2) The second retrier is entitled to its own MaxAttempts.
TWO = [
    {"ErrorEquals": ["ErrorA"], "IntervalSeconds": 1, "MaxAttempts": 1},
    {"ErrorEquals": ["ErrorC"], "IntervalSeconds": 1, "MaxAttempts": 1},
]
waits, status, output = run(TWO, ["ErrorA", "ErrorC"])
if output != {"ok": True}:
    failures.append("retriers [ErrorA x1], [ErrorC x1] with outcomes ErrorA, ErrorC, success: the "
                    "ErrorC retrier was never used (waits %r), the error went to the catcher: %r; "
                    "expected one retry per retrier and then the task's result" % (waits, output))

# (3) ... and to its own back-off sequence, MaxAttempts times.
waits, status, output = run(SPEC_RETRY, ["ErrorA", "ErrorA"] + ["ErrorC"] * 4)
if waits != [1.0, 2.0, 5.0, 10.0, 20.0]:
    failures.append("outcomes ErrorA, ErrorA, ErrorC x4: waits were %r s, expected [1, 2, 5, 10, 20] "
                    "(ErrorC retrier: default MaxAttempts 3, IntervalSeconds 5, BackoffRate 2)" % (waits,))

# (4) the same when the retried state is a Parallel or a Map state
for kind in ("Parallel", "Map"):
    waits, status, output = run(SPEC_RETRY, ["ErrorA", "ErrorB", "ErrorC", "ErrorB"], kind)
    if waits != [1.0, 2.0, 5.0]:
        failures.append("%s state, spec example: waits were %r s, expected [1, 2, 5]" % (kind, waits))
    waits, status, output = run(TWO, ["ErrorA", "ErrorC"], kind)
    if output != {"ok": True}:
        failures.append("%s state, retriers [ErrorA x1], [ErrorC x1]: ErrorC was not retried, "
                        "output %r" % (kind, output))

# sanity: a single retrier behaves (also on the fixed code)
waits, status, output = run([{"ErrorEquals": ["States.ALL"], "IntervalSeconds": 2, "BackoffRate": 3, "MaxAttempts": 2}],
                            ["E", "E", "E"])
assert waits == [2.0, 6.0] and output["err"]["Error"] == "E", (waits, output)

if failures:
    print("DEFECT (C07, retry policy): one retry counter is shared by all the Retriers of a state")
    for f in failures:
        print(" - " + f)
    sys.exit(1)
print("OK: every Retrier has its own attempt count and back-off")
sys.exit(0)
