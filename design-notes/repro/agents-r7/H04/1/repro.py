"""Self-contained repro; run from asl-workflow-engine/py of the worktree."""
"""
Development harness (inlined into each repro): virtual clock + in-memory broker
driving the REAL StateEngine / TaskDispatcher / EventDispatcher / RestAPI.
"""
import sys, os, types, heapq, itertools, json, logging, collections
import time as _time
import datetime as _dt

os.environ.setdefault("TZ", "UTC")
_time.tzset()

# ---- stub pika (not installed) ------------------------------------------------
for name in ("pika", "pika.adapters", "pika.adapters.asyncio_connection",
             "pika.exceptions"):
    if name not in sys.modules:
        sys.modules[name] = types.ModuleType(name)
sys.modules["pika.adapters.asyncio_connection"].AsyncioConnection = object
sys.modules["pika"].adapters = sys.modules["pika.adapters"]
sys.modules["pika"].exceptions = sys.modules["pika.exceptions"]
sys.modules["pika"].BasicProperties = object

sys.path.insert(0, os.getcwd())


# ---- virtual clock --------------------------------------------------------------
class Clock:
    def __init__(self, start=1_900_000_000.0):
        self.now = start
        self.timers = []           # heap of (when, seq, id)
        self.live = {}             # id -> callback
        self.seq = itertools.count()
        self.fired = []            # (time, id)

    def time(self):
        return self.now

    def set_timeout(self, callback, delay_ms):
        tid = next(self.seq)
        when = self.now + max(0.0, float(delay_ms)) / 1000.0
        self.live[tid] = callback
        heapq.heappush(self.timers, (when, tid))
        return tid

    def clear_timeout(self, tid):
        self.live.pop(tid, None)


CLOCK = Clock()
_time.time = CLOCK.time          # every module does "import time; time.time()"


class VDateTime(_dt.datetime):
    @classmethod
    def now(cls, tz=None):
        return cls.fromtimestamp(CLOCK.now, tz)


import asl_workflow_engine.state_engine as se_mod
import asl_workflow_engine.task_dispatcher as td_mod
se_mod.datetime = VDateTime
td_mod.datetime = VDateTime

from asl_workflow_engine.state_engine import StateEngine
from asl_workflow_engine.event_dispatcher import EventDispatcher
import asl_workflow_engine.event_dispatcher as ed_mod

logging.disable(logging.CRITICAL)


# ---- in-memory broker -----------------------------------------------------------
class Broker:
    def __init__(self):
        self.queues = collections.defaultdict(collections.deque)
        self.listeners = {}
        self.topic = []            # (time, subject, body)
        self.sent = []             # (time, queue, message)
        self.dropped = []          # messages to queues nobody listens on
        self.acked = []
        self.hold = set()          # queues whose delivery is paused

    def send(self, message):
        q = message.subject
        body = message.body
        if isinstance(body, str):
            message.body = body.encode("utf8")
        self.sent.append((CLOCK.now, q, message))
        self.queues[q].append(message)

    def deliver_one(self):
        for q, dq in self.queues.items():
            if dq and q in self.listeners and q not in self.hold:
                m = dq.popleft()
                self.listeners[q](m)
                return True
        return False


class Producer:
    def __init__(self, broker, topic=False):
        self.broker, self.is_topic = broker, topic
        self.return_callback = None

    def set_return_callback(self, cb):
        self.return_callback = cb

    def send(self, message, threadsafe=False):
        if self.is_topic:
            self.broker.topic.append((CLOCK.now, message.subject, json.loads(message.body)))
            return
        self.broker.send(message)


class ReplyTo:
    def __init__(self, name):
        self.name = name


class World:
    def __init__(self, execution_ttl=86400, instance="i1", retention_ms=600000,
                 startup_age=10_000_000):
        self.broker = Broker()
        config = {
            "event_queue": {"queue_name": "asl_workflow_events",
                            "instance_id": instance,
                            "queue_implementation": "AMQP-0.9.1-asyncio",
                            "connection_url": "amqp://localhost:5672",
                            "orphaned_response_retention_ms": retention_ms},
            "notifier": {"topic": "asl_workflow_engine", "message_ttl": 0},
            "state_engine": {"store_url": os.path.join(
                os.path.dirname(os.path.abspath(__file__)), "_nonexistent_store.json"),
                "execution_ttl": execution_ttl},
            "rest_api": {"host": "0.0.0.0", "port": 4584, "region": "local"},
            "metrics": {"implementation": "None"},
        }
        self.config = config
        from asl_workflow_engine.store import SimpleStore
        self.engine = StateEngine(config)
        self.engine.asl_store = SimpleStore()
        self.ed = EventDispatcher(self.engine, config)
        self.Message = ed_mod.Message
        ed = self.ed
        ed.set_timeout = CLOCK.set_timeout
        ed.clear_timeout = CLOCK.clear_timeout
        ed.event_queue_producer = Producer(self.broker)
        ed.topic_producer = Producer(self.broker, topic=True)
        td = self.engine.task_dispatcher
        td.reply_to = ReplyTo(td.reply_to_queue_name)
        td.producer = Producer(self.broker)
        td.startup_time = CLOCK.now - startup_age / 1000.0
        self.broker.listeners[ed.queue_name] = ed.dispatch
        self.broker.listeners[ed.instance_queue_name] = ed.dispatch
        self.broker.listeners[td.reply_to_queue_name] = td.handle_rpcmessage_response
        self.workers = {}

    # -- helpers --
    def add_machine(self, name, definition, type="STANDARD"):
        arn = "arn:aws:states:local:0123456789:stateMachine:" + name
        self.engine.asl_store[arn] = {
            "creationDate": CLOCK.now, "definition": definition, "name": name,
            "roleArn": "arn:aws:iam::0123456789:role/r", "stateMachineArn": arn,
            "updateDate": CLOCK.now, "status": "ACTIVE", "type": type,
        }
        return arn

    def start(self, sm_arn, data, name="e1"):
        exe = sm_arn.replace(":stateMachine:", ":execution:") + ":" + name
        start_time = VDateTime.now(_dt.timezone.utc).astimezone().isoformat()
        ctx = {"Tracer": {},
               "Execution": {"Id": exe, "Input": data, "Name": name,
                             "RoleArn": "arn:aws:iam::0123456789:role/r",
                             "StartTime": start_time},
               "State": {"EnteredTime": start_time, "Name": ""},
               "StateMachine": {"Id": sm_arn, "Name": sm_arn.split(":")[-1]}}
        m = self.Message(json.dumps({"data": data, "context": ctx}),
                         content_type="application/json")
        m.subject = self.ed.queue_name
        import uuid
        m.message_id = str(uuid.uuid4())
        self.broker.send(m)
        return exe

    def add_worker(self, queue, fn):
        """fn(world, message) -> None; the worker replies itself via reply()."""
        self.broker.listeners[queue] = lambda m: fn(self, m)

    def reply(self, request, body, properties=None):
        m = self.Message(json.dumps(body), properties=dict(properties or {}),
                         content_type="application/json",
                         correlation_id=request.correlation_id)
        m.subject = request.reply_to
        self.broker.send(m)

    def pump(self):
        while self.broker.deliver_one():
            pass

    def run(self, until=None, max_steps=100000):
        """Deliver messages and fire timers in virtual-time order."""
        steps = 0
        while steps < max_steps:
            steps += 1
            self.pump()
            while CLOCK.timers and CLOCK.timers[0][1] not in CLOCK.live:
                heapq.heappop(CLOCK.timers)
            if not CLOCK.timers:
                break
            when, tid = CLOCK.timers[0]
            if until is not None and when > until:
                break
            heapq.heappop(CLOCK.timers)
            cb = CLOCK.live.pop(tid)
            CLOCK.now = max(CLOCK.now, when)
            CLOCK.fired.append((CLOCK.now, tid))
            cb()
        if until is not None:
            CLOCK.now = max(CLOCK.now, until)
        self.pump()

    def status(self, exe):
        d = self.engine.executions.get(exe)
        return dict(d) if d else None

    def history(self, exe):
        return [(h["type"]) for h in self.engine.execution_history.get(exe, [])]

    def notifications(self, exe=None):
        return [(t, b["detail"]["status"], b["detail"]) for (t, s, b) in self.broker.topic
                if exe is None or b["detail"]["executionArn"] == exe]
import datetime as _dt

# =============================================================================
# Scenario: RFC 3339 timestamps with more than six fractional-second digits
# =============================================================================
def iso(ts, frac, offset_minutes=0):
    """RFC 3339 text for the whole second `ts` + fraction text, in the given offset."""
    tz = _dt.timezone(_dt.timedelta(minutes=offset_minutes))
    base = _dt.datetime.fromtimestamp(int(ts), tz).strftime("%Y-%m-%dT%H:%M:%S")
    if offset_minutes == 0:
        off = "Z"
    else:
        sign = "+" if offset_minutes > 0 else "-"
        off = "%s%02d:%02d" % (sign, abs(offset_minutes) // 60, abs(offset_minutes) % 60)
    return base + frac + off


failures = []


def wait_case(label, field, frac, offset_minutes, frac_value):
    w = World()
    T0 = float(int(CLOCK.now)) + 1000.0
    CLOCK.now = T0
    target_text = iso(T0 + 100, frac, offset_minutes)
    target = T0 + 100 + frac_value
    if field == "Timestamp":
        wait = {"Type": "Wait", "Timestamp": target_text, "Next": "Done"}
        data = {}
    else:
        wait = {"Type": "Wait", "TimestampPath": "$.until", "Next": "Done"}
        data = {"until": target_text}
    asl = {"StartAt": "W", "States": {"W": wait, "Done": {"Type": "Pass", "End": True}}}
    arn = w.add_machine("wait_" + label, asl)
    exe = w.start(arn, data)
    w.run(until=T0 + 1000)
    exited = [h["timestamp"] for h in w.engine.execution_history[exe]
              if h["type"] == "WaitStateExited"]
    status = w.status(exe)["status"]
    if not exited:
        failures.append("%s: Wait until %s never completed (status %s)" % (label, target_text, status))
    elif exited[0] < target - 1e-6:
        failures.append("%s: Wait until %s (= T0+%.7f s) completed at T0+%.6f s, %.3f s EARLY"
                        % (label, target_text, target - T0, exited[0] - T0, target - exited[0]))
    elif exited[0] > target + 1e-3:
        failures.append("%s: Wait until %s completed late at T0+%.6f" % (label, target_text, exited[0] - T0))
    else:
        print("ok   %-28s %s -> exited at T0+%.6f" % (label, target_text, exited[0] - T0))


def choice_case(label, op, variable, value, expect):
    w = World()
    asl = {"StartAt": "C", "States": {
        "C": {"Type": "Choice", "Choices": [{"Variable": "$.t", op: value, "Next": "Yes"}],
              "Default": "No"},
        "Yes": {"Type": "Pass", "Result": "yes", "End": True},
        "No": {"Type": "Pass", "Result": "no", "End": True}}}
    arn = w.add_machine("choice_" + label, asl)
    exe = w.start(arn, {"t": variable})
    w.run()
    got = json.loads(w.status(exe)["output"] or "null")
    if got != expect:
        failures.append("%s: {%s %s %s} took branch %r, expected %r"
                        % (label, variable, op, value, got, expect))
    else:
        print("ok   %-28s %s %s %s -> %s" % (label, variable, op, value, got))


# control: six digits are handled, also with a non-zero minute offset
wait_case("6digits_Z", "Timestamp", ".250000", 0, 0.25)
wait_case("6digits_+05:30", "TimestampPath", ".250000", 330, 0.25)
# .NET "o" round-trip format: seven digits; Java/Go nanosecond format: nine digits
wait_case("7digits_Z", "Timestamp", ".2500000", 0, 0.25)
wait_case("9digits_-03:30_path", "TimestampPath", ".250000000", -210, 0.25)
wait_case("9digits_+05:45", "Timestamp", ".123456789", 345, 0.123456789)

choice_case("lt_6digits", "TimestampLessThan", "2024-05-01T12:00:00.100000Z",
            "2024-05-01T12:00:00.200000Z", "yes")
choice_case("lt_7digits", "TimestampLessThan", "2024-05-01T12:00:00.1000000Z",
            "2024-05-01T12:00:00.2000000Z", "yes")
choice_case("eq_9digits_offsets", "TimestampEquals", "2024-05-01T12:00:00.500000000Z",
            "2024-05-01T17:30:00.5+05:30", "yes")
choice_case("is_timestamp_7digits", "IsTimestamp", "2024-05-01T12:00:00.1234567Z", True, "yes")

if failures:
    print()
    print("DEFECT (C08): legal RFC 3339 timestamps with >6 fractional digits do not denote their instant:")
    for f in failures:
        print("  FAIL " + f)
    sys.exit(1)
print("all timestamps denote their true instant")
sys.exit(0)
