"""Self-contained repro; run from asl-workflow-engine/py of the worktree."""
"""
Development harness (inlined into each repro): virtual clock + in-memory broker
driving the REAL StateEngine / TaskDispatcher / EventDispatcher / RestAPI.
"""
import sys, os, types, heapq, itertools, json, logging, collections
import time as _time
import datetime as _dt

os.environ.setdefault("TZ", "UTC")
_time.tzset()

# ---- stub pika (not installed) ------------------------------------------------
for name in ("pika", "pika.adapters", "pika.adapters.asyncio_connection",
             "pika.exceptions"):
    if name not in sys.modules:
        sys.modules[name] = types.ModuleType(name)
sys.modules["pika.adapters.asyncio_connection"].AsyncioConnection = object
sys.modules["pika"].adapters = sys.modules["pika.adapters"]
sys.modules["pika"].exceptions = sys.modules["pika.exceptions"]
sys.modules["pika"].BasicProperties = object

sys.path.insert(0, os.getcwd())


# ---- virtual clock --------------------------------------------------------------
class Clock:
    def __init__(self, start=1_900_000_000.0):
        self.now = start
        self.timers = []           # heap of (when, seq, id)
        self.live = {}             # id -> callback
        self.seq = itertools.count()
        self.fired = []            # (time, id)

    def time(self):
        return self.now

    def set_timeout(self, callback, delay_ms):
        tid = next(self.seq)
        when = self.now + max(0.0, float(delay_ms)) / 1000.0
        self.live[tid] = callback
        heapq.heappush(self.timers, (when, tid))
        return tid

    def clear_timeout(self, tid):
        self.live.pop(tid, None)


CLOCK = Clock()
_time.time = CLOCK.time          # every module does "import time; time.time()"


class VDateTime(_dt.datetime):
    @classmethod
    def now(cls, tz=None):
        return cls.fromtimestamp(CLOCK.now, tz)


import asl_workflow_engine.state_engine as se_mod
import asl_workflow_engine.task_dispatcher as td_mod
se_mod.datetime = VDateTime
td_mod.datetime = VDateTime

from asl_workflow_engine.state_engine import StateEngine
from asl_workflow_engine.event_dispatcher import EventDispatcher
import asl_workflow_engine.event_dispatcher as ed_mod

logging.disable(logging.CRITICAL)


# ---- in-memory broker -----------------------------------------------------------
class Broker:
    def __init__(self):
        self.queues = collections.defaultdict(collections.deque)
        self.listeners = {}
        self.topic = []            # (time, subject, body)
        self.sent = []             # (time, queue, message)
        self.dropped = []          # messages to queues nobody listens on
        self.acked = []
        self.hold = set()          # queues whose delivery is paused

    def send(self, message):
        q = message.subject
        body = message.body
        if isinstance(body, str):
            message.body = body.encode("utf8")
        self.sent.append((CLOCK.now, q, message))
        self.queues[q].append(message)

    def deliver_one(self):
        for q, dq in self.queues.items():
            if dq and q in self.listeners and q not in self.hold:
                m = dq.popleft()
                self.listeners[q](m)
                return True
        return False


class Producer:
    def __init__(self, broker, topic=False):
        self.broker, self.is_topic = broker, topic
        self.return_callback = None

    def set_return_callback(self, cb):
        self.return_callback = cb

    def send(self, message, threadsafe=False):
        if self.is_topic:
            self.broker.topic.append((CLOCK.now, message.subject, json.loads(message.body)))
            return
        self.broker.send(message)


class ReplyTo:
    def __init__(self, name):
        self.name = name


class World:
    def __init__(self, execution_ttl=86400, instance="i1", retention_ms=600000,
                 startup_age=10_000_000):
        self.broker = Broker()
        config = {
            "event_queue": {"queue_name": "asl_workflow_events",
                            "instance_id": instance,
                            "queue_implementation": "AMQP-0.9.1-asyncio",
                            "connection_url": "amqp://localhost:5672",
                            "orphaned_response_retention_ms": retention_ms},
            "notifier": {"topic": "asl_workflow_engine", "message_ttl": 0},
            "state_engine": {"store_url": os.path.join(
                os.path.dirname(os.path.abspath(__file__)), "_nonexistent_store.json"),
                "execution_ttl": execution_ttl},
            "rest_api": {"host": "0.0.0.0", "port": 4584, "region": "local"},
            "metrics": {"implementation": "None"},
        }
        self.config = config
        from asl_workflow_engine.store import SimpleStore
        self.engine = StateEngine(config)
        self.engine.asl_store = SimpleStore()
        self.ed = EventDispatcher(self.engine, config)
        self.Message = ed_mod.Message
        ed = self.ed
        ed.set_timeout = CLOCK.set_timeout
        ed.clear_timeout = CLOCK.clear_timeout
        ed.event_queue_producer = Producer(self.broker)
        ed.topic_producer = Producer(self.broker, topic=True)
        td = self.engine.task_dispatcher
        td.reply_to = ReplyTo(td.reply_to_queue_name)
        td.producer = Producer(self.broker)
        td.startup_time = CLOCK.now - startup_age / 1000.0
        self.broker.listeners[ed.queue_name] = ed.dispatch
        self.broker.listeners[ed.instance_queue_name] = ed.dispatch
        self.broker.listeners[td.reply_to_queue_name] = td.handle_rpcmessage_response
        self.workers = {}

    # -- helpers --
    def add_machine(self, name, definition, type="STANDARD"):
        arn = "arn:aws:states:local:0123456789:stateMachine:" + name
        self.engine.asl_store[arn] = {
            "creationDate": CLOCK.now, "definition": definition, "name": name,
            "roleArn": "arn:aws:iam::0123456789:role/r", "stateMachineArn": arn,
            "updateDate": CLOCK.now, "status": "ACTIVE", "type": type,
        }
        return arn

    def start(self, sm_arn, data, name="e1"):
        exe = sm_arn.replace(":stateMachine:", ":execution:") + ":" + name
        start_time = VDateTime.now(_dt.timezone.utc).astimezone().isoformat()
        ctx = {"Tracer": {},
               "Execution": {"Id": exe, "Input": data, "Name": name,
                             "RoleArn": "arn:aws:iam::0123456789:role/r",
                             "StartTime": start_time},
               "State": {"EnteredTime": start_time, "Name": ""},
               "StateMachine": {"Id": sm_arn, "Name": sm_arn.split(":")[-1]}}
        m = self.Message(json.dumps({"data": data, "context": ctx}),
                         content_type="application/json")
        m.subject = self.ed.queue_name
        import uuid
        m.message_id = str(uuid.uuid4())
        self.broker.send(m)
        return exe

    def add_worker(self, queue, fn):
        """fn(world, message) -> None; the worker replies itself via reply()."""
        self.broker.listeners[queue] = lambda m: fn(self, m)

    def reply(self, request, body, properties=None):
        m = self.Message(json.dumps(body), properties=dict(properties or {}),
                         content_type="application/json",
                         correlation_id=request.correlation_id)
        m.subject = request.reply_to
        self.broker.send(m)

    def pump(self):
        while self.broker.deliver_one():
            pass

    def run(self, until=None, max_steps=100000):
        """Deliver messages and fire timers in virtual-time order."""
        steps = 0
        while steps < max_steps:
            steps += 1
            self.pump()
            while CLOCK.timers and CLOCK.timers[0][1] not in CLOCK.live:
                heapq.heappop(CLOCK.timers)
            if not CLOCK.timers:
                break
            when, tid = CLOCK.timers[0]
            if until is not None and when > until:
                break
            heapq.heappop(CLOCK.timers)
            cb = CLOCK.live.pop(tid)
            CLOCK.now = max(CLOCK.now, when)
            CLOCK.fired.append((CLOCK.now, tid))
            cb()
        if until is not None:
            CLOCK.now = max(CLOCK.now, until)
        self.pump()

    def status(self, exe):
        d = self.engine.executions.get(exe)
        return dict(d) if d else None

    def history(self, exe):
        return [(h["type"]) for h in self.engine.execution_history.get(exe, [])]

    def notifications(self, exe=None):
        return [(t, b["detail"]["status"], b["detail"]) for (t, s, b) in self.broker.topic
                if exe is None or b["detail"]["executionArn"] == exe]
import datetime as _dt
import asyncio

# =============================================================================
# Scenario: SendTaskFailure without the (optional) "cause" parameter
# =============================================================================
from asl_workflow_engine.rest_api_asyncio import RestAPI

failures = []


def api_call(w, action, params):
    app = RestAPI(w.engine, w.ed, w.config).create_app()

    async def call():
        r = await app.test_client().post("/", data=json.dumps(params), headers={
            "Content-Type": "application/x-amz-json-1.0",
            "x-amz-target": "AWSStepFunctions." + action})
        return r.status_code, (await r.get_data()).decode()
    return asyncio.run(call())


def case(label, extra_params, expect_error):
    w = World(); T0 = CLOCK.now
    asl = {"StartAt": "T", "States": {
        "T": {"Type": "Task",
              "Resource": "arn:aws:states:local::rpcmessage:invoke.waitForTaskToken",
              "Parameters": {"FunctionName": "arn:aws:rpcmessage:local::function:worker",
                             "Payload": {"token.$": "$$.Task.Token"}},
              "TimeoutSeconds": 600,
              "Catch": [{"ErrorEquals": ["States.Timeout"], "ResultPath": "$.caught", "Next": "TimedOut"},
                        {"ErrorEquals": ["States.ALL"], "ResultPath": "$.caught", "Next": "Handled"}],
              "End": True},
        "Handled": {"Type": "Pass", "End": True},
        "TimedOut": {"Type": "Pass", "Result": "the callback never completed the task", "End": True}}}
    arn = w.add_machine("cb", asl)
    tokens = []

    def worker(world, m):
        tokens.append(json.loads(m.body)["token"])
        world.reply(m, {"accepted": True})       # the ordinary RPC reply, ignored
    w.add_worker("worker", worker)
    exe = w.start(arn, {})
    w.run(until=T0 + 5)
    params = dict({"taskToken": tokens[0]}, **extra_params)
    code, body = api_call(w, "SendTaskFailure", params)
    w.run(until=T0 + 5000)
    ends = [(round(t - T0, 3), s, d) for (t, s, d) in w.notifications(exe) if s != "RUNNING"]
    t, status, d = ends[-1] if ends else (None, "RUNNING", {})
    out = json.loads(d.get("output") or "null")
    caught = out.get("caught", {}) if isinstance(out, dict) else {}
    ok = code == 200 and t == 5.0 and status == "SUCCEEDED" and caught.get("Error") == expect_error
    text = "HTTP %s %r; execution %s at T0+%s s, output=%r" % (code, body.strip(), status, t, out)
    print(("ok   " if ok else "FAIL ") + label + ": " + text)
    if not ok:
        failures.append(label + ": " + text)


case("SendTaskFailure(taskToken, error, cause)  [control]", {"error": "MyError", "cause": "why"}, "MyError")
case("SendTaskFailure(taskToken, error)", {"error": "MyError"}, "MyError")
case("SendTaskFailure(taskToken)", {}, "States.TaskFailed")

if failures:
    print()
    print("DEFECT (C15): a valid SendTaskFailure that omits the optional 'cause' is answered with")
    print("500 InternalError and never reaches the task that presented the token (it hangs until its timeout):")
    for f in failures:
        print("  " + f)
    sys.exit(1)
print("SendTaskFailure fails exactly the launching task, with or without a cause")
sys.exit(0)
