"""
Exploration harness: an in-memory AMQP 0.9.1 broker behind a fake `pika`
module, so that the REAL Connection/Session/Producer/Consumer/Message classes,
EventDispatcher.start_asyncio, TaskDispatcher and StateEngine run unchanged.
"""
import sys, types, asyncio, json, urllib.parse, re, os, logging

# ----------------------------------------------------------------------------
# Broker
# ----------------------------------------------------------------------------
class BrokerError(Exception):
    pass

class ChannelClosedByBroker(Exception):
    def __init__(self, reply_code, reply_text):
        super().__init__(reply_code, reply_text)
        self.reply_code = reply_code
        self.reply_text = reply_text

class AMQPConnectionError(Exception):
    pass

class IncompatibleProtocolError(AMQPConnectionError):
    pass

class ConnectionClosedByBroker(AMQPConnectionError):
    pass

class NackError(Exception):
    pass

class BasicProperties(object):
    FIELDS = ("content_type", "content_encoding", "headers", "delivery_mode",
              "priority", "correlation_id", "reply_to", "expiration",
              "message_id", "timestamp", "type", "user_id", "app_id",
              "cluster_id")
    def __init__(self, **kw):
        for f in self.FIELDS:
            setattr(self, f, kw.pop(f, None))
        assert not kw, kw
        # what a real client library enforces when it encodes the frame
        for f in ("content_type", "content_encoding", "correlation_id",
                  "reply_to", "expiration", "message_id", "type", "user_id",
                  "app_id", "cluster_id"):
            v = getattr(self, f)
            if v is not None and not isinstance(v, str):
                raise TypeError("BasicProperties.%s must be a short string, got %r" % (f, v))
        if self.headers is not None and not isinstance(self.headers, dict):
            raise TypeError("headers must be a table")
    def __repr__(self):
        return "BasicProperties(%s)" % ", ".join(
            "%s=%r" % (f, getattr(self, f)) for f in self.FIELDS
            if getattr(self, f) is not None)

class _M(object):
    def __init__(self, **kw):
        self.__dict__.update(kw)
    def __repr__(self):
        return "_M(%r)" % self.__dict__

class Ack(_M): pass
class Nack(_M): pass

def topic_match(pattern, key):
    p = pattern.split(".")
    k = key.split(".")
    def m(i, j):
        if i == len(p):
            return j == len(k)
        if p[i] == "#":
            return any(m(i + 1, jj) for jj in range(j, len(k) + 1))
        if j == len(k):
            return False
        if p[i] == "*" or p[i] == k[j]:
            return m(i + 1, j + 1)
        return False
    return m(0, 0)

class Queue(object):
    def __init__(self, name, durable, exclusive, auto_delete, arguments, owner):
        self.name = name
        self.durable = durable
        self.exclusive = exclusive
        self.auto_delete = auto_delete
        self.arguments = arguments
        self.owner = owner
        self.messages = []      # ready: list of dict
        self.consumers = []     # list of Consumer records
        self.rr = 0
        self.log = []           # delivery log: (consumer identity, message dict)

class Broker(object):
    def __init__(self):
        self.exchanges = {"": "direct", "amq.direct": "direct",
                          "amq.topic": "topic", "amq.fanout": "fanout",
                          "amq.match": "headers"}
        self.exchange_props = {}
        self.queues = {}
        self.bindings = []      # (exchange, queue, key, arguments)
        self.publish_log = []   # every basic_publish: dict
        self.errors = []        # protocol errors raised by the broker
        self.consumer_errors = []   # exceptions that escaped a consumer callback
        self.connections = []
        self.anon = 0
        self.loop = None
        self._pump_scheduled = False
        self.hold = False       # when True nothing is delivered (manual schedules)

    # -- routing ------------------------------------------------------------
    def route(self, exchange, routing_key, properties):
        if exchange == "":
            return [routing_key] if routing_key in self.queues else []
        t = self.exchanges[exchange]
        out = []
        for (ex, q, key, args) in self.bindings:
            if ex != exchange or q not in self.queues:
                continue
            if t == "direct" and key == routing_key:
                out.append(q)
            elif t == "topic" and topic_match(key or "", routing_key):
                out.append(q)
            elif t == "fanout":
                out.append(q)
            elif t == "headers":
                hdrs = properties.headers or {}
                args = args or {}
                want = {k: v for k, v in args.items() if not k.startswith("x-")}
                if args.get("x-match", "all") == "all":
                    ok = all(hdrs.get(k) == v for k, v in want.items())
                else:
                    ok = any(hdrs.get(k) == v for k, v in want.items())
                if ok:
                    out.append(q)
        return list(dict.fromkeys(out))

    def schedule_pump(self):
        if self._pump_scheduled or self.hold:
            return
        self._pump_scheduled = True
        asyncio.get_event_loop().call_soon(self.pump)

    def pump(self):
        self._pump_scheduled = False
        if self.hold:
            return
        progress = True
        while progress:
            progress = False
            for q in list(self.queues.values()):
                if q.messages and q.consumers:
                    # highest priority consumers first, round robin among them
                    top = max(c.priority for c in q.consumers)
                    cands = [c for c in q.consumers if c.priority == top]
                    c = cands[q.rr % len(cands)]
                    q.rr += 1
                    msg = q.messages.pop(0)
                    try:
                        c.channel._deliver(c, q, msg)
                    except Exception as e:   # an exception out of a consumer callback
                        self.consumer_errors.append((c.identity, q.name, e))
                    progress = True
                    if self.step:
                        self.schedule_pump()
                        return
    step = True   # deliver one message per loop iteration

class ConsumerRec(object):
    def __init__(self, channel, queue, tag, cb, auto_ack, exclusive, arguments):
        self.channel = channel
        self.queue = queue
        self.tag = tag
        self.cb = cb
        self.auto_ack = auto_ack
        self.exclusive = exclusive
        self.arguments = arguments
        self.priority = (arguments or {}).get("x-priority", 0)
        self.identity = channel.connection.identity

class _Callbacks(object):
    def __init__(self, channel):
        self.channel = channel
    def remove(self, number, key, cb):
        if key == "_on_channel_close":
            try:
                self.channel._close_cbs.remove(cb)
            except ValueError:
                pass

class Channel(object):
    def __init__(self, connection, number):
        self.connection = connection
        self.channel_number = number
        self.is_open = True
        self._close_cbs = []
        self._return_cbs = []
        self.callbacks = _Callbacks(self)
        self.consumers = {}
        self.unacked = {}       # tag -> (queue name, msg)
        self.next_tag = 1
        self.prefetch = 0
        self.confirm_cb = None
        self.publish_seq = 0
        self.acks = []          # log of (delivery_tag, multiple)

    @property
    def broker(self):
        return self.connection.broker

    def _soon(self, cb, *a):
        asyncio.get_event_loop().call_soon(cb, *a)

    def _fail(self, code, text):
        self.broker.errors.append((self.connection.identity, code, text))
        exc = ChannelClosedByBroker(code, text)
        self._close(requeue=True)
        for cb in list(self._close_cbs):
            self._soon(cb, self, exc)

    def _close(self, requeue=True):
        if not self.is_open:
            return
        self.is_open = False
        b = self.broker
        for tag, c in list(self.consumers.items()):
            q = b.queues.get(c.queue)
            if q and c in q.consumers:
                q.consumers.remove(c)
        self.consumers = {}
        if requeue:
            for tag in sorted(self.unacked, reverse=True):
                qn, msg = self.unacked[tag]
                if qn in b.queues:
                    m = dict(msg); m["redelivered"] = True
                    b.queues[qn].messages.insert(0, m)
        self.unacked = {}
        b.schedule_pump()

    def add_on_close_callback(self, cb):
        self._close_cbs.append(cb)

    def add_on_return_callback(self, cb):
        self._return_cbs.append(cb)

    def close(self):
        self._close()

    def confirm_delivery(self, ack_nack_callback=None, callback=None):
        self.confirm_cb = ack_nack_callback

    def basic_qos(self, prefetch_size=0, prefetch_count=0, global_qos=False, callback=None):
        self.prefetch = prefetch_count
        self.connection.qos_log.append(prefetch_count)

    def exchange_declare(self, exchange, exchange_type="direct", passive=False,
                         durable=False, auto_delete=False, internal=False,
                         arguments=None, callback=None):
        b = self.broker
        if passive:
            if exchange not in b.exchanges:
                return self._fail(404, "NOT_FOUND - no exchange '%s' in vhost '/'" % exchange)
        else:
            props = (exchange_type, durable, auto_delete, internal)
            if exchange in b.exchanges:
                if exchange in b.exchange_props and b.exchange_props[exchange] != props:
                    return self._fail(406, "PRECONDITION_FAILED - inequivalent arg for exchange '%s'" % exchange)
            else:
                b.exchanges[exchange] = exchange_type
                b.exchange_props[exchange] = props
        if callback:
            self._soon(callback, _M(method=_M(NAME="Exchange.DeclareOk")))

    def queue_declare(self, queue, passive=False, durable=False, exclusive=False,
                      auto_delete=False, arguments=None, callback=None):
        b = self.broker
        if queue == "":
            b.anon += 1
            queue = "amq.gen-%d" % b.anon
        if queue in b.queues:
            q = b.queues[queue]
            if not passive:
                if (q.durable, q.exclusive, q.auto_delete, q.arguments) != (durable, exclusive, auto_delete, arguments):
                    return self._fail(406, "PRECONDITION_FAILED - inequivalent arg for queue '%s'" % queue)
            if q.exclusive and q.owner is not self.connection:
                return self._fail(405, "RESOURCE_LOCKED - cannot obtain exclusive access to locked queue '%s'" % queue)
        else:
            if passive:
                return self._fail(404, "NOT_FOUND - no queue '%s'" % queue)
            b.queues[queue] = Queue(queue, durable, exclusive, auto_delete, arguments, self.connection)
        self.last_queue = queue
        if callback:
            self._soon(callback, _M(method=_M(queue=queue, message_count=len(b.queues[queue].messages),
                                              consumer_count=len(b.queues[queue].consumers))))

    def queue_bind(self, queue, exchange, routing_key=None, arguments=None, callback=None):
        b = self.broker
        if queue == "":
            queue = self.last_queue
        if queue not in b.queues:
            return self._fail(404, "NOT_FOUND - no queue '%s'" % queue)
        if exchange not in b.exchanges:
            return self._fail(404, "NOT_FOUND - no exchange '%s'" % exchange)
        rec = (exchange, queue, routing_key if routing_key is not None else queue, arguments)
        if rec not in b.bindings:
            b.bindings.append(rec)
        if callback:
            self._soon(callback, _M(method=_M(NAME="Queue.BindOk")))

    def basic_consume(self, queue, on_message_callback, auto_ack=False,
                      exclusive=False, consumer_tag=None, arguments=None,
                      callback=None):
        b = self.broker
        if queue not in b.queues:
            return self._fail(404, "NOT_FOUND - no queue '%s'" % queue)
        q = b.queues[queue]
        if any(c.exclusive for c in q.consumers) or (exclusive and q.consumers):
            return self._fail(403, "ACCESS_REFUSED - queue '%s' in vhost '/' in exclusive use" % queue)
        tag = consumer_tag or "ctag%d.%d" % (self.channel_number, len(self.consumers) + 1)
        c = ConsumerRec(self, queue, tag, on_message_callback, auto_ack, exclusive, arguments)
        c.prefetch = self.prefetch
        self.consumers[tag] = c
        q.consumers.append(c)
        b.schedule_pump()
        if callback:
            self._soon(callback, _M(method=_M(consumer_tag=tag)))
        return tag

    def basic_publish(self, exchange, routing_key, body, properties=None, mandatory=False):
        b = self.broker
        if not self.is_open:
            raise Exception("channel closed")
        if isinstance(body, str):
            body = body.encode("utf-8")
        if not isinstance(routing_key, str):
            raise TypeError("routing_key must be str, got %r" % (routing_key,))
        properties = properties or BasicProperties()
        if exchange not in b.exchanges:
            return self._fail(404, "NOT_FOUND - no exchange '%s'" % exchange)
        targets = b.route(exchange, routing_key, properties)
        rec = {"exchange": exchange, "routing_key": routing_key, "body": body,
               "properties": properties, "mandatory": mandatory,
               "publisher": self.connection.identity, "queues": targets}
        b.publish_log.append(rec)
        self.publish_seq += 1
        if not targets and mandatory:
            for cb in self._return_cbs:
                self._soon(cb, self, _M(reply_code=312, reply_text="NO_ROUTE",
                                        exchange=exchange, routing_key=routing_key),
                           properties, body)
        for qn in targets:
            b.queues[qn].messages.append({"exchange": exchange, "routing_key": routing_key,
                                          "body": body, "properties": properties,
                                          "redelivered": False})
        if self.confirm_cb:
            self._soon(self.confirm_cb, _M(method=Ack(delivery_tag=self.publish_seq, multiple=False)))
        b.schedule_pump()

    def _deliver(self, c, q, msg):
        tag = self.next_tag
        self.next_tag += 1
        if not c.auto_ack:
            self.unacked[tag] = (q.name, msg)
        q.log.append((c.identity, msg, tag))
        method = _M(consumer_tag=c.tag, delivery_tag=tag, redelivered=msg["redelivered"],
                    exchange=msg["exchange"], routing_key=msg["routing_key"])
        conn = self.connection
        if conn.buffered:
            # the frame sits in the client's socket buffer until it is read
            conn.inbox.append((c, self, method, msg))
            conn._schedule_read()
        else:
            c.cb(self, method, msg["properties"], msg["body"])

    def basic_ack(self, delivery_tag=0, multiple=False):
        self.acks.append((delivery_tag, multiple))
        if multiple:
            for t in [t for t in self.unacked if delivery_tag == 0 or t <= delivery_tag]:
                del self.unacked[t]
            return
        if delivery_tag not in self.unacked:
            return self._fail(406, "PRECONDITION_FAILED - unknown delivery tag %d" % delivery_tag)
        del self.unacked[delivery_tag]

    def basic_recover(self, requeue=False, callback=None):
        pass

Channel.__module__ = "pika.channel"

class AsyncioConnection(object):
    broker = None      # set by install()
    counter = 0
    def __init__(self, parameters=None, on_open_callback=None,
                 on_open_error_callback=None, on_close_callback=None, **kw):
        AsyncioConnection.counter += 1
        self.identity = getattr(parameters, "identity", None) or "conn%d" % AsyncioConnection.counter
        self.parameters = parameters
        self.is_open = True
        self.channels = []
        self._close_cbs = []
        self.qos_log = []
        self.timers = []
        self.buffered = False     # True: deliveries are buffered client side
        self.inbox = []
        self.read_limit = None    # stop reading after this many deliveries
        self.reads = 0
        self._read_scheduled = False
        self.broker.connections.append(self)
        asyncio.get_event_loop().call_soon(on_open_callback, self)

    def add_on_open_error_callback(self, cb):
        pass

    def _schedule_read(self):
        if not self._read_scheduled:
            self._read_scheduled = True
            asyncio.get_event_loop().call_soon(self._read_one)

    def _read_one(self):
        self._read_scheduled = False
        if not self.is_open or not self.inbox:
            return
        if self.read_limit is not None and self.reads >= self.read_limit:
            return
        c, ch, method, msg = self.inbox.pop(0)
        self.reads += 1
        if self.inbox:
            self._schedule_read()
        try:
            c.cb(ch, method, msg["properties"], msg["body"])
        except Exception as e:
            self.broker.consumer_errors.append((c.identity, c.queue, e))

    def add_on_close_callback(self, cb):
        self._close_cbs.append(cb)

    def channel(self, channel_number=None, on_open_callback=None):
        ch = Channel(self, len(self.channels) + 1)
        self.channels.append(ch)
        if on_open_callback:
            asyncio.get_event_loop().call_soon(on_open_callback, ch)
        return ch

    def close(self):
        self.crash()

    def crash(self):
        """Drop the connection: everything unacknowledged is requeued."""
        if not self.is_open:
            return
        self.is_open = False
        self.inbox = []
        for h in self.timers:
            h.cancel()
        for ch in self.channels:
            ch._close(requeue=True)
        b = self.broker
        for name, q in list(b.queues.items()):
            if q.exclusive and q.owner is self:
                del b.queues[name]

    def _adapter_call_later(self, delay, cb):
        h = asyncio.get_event_loop().call_later(delay * TIME_SCALE, cb)
        self.timers.append(h)
        return h

    def _adapter_remove_timeout(self, h):
        h.cancel()

    def _adapter_add_callback_threadsafe(self, cb):
        asyncio.get_event_loop().call_soon_threadsafe(cb)

TIME_SCALE = 1.0

class URLParameters(object):
    def __init__(self, url):
        p = urllib.parse.urlparse(url)
        self.host = p.hostname
        self.port = p.port or 5672
        q = dict(urllib.parse.parse_qsl(p.query))
        self.connection_attempts = int(q.get("connection_attempts", 1))
        self.retry_delay = float(q.get("retry_delay", 2.0))
        self.identity = q.get("identity")

def install(broker):
    pika = types.ModuleType("pika")
    pika.__path__ = []
    pika.BasicProperties = BasicProperties
    pika.URLParameters = URLParameters
    compat = types.ModuleType("pika.compat"); compat.urlparse = urllib.parse.urlparse
    channel = types.ModuleType("pika.channel"); channel.Channel = Channel
    spec = types.ModuleType("pika.spec")
    spec.Basic = types.SimpleNamespace(Ack=Ack, Nack=Nack)
    spec.BasicProperties = BasicProperties
    exceptions = types.ModuleType("pika.exceptions")
    exceptions.ChannelClosedByBroker = ChannelClosedByBroker
    exceptions.AMQPConnectionError = AMQPConnectionError
    exceptions.IncompatibleProtocolError = IncompatibleProtocolError
    exceptions.ConnectionClosedByBroker = ConnectionClosedByBroker
    exceptions.NackError = NackError
    adapters = types.ModuleType("pika.adapters"); adapters.__path__ = []
    aconn = types.ModuleType("pika.adapters.asyncio_connection")
    aconn.AsyncioConnection = AsyncioConnection
    AsyncioConnection.broker = broker
    pika.compat = compat; pika.channel = channel; pika.spec = spec
    pika.exceptions = exceptions; pika.adapters = adapters
    adapters.asyncio_connection = aconn
    for n, m in (("pika", pika), ("pika.compat", compat), ("pika.channel", channel),
                 ("pika.spec", spec), ("pika.exceptions", exceptions),
                 ("pika.adapters", adapters), ("pika.adapters.asyncio_connection", aconn)):
        sys.modules[n] = m
    return pika

# ----------------------------------------------------------------------------
# Engine construction
# ----------------------------------------------------------------------------
def make_config(instance_id, store_url, queue_type="classic", ttl=86400):
    return {
        "event_queue": {
            "queue_name": "asl_workflow_events",
            "instance_id": instance_id,
            "queue_type": queue_type,
            "queue_implementation": "AMQP-0.9.1-asyncio",
            "connection_url": "amqp://localhost:5672?identity=" + instance_id,
            "shared_event_consumer_capacity": 1000,
            "instance_event_consumer_capacity": 1000,
            "reply_to_consumer_capacity": 100,
            "orphaned_response_retention_ms": 600000,
        },
        "notifier": {
            "topic": '{"node": {"x-declare": {"exchange": "asl_workflow_engine", "exchange-type": "topic", "durable": true}}}',
            "message_ttl": 0,
        },
        "state_engine": {"store_url": store_url, "execution_ttl": ttl},
        "rest_api": {"host": "0.0.0.0", "port": 4584, "region": "local"},
        "tracer": {"implementation": "None"},
        "metrics": {"implementation": "None"},
    }

class Engine(object):
    def __init__(self, instance_id, store_url, queue_type="classic", rest=True, ttl=86400):
        from asl_workflow_engine.state_engine import StateEngine
        from asl_workflow_engine.event_dispatcher import EventDispatcher
        self.config = make_config(instance_id, store_url, queue_type, ttl)
        self.state_engine = StateEngine(self.config)
        self.event_dispatcher = EventDispatcher(self.state_engine, self.config)
        self.task = None
        self.app = None
        if rest:
            from asl_workflow_engine.rest_api_asyncio import RestAPI
            self.rest_api = RestAPI(self.state_engine, self.event_dispatcher, self.config)
            self.app = self.rest_api.create_app()

    async def start(self):
        self.task = asyncio.get_event_loop().create_task(self.event_dispatcher.start_asyncio())
        for i in range(200):
            await asyncio.sleep(0)
            if hasattr(self.event_dispatcher, "topic_producer") and \
               self.connection() is not None and self.connection().timers:
                break
        await asyncio.sleep(0)

    def connection(self):
        ident = self.config["event_queue"]["instance_id"]
        for c in reversed(AsyncioConnection.broker.connections):
            if c.identity == ident:
                return c
        return None

    def crash(self):
        self.connection().crash()
        self.task.cancel()

    async def api(self, action, params):
        client = self.app.test_client()
        resp = await client.post("/", data=json.dumps(params), headers={
            "X-Amz-Target": "AWSStepFunctions." + action,
            "Content-Type": "application/x-amz-json-1.0"})
        body = await resp.get_data()
        try:
            return resp.status_code, json.loads(body)
        except ValueError:
            return resp.status_code, body

async def settle(n=50):
    for i in range(n):
        await asyncio.sleep(0)

def quiet():
    logging.disable(logging.CRITICAL)

# ============================================================================
# Scenario (supplement to repro.py: same root cause on the per-instance queue)
# ============================================================================
"""
The AMQP redelivered flag says "this message was handed to a consumer before",
not "the consumer processed it".  With a prefetch of 1000 an engine that dies
has many events in its socket buffer that it never looked at; all of them come
back flagged redelivered.  A Task event among them is taken for one whose
request was already sent (task_dispatcher.execute_task: `if not redelivered:`),
so the request is never sent at all.
Not covered by fix.diff (which only deals with start events): informational.
"""
ASL = {"StartAt": "A", "States": {"A": {"Type": "Pass", "Next": "T"}, "T": {
    "Type": "Task", "Resource": "arn:aws:rpcmessage:local::function:worker", "End": True}}}
SM = "arn:aws:states:local:0123456789:stateMachine:sm"

async def main():
    quiet()
    broker = Broker(); install(broker); broker.step = False
    tmp = tempfile.mkdtemp(prefix="tmp-h06-2b-", dir=os.path.dirname(os.path.abspath(__file__)))
    store = os.path.join(tmp, "ASL_store.json")
    a = Engine("A", store)
    await a.start()
    await a.api("CreateStateMachine", {"name": "sm", "definition": json.dumps(ASL), "roleArn": "arn:aws:iam::0123456789:role/r"})
    cl = AsyncioConnection(parameters=URLParameters("amqp://h?identity=client"), on_open_callback=lambda c: None)
    ch = cl.channel()
    notes = []
    ch.queue_declare("sub"); ch.queue_bind("sub", "asl_workflow_engine", "#")
    ch.basic_consume("sub", lambda c, m, p, b: notes.append(json.loads(b)["detail"]), auto_ack=True)
    requests = []
    def work(c, m, p, b):
        requests.append(json.loads(b)); c.basic_ack(m.delivery_tag)
        c.basic_publish("", p.reply_to, json.dumps({"ok": json.loads(b)}), BasicProperties(correlation_id=p.correlation_id))
    ch.queue_declare("worker"); ch.basic_consume("worker", work)

    conn = a.connection(); conn.buffered = True; conn.read_limit = 0
    for n in ("e1", "e2"):
        await a.api("StartExecution", {"stateMachineArn": SM, "input": json.dumps({"n": n}), "name": n})
    await settle(100)
    # the engine reads: start e1, start e2, Task event of e1 - and dies before reading the Task event of e2
    conn.read_limit = 3; conn._schedule_read()
    await settle(100)
    print("unread in the engine's buffer when it dies:", [m["routing_key"] for c_, ch_, me, m in conn.inbox])
    a.crash()
    a2 = Engine("A", store)         # the same instance restarts
    await a2.start()
    await asyncio.sleep(1.3)         # orphaned reply of e1 is matched by the 1 s orphan handler
    await settle(200)
    print("task requests ever published:", requests)
    print("notifications:", [(d["name"], d["status"]) for d in notes])
    pending = list(a2.state_engine.task_dispatcher.pending_requests)
    print("still pending after the restart:", pending)
    shutil.rmtree(tmp, ignore_errors=True)
    done = sorted(d["name"] for d in notes if d["status"] == "SUCCEEDED")
    return [] if done == ["e1", "e2"] else ["e2's Task was never invoked after the restart (requests: %r); it waits until its timeout" % requests]

if __name__ == "__main__":
    import tempfile, shutil
    sys.path.insert(0, os.getcwd())
    problems = asyncio.new_event_loop().run_until_complete(main())
    for p in problems:
        print("DEFECT: " + p)
    sys.exit(1 if problems else 0)
