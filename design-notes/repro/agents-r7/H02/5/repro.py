# ---------------------------------------------------------------------------
# Minimal in-memory AMQP broker + messaging module stub, driving the REAL
# EventDispatcher / StateEngine / TaskDispatcher of asl_workflow_engine.
# Only the broker, the timers and the worker processes are simulated.
# ---------------------------------------------------------------------------
import sys, os, types, json, tempfile, itertools, logging, collections

sys.path.insert(0, os.getcwd())
os.environ.setdefault("LOG_LEVEL", "CRITICAL")


class Broker(object):
    """Queues survive an engine crash; unacked deliveries are requeued."""
    def __init__(self):
        self.queues = collections.OrderedDict()   # name -> list of stored msgs
        self.log = []          # ("publish"|"deliver"|"ack"|"broadcast", ...)
        self.notifications = []  # terminal / status notifications (topic)
        self.tag = itertools.count(1)
        self.crash_after = None  # callable(op) -> bool : raise Crash after op

    def queue(self, name):
        return self.queues.setdefault(name, [])

    def record(self, *op):
        self.log.append(op)
        if self.crash_after and self.crash_after(op):
            self.crash_after = None
            raise Crash(op)


class Crash(BaseException):
    """Simulated death of the engine process (not an Exception on purpose)."""


BROKER = Broker()


class Message(object):
    def __init__(self, body="", properties=None, content_type=None,
                 content_encoding=None, redelivered=False, durable=True,
                 mandatory=False, priority=None, correlation_id=None,
                 reply_to=None, expiration=None, message_id=None,
                 timestamp=None, type=None, user_id=None, app_id=None,
                 cluster_id=None, subject=None):
        self.body = body
        self.properties = {} if properties is None else properties
        self.content_type = content_type
        self.redelivered = redelivered
        self.mandatory = mandatory
        self.correlation_id = correlation_id
        self.reply_to = reply_to
        self.expiration = expiration
        self.message_id = message_id
        if subject:
            self.subject = subject

    @property
    def subject(self):
        return self.properties.get("x-amqp-0-9-1.subject")

    @subject.setter
    def subject(self, subject):
        if subject:
            self.properties["x-amqp-0-9-1.subject"] = subject

    def __repr__(self):
        return "Message(id=%r, corr=%r, body=%r)" % (
            self.message_id, self.correlation_id, self.body)

    def acknowledge(self, multiple=True, threadsafe=False):
        session = getattr(self, "_session", None)
        if session is None:
            return
        if not session.alive:
            return
        stored = session.unacked.pop(self._delivery_tag, None)
        BROKER.record("ack", self._queue, self.message_id or self.correlation_id,
                      "ok" if stored is not None else "DUPLICATE")


class Producer(object):
    def __init__(self, session, target):
        self.session = session
        self.target = target
        self.name = ""
        self.return_callback = None

    def set_return_callback(self, cb):
        self.return_callback = cb

    def send(self, message, threadsafe=False):
        if self.target and self.target.startswith("{"):   # the topic exchange
            BROKER.notifications.append(json.loads(message.body))
            BROKER.record("broadcast", message.subject)
            return
        routing_key = message.subject or self.target
        body = message.body
        if isinstance(body, str):
            body = body.encode("utf8")
        stored = dict(body=body, properties=dict(message.properties),
                      correlation_id=message.correlation_id,
                      reply_to=message.reply_to, message_id=message.message_id,
                      redelivered=False)
        BROKER.queue(routing_key).append(stored)
        BROKER.record("publish", routing_key,
                      message.message_id or message.correlation_id)


class Consumer(object):
    def __init__(self, session, source):
        self.session = session
        self.name = source.split(";")[0].strip()
        self.capacity = 0
        BROKER.queue(self.name)

    def set_message_listener(self, listener):
        self.session.listeners[self.name] = listener


class Session(object):
    def __init__(self, connection):
        self.connection = connection
        self.listeners = {}
        self.unacked = {}     # delivery tag -> (queue name, stored)
        self.alive = True

    def producer(self, target=""):
        return Producer(self, target)

    def consumer(self, source=""):
        return Consumer(self, source)

    def deliver(self, queue_name):
        """Deliver the message at the head of the named queue."""
        stored = BROKER.queue(queue_name).pop(0)
        tag = next(BROKER.tag)
        self.unacked[tag] = (queue_name, stored)
        m = Message(stored["body"], properties=dict(stored["properties"]),
                    correlation_id=stored["correlation_id"],
                    reply_to=stored["reply_to"],
                    message_id=stored["message_id"],
                    redelivered=stored["redelivered"])
        m._session = self
        m._delivery_tag = tag
        m._queue = queue_name
        BROKER.record("deliver", queue_name,
                      m.message_id or m.correlation_id, stored["redelivered"])
        self.listeners[queue_name](m)


class Connection(object):
    current = None

    def __init__(self, url=""):
        self.timers = []        # [id, due_ms, callback]
        self.now = 0.0
        self.ids = itertools.count(1)
        self._session = None
        Connection.current = self

    def open(self, timeout=None):
        pass

    def close(self):
        pass

    def session(self, *a, **k):
        self._session = Session(self)
        return self._session

    def set_timeout(self, callback, delay):
        tid = next(self.ids)
        self.timers.append([tid, self.now + max(0, delay), callback])
        return tid

    def clear_timeout(self, timeout_id):
        self.timers = [t for t in self.timers if t[0] != timeout_id]

    def start(self):
        pass   # The harness drives the "event loop" explicitly.


fake = types.ModuleType("asl_workflow_engine.fake_messaging")
fake.Connection = Connection
fake.Message = Message
sys.modules["asl_workflow_engine.fake_messaging"] = fake

from asl_workflow_engine.state_engine import StateEngine
from asl_workflow_engine.event_dispatcher import EventDispatcher
import asl_workflow_engine.event_dispatcher as _ed

logging.disable(logging.CRITICAL)

TMP = tempfile.mkdtemp(prefix="h02-")
import atexit, shutil
atexit.register(shutil.rmtree, TMP, True)
INSTANCE = "inst-1"
SHARED_Q = "asl_workflow_events"
INSTANCE_Q = SHARED_Q + "-" + INSTANCE
REPLY_Q = "asl_workflow_reply_to-" + INSTANCE

CONFIG = {
    "event_queue": {
        "queue_name": SHARED_Q, "instance_id": INSTANCE,
        "queue_implementation": "fake", "connection_url": "amqp://localhost:5672",
        "orphaned_response_retention_ms": 600000,
    },
    "notifier": {"topic": '{"node": {"x-declare": {"exchange": "asl_workflow_engine"}}}',
                 "message_ttl": 60000},
    "state_engine": {"store_url": os.path.join(TMP, "ASL_store.json"),
                     "execution_ttl": 86400},
    "rest_api": {}, "tracer": {}, "metrics": {},
}


class Engine(object):
    """One engine process: real StateEngine + EventDispatcher on the fake broker."""
    def __init__(self):
        self.state_engine = StateEngine(CONFIG)
        self.dispatcher = EventDispatcher(self.state_engine, CONFIG)
        self.dispatcher.start()            # returns at once (fake start())
        self.connection = Connection.current
        self.session = self.connection._session
        self.task_dispatcher = self.state_engine.task_dispatcher

    # -- event loop ---------------------------------------------------------
    def is_heartbeat(self, t):
        return getattr(t[2], "__name__", "") == "heartbeat"

    def fire_timers(self, upto_ms):
        """Fire every timer due within upto_ms of virtual time (not heartbeat)."""
        fired = False
        while True:
            due = [t for t in self.connection.timers
                   if not self.is_heartbeat(t) and t[1] <= self.connection.now + upto_ms]
            if not due:
                return fired
            t = min(due, key=lambda t: (t[1], t[0]))
            self.connection.timers.remove(t)
            self.connection.now = max(self.connection.now, t[1])
            t[2]()
            fired = True
            upto_ms = 0 if upto_ms == 0 else upto_ms

    def deliver_one(self, queues=(SHARED_Q, INSTANCE_Q, REPLY_Q)):
        for q in queues:
            if BROKER.queue(q):
                self.session.deliver(q)
                return True
        return False

    def run(self, advance_ms=0, queues=(SHARED_Q, INSTANCE_Q, REPLY_Q), max_steps=10000):
        """Run until nothing is deliverable and no timer is due within advance_ms."""
        for _ in range(max_steps):
            if self.fire_timers(0):
                continue
            if self.deliver_one(queues):
                continue
            if advance_ms and self.fire_timers(advance_ms):
                continue
            return
        raise RuntimeError("engine did not become quiet")

    def crash(self):
        """Kill the process: unacked deliveries go back to their queues."""
        self.session.alive = False
        requeue = collections.defaultdict(list)
        for tag in sorted(self.session.unacked):
            qname, stored = self.session.unacked[tag]
            stored["redelivered"] = True
            requeue[qname].append(stored)
        for qname, items in requeue.items():
            BROKER.queues[qname] = items + BROKER.queue(qname)
        self.session.unacked = {}
        self.connection.timers = []

    # -- inspection ---------------------------------------------------------
    def unacked_ids(self):
        return [s["message_id"] or s["correlation_id"]
                for (_q, s) in self.session.unacked.values()]

    def leftovers(self):
        se, td = self.state_engine, self.task_dispatcher
        out = {}
        if self.session.unacked:
            out["broker unacked"] = self.unacked_ids()
        if self.dispatcher.unacknowledged_messages:
            out["unacknowledged_messages"] = list(self.dispatcher.unacknowledged_messages)
        if se.branch_metadata:
            out["branch_metadata"] = list(se.branch_metadata)
        if td.pending_requests:
            out["pending_requests"] = list(td.pending_requests)
        if td.cancellers:
            out["cancellers"] = list(td.cancellers)
        if td.orphaned_responses:
            out["orphaned_responses"] = list(td.orphaned_responses)
        timers = [t for t in self.connection.timers if not self.is_heartbeat(t)]
        if timers:
            out["timers"] = [getattr(t[2], "__qualname__", str(t[2])) for t in timers]
        for q in (SHARED_Q, INSTANCE_Q, REPLY_Q):
            if BROKER.queue(q):
                out["queued " + q] = len(BROKER.queue(q))
        return out


SM_ARN = "arn:aws:states:local:0123456789:stateMachine:sm"


def start_execution(asl, data, name="exec-1", arn=SM_ARN):
    """What the REST API StartExecution does: publish to the shared queue."""
    event = {"data": data,
             "context": {"StateMachine": {"Id": arn, "Definition": asl}}}
    event["context"]["Execution"] = {"Name": name}
    stored = dict(body=json.dumps(event).encode("utf8"), properties={},
                  correlation_id=None, reply_to=None,
                  message_id="start-" + name, redelivered=False)
    BROKER.queue(SHARED_Q).append(stored)
    BROKER.record("publish", SHARED_Q, stored["message_id"])


def worker_requests(function):
    """Requests sitting in the worker's queue (the RPC requests it has seen)."""
    return BROKER.queue(function)


def worker_reply(function, result, keep=False):
    """The worker takes the oldest request from its queue and replies."""
    q = BROKER.queue(function)
    req = q[0] if keep else q.pop(0)
    stored = dict(body=json.dumps(result).encode("utf8"), properties={},
                  correlation_id=req["correlation_id"], reply_to=None,
                  message_id=None, redelivered=False)
    BROKER.queue(req["reply_to"]).append(stored)
    BROKER.record("publish", req["reply_to"], req["correlation_id"])
    return req


def terminal_notifications():
    return [(n["detail"]["status"], n["detail"].get("output"), n["detail"].get("error"))
            for n in BROKER.notifications if n["detail"]["status"] != "RUNNING"]


def reset_broker():
    BROKER.queues.clear()
    del BROKER.log[:]
    del BROKER.notifications[:]
    BROKER.crash_after = None
# ---------------------------------------------------------------------------

# ===========================================================================
# Scenario: a Parallel (or Map) state that is the LAST state of a branch of an
# enclosing Parallel state. The nested state collects all of its results while
# a sibling branch of the enclosing state (a Task) is still running. The
# process then dies - between two handler invocations - and is restarted with
# the same instance id. C04: same status and output as without the crash.
# C03: the events held by the nested join may only be acknowledged once their
# consequence (here: the result of the enclosing state's branch) has been
# handed over to something that survives.
# ===========================================================================
PASS = lambda r: {"Type": "Pass", "Result": r, "End": True}
SLOW = {"StartAt": "T", "States": {"T": {"Type": "Task", "End": True,
        "Resource": "arn:aws:rpcmessage:local::function:slow"}}}
INNER_PAR = {"Type": "Parallel", "End": True, "Branches": [
    {"StartAt": "X", "States": {"X": PASS("x")}},
    {"StartAt": "Y", "States": {"Y": PASS("y")}}]}
INNER_MAP = {"Type": "Map", "End": True, "ItemsPath": "$.items",
             "Iterator": {"StartAt": "I", "States": {"I": {"Type": "Pass", "End": True}}}}
DEEP = {"Type": "Parallel", "End": True, "Branches": [
    {"StartAt": "Mid", "States": {"Mid": {"Type": "Parallel", "End": True, "Branches": [
        {"StartAt": "X2", "States": {"X2": PASS("x2")}},
        {"StartAt": "Y2", "States": {"Y2": PASS("y2")}}]}}},
    {"StartAt": "Z", "States": {"Z": PASS("z")}}]}

def outer(nested):
    return {"StartAt": "Outer", "States": {"Outer": {"Type": "Parallel", "End": True, "Branches": [
        {"StartAt": "Nested", "States": {"Nested": nested}}, SLOW]}}}

def scenario(asl, data, crash, reply):
    reset_broker()
    requests = collections.Counter()
    start_execution(asl, data)
    e = Engine()
    e.run(advance_ms=100)          # nested join complete, Task request with the worker
    held = e.leftovers().get("broker unacked", [])
    if crash:
        e.crash()
        e = Engine()
        e.run(advance_ms=100)
    while worker_requests("slow"):
        requests[worker_reply("slow", reply)["correlation_id"]] += 1
        e.run(advance_ms=100)
    e.run(advance_ms=5000)
    return terminal_notifications(), requests, held, e.leftovers()

failures = []
for label, asl, data in (
        ("nested Parallel is the last state of a Parallel branch", outer(INNER_PAR), {}),
        ("nested Map is the last state of a Parallel branch", outer(INNER_MAP), {"items": [1, 2, 3]}),
        ("two levels of nested Parallel states, each the last state of its branch", outer(DEEP), {})):
    ref, ref_req, held, ref_left = scenario(asl, data, False, "t")
    got, req, _, left = scenario(asl, data, True, "t")
    print(label)
    print("    without crash: %s" % ref)
    print("    unacknowledged while the sibling Task is running: %d message(s)" % len(held))
    print("    crash while the sibling Task is running + restart: %s" % got)
    print("        left over: %s" % left)
    if [t[0] for t in ref] != ["SUCCEEDED"] or ref_left:
        failures.append("%s: unexpected reference run %s, left over %s" % (label, ref, ref_left))
    if len(held) < 2:
        failures.append("%s: the result of the nested state exists only in the engine's memory: its "
                        "branch events were acknowledged although the enclosing state is still waiting "
                        "(only the Task event is unacknowledged)" % label)
    if got != ref:
        failures.append("%s: outcome not preserved: %s without the crash, %s with it (the join of the "
                        "enclosing state can never complete)" % (label, ref, got))
    if dict(req) and max(req.values()) > 1:
        failures.append("%s: task requested twice %s" % (label, dict(req)))
    if got == ref and left:
        failures.append("%s: not drained: %s" % (label, left))

# Guard: when the sibling fails instead, everything that was held is released.
got, _, _, left = scenario(outer(INNER_PAR), {}, False, {"errorType": "Boom", "errorMessage": "sibling fails"})
print("sibling Task fails after the nested join:", got, "left over:", left)
if [t[0] for t in got] != ["FAILED"] or left:
    failures.append("sibling failure: expected FAILED and nothing left over, got %s %s" % (got, left))

if failures:
    print("\nDEFECT (C04 outcome preservation / C03 ack only after the consequences are handed over):")
    for f in failures:
        print(" -", f)
    sys.exit(1)
print("OK: outcome preserved across the crash, nothing left over")
sys.exit(0)
