"""D36 reproduction (triage only): a second orphaned reply with the same correlation id is never acknowledged."""
import sys, os, logging, tempfile, time
sys.path.insert(0, "/repo/asl-workflow-engine/py")
logging.disable(logging.CRITICAL)
from asl_workflow_engine.state_engine import StateEngine
class ED:
    def __init__(s, se): se.event_dispatcher = s; s.unacknowledged_messages = {}; s.timers = []
    def publish(s, *a, **k): pass
    def broadcast(s, *a, **k): pass
    def set_timeout(s, cb, d): s.timers.append((cb, d)); return len(s.timers)
    def clear_timeout(s, t): pass
class Msg:
    def __init__(s, cid, body): s.correlation_id = cid; s.body = body; s.properties = {}; s.acks = 0; s.subject = "q"
    def acknowledge(s, multiple=True): s.acks += 1
se = StateEngine({"state_engine": {"store_url": tempfile.mkdtemp() + "/s.json", "execution_ttl": 500}, "event_queue": {"orphaned_response_retention_ms": 60000}})
ed = ED(se)
td = se.task_dispatcher
class RT: name = "reply_q"
td.reply_to = RT()
m1, m2 = Msg("evt-1", b'{"a": 1}'), Msg("evt-1", b'{"a": 1}')
td.handle_rpcmessage_response(m1)     # no pending request yet (engine just restarted): parked as an orphan
td.handle_rpcmessage_response(m2)     # a duplicate reply (e.g. the worker answered the redelivered request too)
print("orphans parked:", list(td.orphaned_responses), "acks m1 =", m1.acks, "acks m2 =", m2.acks)
for cb, d in ed.timers: cb()          # the orphan retention timer fires
print("after the retention timer: acks m1 =", m1.acks, "acks m2 =", m2.acks, "orphans:", list(td.orphaned_responses))
