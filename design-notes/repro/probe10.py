"""D34/D35 reproductions (triage only; never part of a check)."""
from harness import *
import logging; logging.disable(logging.CRITICAL)
# D35: Map with ItemSelector that fails on item 1 after item 0 was already published
asl={"StartAt":"M","States":{"M":{"Type":"Map","ItemSelector":{"v.$":"$$.Map.Item.Value.x"},
   "ItemProcessor":{"StartAt":"T","States":{"T":{"Type":"Task","Resource":"arn:aws:rpcmessage:local::function:f","Next":"P2"},"P2":{"Type":"Pass","End":True}}},"End":True}}}
r=run(asl,[{"x":1},{"y":2}])
print('D35 notifications:', r[0]); print('    unacked:', list(r[1]))
se=r[2]
for k,h in se.execution_history.items():
    print('    history:', [e['type'] for e in h])
# D34: order of ack vs terminal notification at the join with End:true
import harness
asl={"StartAt":"Par","States":{"Par":{"Type":"Parallel","End":True,"Branches":[{"StartAt":"A","States":{"A":{"Type":"Pass","End":True}}},{"StartAt":"B","States":{"B":{"Type":"Pass","End":True}}}]}}}
log=[]
orig_ack=harness.ED.acknowledge; orig_b=harness.ED.broadcast
def ack(self,id): log.append(('ack',id)); orig_ack(self,id)
def bc(self,subject,message,carrier_properties=None): log.append(('notify',subject.split('.')[-1])); orig_b(self,subject,message,carrier_properties)
harness.ED.acknowledge=ack; harness.ED.broadcast=bc
r=run(asl,{})
print('D34 order:', log)
