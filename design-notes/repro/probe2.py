from harness import *
import logging; logging.disable(logging.CRITICAL)
print('in-band Error:', run({"StartAt":"P","States":{"P":{"Type":"Pass","Result":{"Error":"boom"},"End":True}}}, {})[0])
print('Choice missing var BooleanEquals false:', run({"StartAt":"C","States":{"C":{"Type":"Choice","Choices":[{"Variable":"$.nope","BooleanEquals":False,"Next":"Y"}],"Default":"N"},"Y":{"Type":"Pass","Result":"Y","End":True},"N":{"Type":"Pass","Result":"N","End":True}}}, {})[0])
print('Choice *Path w/ InputPath:', run({"StartAt":"C","States":{"C":{"Type":"Choice","InputPath":"$.in","Choices":[{"Variable":"$.a","NumericEqualsPath":"$.b","Next":"Y"}],"Default":"N"},"Y":{"Type":"Pass","Result":"Y","End":True},"N":{"Type":"Pass","Result":"N","End":True}}}, {"in":{"a":1,"b":1},"b":2})[0])
big={"k":["x"*10]*20000}
import json
print(len(json.dumps(big)))
r=run({"StartAt":"C","States":{"C":{"Type":"Choice","Choices":[{"Variable":"$.k","IsPresent":True,"Next":"Y"}],"Default":"Y"},"Y":{"Type":"Pass","End":True}}}, big)
print('Choice big data:', [x[0] for x in r[0]], 'unacked', list(r[1]))
r=run({"StartAt":"P","States":{"P":{"Type":"Pass","ResultPath":"$.a","End":True}}}, {"x":1})
print('Pass ResultPath no Result:', r[0], list(r[1]))
r=run({"StartAt":"A","States":{"A":{}}}, {})
print('empty state:', r[0], list(r[1]))
r=run([1], {})
print('list def:', r[0], list(r[1]))
