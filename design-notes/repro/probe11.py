"""D30 reproductions (triage only)."""
from harness import *
import logging; logging.disable(logging.CRITICAL)
def t(label, f):
    try: print(label, '=>', f())
    except Exception as e: print(label, 'ESCAPED', type(e).__name__, e)
br={"StartAt":"X","States":{"X":{"Type":"Pass","End":True}}}
t('Parallel bad InputPath', lambda: run({"StartAt":"P","States":{"P":{"Type":"Parallel","InputPath":"foo","Branches":[br],"End":True}}}, {})[:2])
t('Wait bad OutputPath', lambda: run({"StartAt":"W","States":{"W":{"Type":"Wait","Seconds":1,"OutputPath":"foo","End":True}}}, {})[:2])
