import sys, json, collections
sys.path.insert(0,'/repo/asl-workflow-engine/py')
from asl_workflow_engine.state_engine import StateEngine
class ED:
    def __init__(self, se):
        self.se=se; se.event_dispatcher=self; self.q=collections.deque(); self.n=0
        self.unacknowledged_messages={}; self.notes=[]; self.acks=[]; self.timers=[]
    def set_timeout(self, cb, delay):
        self.timers.append((delay,cb)); return len(self.timers)
    def clear_timeout(self, tid): pass
    def acknowledge(self, id): self.acks.append(id); self.unacknowledged_messages.pop(id,None)
    def publish(self, item, threadsafe=False, use_shared_queue=False): self.q.append(json.loads(json.dumps(item)))
    def broadcast(self, subject, message, carrier_properties=None): self.notes.append((subject, json.loads(json.dumps(message["detail"]))))
    def run(self):
        while self.q or self.timers:
            while self.timers:
                d,cb=self.timers.pop(0); cb()
            if self.q:
                ev=self.q.popleft(); self.n+=1; mid='m%d'%self.n
                self.unacknowledged_messages[mid]=ev
                try: self.se.notify(ev, mid, False)
                except Exception as e: print('  NOTIFY RAISED', type(e).__name__, e); self.unacknowledged_messages.pop(mid,None)
def run(asl, data, typ="STANDARD"):
    se=StateEngine({"state_engine":{"store_url":"/tmp/lsf-repro-store.json","execution_ttl":500}})
    def ex(resource_arn, parameters, callback, timeout, is_task_timeout, context, event_id, redelivered): callback({"r":1})
    se.task_dispatcher.execute_task=ex
    ed=ED(se)
    arn="arn:aws:states:local:0123456789:stateMachine:m"
    se.asl_store[arn]={"definition":asl,"name":"m","roleArn":"r","stateMachineArn":arn,"type":typ,"status":"ACTIVE","creationDate":0,"updateDate":0}
    ed.publish({"data":data,"context":{"StateMachine":{"Id":arn}}})
    ed.run()
    return [(s.split('.')[-1], d.get('output'), d.get('error')) for s,d in ed.notes], ed.unacknowledged_messages, se
