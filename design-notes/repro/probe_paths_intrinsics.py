import sys, json
sys.path.insert(0,'.')
from asl_workflow_engine.state_engine_paths import *
from asl_workflow_engine.state_engine import parse_rfc3339_datetime
from asl_workflow_engine.asl_exceptions import *
def t(label, f):
    try: print(label, '=>', repr(f()))
    except Exception as e: print(label, 'RAISED', type(e).__name__, e)
# D1 rfc3339 minutes
t('rfc +05:30', lambda: parse_rfc3339_datetime('2020-01-01T00:00:00+05:30').utcoffset())
t('rfc +05:45', lambda: parse_rfc3339_datetime('2020-01-01T00:00:00+05:45').utcoffset())
t('rfc lowercase z', lambda: parse_rfc3339_datetime('2020-01-01T00:00:00z'))
# intrinsic dispatch
t('arglist(1)', lambda: evaluate_payload_template({}, {}, {"a.$":"arglist(1)"}))
t('args(1)', lambda: evaluate_payload_template({}, {}, {"a.$":"args(1)"}))
t('Format attr', lambda: evaluate_payload_template({}, {}, {"a.$":"States.Format('{0.__class__}', 1)"}))
t('Format brace', lambda: evaluate_payload_template({}, {}, {"a.$":"States.Format('a\\{\\}b {}', 1)"}))
t('StringSplit ^', lambda: evaluate_payload_template({}, {}, {"a.$":"States.StringSplit('a^b-c', '^-')"}))
t('StringSplit ]', lambda: evaluate_payload_template({}, {}, {"a.$":"States.StringSplit('a]b', ']')"}))
t('ArrayUnique', lambda: evaluate_payload_template({"x":["b","a","c","a"]}, {}, {"a.$":"States.ArrayUnique($.x)"}))
t('ArrayUnique unhashable', lambda: evaluate_payload_template({"x":[[1],[1]]}, {}, {"a.$":"States.ArrayUnique($.x)"}))
t('nested2', lambda: evaluate_payload_template({}, {}, {"a.$":"States.Array(States.Array(States.MathAdd(1,2)))"}))
t('nested paren str', lambda: evaluate_payload_template({}, {}, {"a.$":"States.Array(States.Format('a)b{}', 1))"}))
t('MathRandom empty', lambda: evaluate_payload_template({}, {}, {"a.$":"States.MathRandom(5, 5)"}))
t('no paren', lambda: evaluate_payload_template({}, {}, {"a.$":"States.UUID"}))
t('nonstr .$', lambda: evaluate_payload_template({}, {}, {"a.$": 5}))
# resultpath
d={"a":1}
t('rp alias', lambda: json.dumps(apply_resultpath(d, d, "$.b")))
t('rp bracket', lambda: apply_resultpath({"a":1}, 2, "$['x y']"))
t('rp nonstr', lambda: apply_resultpath({"a":1}, 2, 5))
t('rp neg', lambda: apply_resultpath({"a":[1,2]}, 9, "$.a[-1]"))
t('rp into str', lambda: apply_resultpath({"a":"s"}, 9, "$.a.b"))
t('rp list root', lambda: apply_resultpath([1,2], 9, "$.a"))
t('jsonpath missing', lambda: apply_jsonpath({"a":1}, "$.b"))
t('jsonpath false value', lambda: apply_jsonpath({"a":False}, "$.a"))
t('jsonpath empty list value', lambda: apply_jsonpath({"a":[]}, "$.a"))
t('jsonpath 0', lambda: apply_jsonpath({"a":0}, "$.a"))
