import sys, json, types, logging
sys.path.insert(0,'/repo/asl-workflow-engine/py')
from unittest import mock
from asl_workflow_engine import event_dispatcher
event_dispatcher.Message = mock.MagicMock()
from asl_workflow_engine.rest_api import RestAPI
from asl_workflow_engine.store import SimpleStore
logging.disable(logging.CRITICAL)
se=mock.MagicMock(); se.asl_store=SimpleStore(); se.executions=SimpleStore(); se.execution_history=SimpleStore()
api=RestAPI(se, mock.MagicMock(), {"rest_api":{"region":"local"}})
c=api.create_app().test_client()
def call(action, **p):
    r=c.post('/', data=json.dumps(p), headers={"x-amz-target":"AWSStepFunctions."+action,"Content-Type":"application/x-amz-json-1.0"})
    return r.status_code, r.get_data(as_text=True)[:200]
d=json.dumps({"StartAt":"A","States":{"A":{"Type":"Pass","End":True}}})
print(call("CreateStateMachine", name="m", roleArn="arn:aws:iam::0123456789:role/r", definition=d))
arn="arn:aws:states:local:0123456789:stateMachine:m"
print('update bad def:', call("UpdateStateMachine", stateMachineArn=arn, roleArn="arn:aws:iam::0123456789:role/NEW", definition="{not json"))
print('stored roleArn after rejected update:', se.asl_store[arn]["roleArn"])
print('update oversized:', call("UpdateStateMachine", stateMachineArn=arn, definition=" "*1048577))
print('invalid json body:', c.post('/', data="{", headers={"x-amz-target":"AWSStepFunctions.ListStateMachines","Content-Type":"application/x-amz-json-1.0"}).status_code)
print('invalid json body describe:', c.post('/', data="{", headers={"x-amz-target":"AWSStepFunctions.DescribeStateMachine","Content-Type":"application/x-amz-json-1.0"}).status_code)
print('name 80/81:', call("CreateStateMachine", name="a"*80, roleArn="arn:aws:iam::0123456789:role/r", definition=d)[0], call("CreateStateMachine", name="a"*81, roleArn="arn:aws:iam::0123456789:role/r", definition=d)[0])
print('name newline:', call("CreateStateMachine", name="a\nb", roleArn="arn:aws:iam::0123456789:role/r", definition=d))
print('name tab:', call("CreateStateMachine", name="a\tb", roleArn="arn:aws:iam::0123456789:role/r", definition=d))
print('def non-str:', call("CreateStateMachine", name="q", roleArn="arn:aws:iam::0123456789:role/r", definition=5))
print('def list:', call("CreateStateMachine", name="q2", roleArn="arn:aws:iam::0123456789:role/r", definition="[1]"))
print('start input nonstr:', call("StartExecution", stateMachineArn=arn, input=5))
print('start name w dot:', call("StartExecution", stateMachineArn=arn, name="a.b"))
print('loggingConfiguration str (asyncio only)')
