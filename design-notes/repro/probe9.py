"""Reproduce D32: stale cache entry when the invalidation is delivered between fetch and cache write."""
import sys, types, logging
logging.disable(logging.CRITICAL)
# --- minimal fakes for redis / pottery (only what store.py touches)
DB={}
class FakeRedis:
    connection_pool=None
    def __init__(self,*a,**k): pass
    @classmethod
    def from_url(cls,url): return cls()
    def ping(self): return True
    def info(self,section): return {"redis_version":"6.2.0"}
    def delete(self,k): DB.pop(k,None)
    def exists(self,k): return k in DB
    def client_id(self): return 7
    def execute_command(self,*a): pass
    def publish(self,*a): pass
    def close(self): pass
    def pubsub(self,**k):
        class PS:
            def subscribe(self,*a,**kw): self.h=kw
            def listen(self): return iter(())
        return PS()
class RedisDict(dict):
    def __init__(self,value=None,redis=None,key=None):
        self.key=key
        if value is not None: DB[key]=dict(value)
        super().__init__(DB.get(key,{}))
class RedisList(list): pass
r=types.ModuleType('redis'); r.Redis=FakeRedis; sys.modules['redis']=r
p=types.ModuleType('pottery'); p.RedisDict=RedisDict; p.RedisList=RedisList; sys.modules['pottery']=p
sys.path.insert(0,'/repo/asl-workflow-engine/py')
from asl_workflow_engine.store import RedisDictStore
s=RedisDictStore("redis://x","asl_store",cache_size=8,daemon=True)
s["k"]={"v":1}
# schedule point: tracker thread delivers the invalidation for a concurrent update
# *after* this client fetched v1 and *before* it writes v1 into its cache
orig=s._write_to_cache
def interleaved(key,value):
    DB["asl_store:k"]={"v":2}                                   # another instance updates k
    s._cache_invalidation_handler({"data":[b"asl_store:k"]})    # server's invalidation is delivered now
    return orig(key,value)                                      # ... and then v1 is cached
s._write_to_cache=interleaved
print('first cached read :', s.get_cached_view("k"))
s._write_to_cache=orig
print('after invalidation was delivered, cached read:', s.get_cached_view("k"), ' server has:', dict(s["k"]))
