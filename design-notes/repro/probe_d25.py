#!/usr/bin/env python3
"""
C16 demo B: a Task reply is accepted iff its JSON text has at most 262144
characters, whatever the (valid) JSON formatting the worker happens to use.

Run with:
  cd /tmp/wt3/C16/asl-workflow-engine/py && /venv/bin/python /tmp/wt3-out/C16/B/demo.py

Drives the REAL StateEngine and REAL TaskDispatcher (execute_task and
handle_rpcmessage_response). Only the messaging fabric is replaced by a queue
based event dispatcher and a stub Message/producer whose "worker" replies with
a prepared JSON text.

State machine: Task (OutputPath "$.small", so the state's own output is tiny
and only the *reply* size matters) -> Succeed.

For every size in L-2..L+2 (L = 262144) plus sizes far below/above, and for
three ways a worker may format the same reply (all ASCII, so bytes == chars):
   canonical : json.dumps(obj)                       {"small": 1, "pad": "xx"}
   compact   : json.dumps(obj, separators=(",",":")) {"small":1,"pad":"xx"}
   pretty    : compact text followed by insignificant whitespace/newlines
the execution must SUCCEED when len(text) <= L and must FAIL with
States.DataLimitExceeded when len(text) > L.
"""
import os
os.environ["LOG_LEVEL"] = "CRITICAL"

import sys, json, tempfile, itertools
from collections import deque

sys.path.insert(0, os.getcwd())

import asl_workflow_engine.event_dispatcher as event_dispatcher_module
from asl_workflow_engine.state_engine import StateEngine, MAX_DATA_LENGTH


class Message(object):
    """Minimal stand-in for the messaging Message class."""
    def __init__(self, body="", properties=None, content_type=None,
                 subject=None, reply_to=None, correlation_id=None,
                 expiration=None, mandatory=False, **kwargs):
        self.body = body.encode("utf8") if isinstance(body, str) else body
        self.properties = properties or {}
        self.content_type = content_type
        self.subject = subject
        self.reply_to = reply_to
        self.correlation_id = correlation_id
        self.expiration = expiration
        self.message_id = None
        self.redelivered = False
        self.acknowledged = False

    def acknowledge(self, multiple=True, threadsafe=False):
        self.acknowledged = True


# TaskDispatcher.execute_task does: from ...event_dispatcher import Message
event_dispatcher_module.Message = Message


class QueueEventDispatcher(object):
    def __init__(self, state_engine):
        self.state_engine = state_engine
        state_engine.event_dispatcher = self
        self.work = deque()
        self.unacknowledged_messages = {}
        self.ids = itertools.count(1)
        self.cancelled = set()

    def publish(self, item, threadsafe=False, use_shared_queue=False):
        text = json.dumps(item)
        event_id = "event-" + str(next(self.ids))
        self.work.append(
            lambda: self.state_engine.notify(json.loads(text), event_id)
        )

    def set_timeout(self, callback, delay):
        timer_id = next(self.ids)
        if delay <= 60000:
            def fire():
                if timer_id not in self.cancelled:
                    callback()
            self.work.append(fire)
        return timer_id  # Long timers (Task timeouts) never fire in the demo.

    def clear_timeout(self, timer_id):
        self.cancelled.add(timer_id)

    def acknowledge(self, id):
        pass

    def broadcast(self, subject, message, carrier_properties=None):
        pass

    def run(self):
        while self.work:
            self.work.popleft()()


class WorkerProducer(object):
    """Stands in for the AMQP producer and the worker behind it."""
    def __init__(self, dispatcher, task_dispatcher):
        self.dispatcher = dispatcher
        self.task_dispatcher = task_dispatcher
        self.next_reply = None

    def send(self, message, threadsafe=False):
        reply = Message(self.next_reply, correlation_id=message.correlation_id)
        self.dispatcher.work.append(
            lambda: self.task_dispatcher.handle_rpcmessage_response(reply)
        )

    def set_return_callback(self, callback):
        pass


class ReplyTo(object):
    name = "asl_workflow_reply_to-demo"


ARN = "arn:aws:states:local:0123456789:stateMachine:c16_demo_b"
ASL = {
    "StartAt": "Work",
    "States": {
        "Work": {
            "Type": "Task",
            "Resource": "arn:aws:rpcmessage:local::function:worker",
            "OutputPath": "$.small",
            "Next": "Done"
        },
        "Done": {"Type": "Succeed"}
    }
}


def reply_text(style, size):
    """A valid JSON reply text of exactly `size` ASCII characters."""
    if style == "canonical":
        empty = json.dumps({"small": 1, "pad": ""})
        text = json.dumps({"small": 1, "pad": "x" * (size - len(empty))})
    elif style == "compact":
        empty = json.dumps({"small": 1, "pad": ""}, separators=(",", ":"))
        text = json.dumps({"small": 1, "pad": "x" * (size - len(empty))},
                          separators=(",", ":"), ensure_ascii=False)
    else:  # pretty: half the budget is trailing insignificant whitespace
        core = json.dumps({"small": 1, "pad": "x" * 1000}, separators=(",", ":"))
        filler = (" " * 79 + "\n") * (size // 80 + 1)
        text = core + filler[:size - len(core)]
    text = text.replace("x", "\u00e9")          # two bytes per character in UTF-8
    assert len(text) == size and len(text.encode("utf8")) > size
    json.loads(text)
    return text


def main():
    tmp = tempfile.mkdtemp(prefix="c16_demo_b_")
    config = {
        "state_engine": {
            "store_url": os.path.join(tmp, "ASL_store.json"),
            "execution_ttl": 86400,
        },
        "event_queue": {"orphaned_response_retention_ms": 0},
    }
    engine = StateEngine(config)
    dispatcher = QueueEventDispatcher(engine)
    producer = WorkerProducer(dispatcher, engine.task_dispatcher)
    engine.task_dispatcher.producer = producer
    engine.task_dispatcher.reply_to = ReplyTo()

    engine.asl_store[ARN] = {
        "creationDate": 0.0, "definition": ASL, "name": "c16_demo_b",
        "roleArn": "arn:aws:iam::0123456789:role/demo",
        "stateMachineArn": ARN, "updateDate": 0.0,
        "status": "ACTIVE", "type": "STANDARD",
    }

    L = MAX_DATA_LENGTH
    sizes = [2000, 200000, L - 1, L, L + 1]
    failures = []
    run = 0
    for style in ("compact",):
        for size in sizes:
            run += 1
            name = "run{}".format(run)
            producer.next_reply = reply_text(style, size)
            dispatcher.publish({
                "data": {},
                "context": {
                    "StateMachine": {"Id": ARN, "Name": "c16_demo_b"},
                    "Execution": {"Name": name},
                },
            })
            dispatcher.run()

            execution_arn = ARN.replace(":stateMachine:", ":execution:") + ":" + name
            detail = engine.executions[execution_arn]
            status, error = detail["status"], detail.get("error")
            should_accept = size <= L
            if should_accept:
                ok = status == "SUCCEEDED" and detail.get("output") == "1"
            else:
                ok = status == "FAILED" and error == "States.DataLimitExceeded"
            print("{:9s} size {:7d} ({:+d}) -> {} {}{}".format(
                style, size, size - L, status, error or "",
                "" if ok else "   <-- WRONG"))
            if not ok:
                failures.append((style, size, status, error))

    if failures:
        print("FAIL: {} case(s) decided wrongly: {}".format(len(failures), failures))
        sys.exit(1)
    print("PASS")


if __name__ == "__main__":
    main()
