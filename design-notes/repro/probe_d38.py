import os, sys; sys.path.insert(0, os.path.dirname(os.path.abspath(__file__)))
from harness_r3c05 import *
ARN = "arn:aws:states:local:0123456789:stateMachine:c05r"
ASL = {
  "StartAt": "M",
  "States": {
    "M": {"Type": "Map", "End": True,
      "Iterator": {"StartAt": "Work", "States": {
        "Work": {"Type": "Task", "Resource": "arn:aws:rpcmessage:local::function:work",
                 "Retry": [{"ErrorEquals": ["States.ALL"], "IntervalSeconds": 1, "MaxAttempts": 2}],
                 "End": True}
      }}}
  }
}
engine, d = make_engine()
tasks = HeldTasks(engine)
d.start([{"v":10},{"v":11}], ARN, ASL)
d.drain()
p = tasks.pending()
tasks.reply(p[0], {"out": 10}); d.drain()
print(engine.branch_metadata and list(engine.branch_metadata.values())[0].results)
tasks.reply(p[1], {"errorType": "Boom", "errorMessage": "x"}); d.drain()
print(engine.branch_metadata and list(engine.branch_metadata.values())[0].results)
d.run_timers(max_delay=5000); d.drain()
print("pending", [(r["resource"], r["parameters"]) for r in tasks.pending()])
tasks.reply(tasks.pending()[0], {"out": 11}); d.drain()
print(engine.branch_metadata and list(engine.branch_metadata.values())[0].results)
print(final(d)[:2])
