"""D8/D9 reproduction: type-confused request parameters answer 500 InternalError (triage only)."""
import sys, json, logging, tempfile, os, asyncio
sys.path.insert(0, os.getcwd())
logging.disable(logging.CRITICAL)
from asl_workflow_engine.state_engine import StateEngine
class ED:
    def __init__(s, se): se.event_dispatcher = s; s.unacknowledged_messages = {}
    def publish(s, *a, **k): pass
    def broadcast(s, *a, **k): pass
    def set_timeout(s, *a): return 1
def mk():
    d = tempfile.mkdtemp()
    se = StateEngine({"state_engine": {"store_url": d + "/s.json", "execution_ttl": 500}})
    return se, ED(se)
H = lambda a: {"x-amz-target": "AWSStepFunctions." + a, "Content-Type": "application/x-amz-json-1.0"}
asl = json.dumps({"StartAt": "A", "States": {"A": {"Type": "Pass", "End": True}}})
role = "arn:aws:iam::0123456789:role/r"; arn = "arn:aws:states:local:0123456789:stateMachine:m"
cases = [("DescribeStateMachine", "{"), ("DescribeStateMachine", "[1]"),
         ("CreateStateMachine", {"name": "n1", "roleArn": role, "definition": asl, "type": [1]}),
         ("CreateStateMachine", {"name": "n2", "roleArn": role, "definition": 5}),
         ("CreateStateMachine", {"name": "n3", "roleArn": role, "definition": [1]}),
         ("ListExecutions", {"stateMachineArn": arn, "statusFilter": [1]}),
         ("StartExecution", {"stateMachineArn": arn, "input": 5}),
         ("UpdateStateMachine", {"stateMachineArn": arn, "definition": 5}),
         ("UpdateStateMachine", {"stateMachineArn": arn, "definition": [1]})]
from asl_workflow_engine.rest_api import RestAPI
se, ed = mk()
app = RestAPI(se, ed, {"rest_api": {"region": "local"}}).create_app().test_client()
app.post("/", data=json.dumps({"name": "m", "roleArn": role, "definition": asl}), headers=H("CreateStateMachine"))
for a, b in cases:
    r = app.post("/", data=b if isinstance(b, str) else json.dumps(b), headers=H(a))
    print("flask", a, (b if isinstance(b, str) else {k: v for k, v in b.items() if k not in ("roleArn", "stateMachineArn", "name")}), "->", r.status_code, r.get_data(as_text=True)[:30].strip())
# asyncio front end
import types
sys.modules.setdefault("pika", types.ModuleType("pika"))
try:
    from asl_workflow_engine.rest_api_asyncio import RestAPI as RA
    se2, ed2 = mk()
    class M: pass
    import asl_workflow_engine.event_dispatcher as edm
    edm.Message = lambda *a, **k: M()
    qa = RA(se2, ed2, {"rest_api": {"region": "local"}}).create_app().test_client()
    async def go():
        await qa.post("/", data=json.dumps({"name": "m", "roleArn": role, "definition": asl}), headers=H("CreateStateMachine"))
        for a, b in cases + [("CreateStateMachine", {"name": "n4", "roleArn": role, "definition": asl, "loggingConfiguration": "x"}),
                             ("CreateStateMachine", {"name": "n5", "roleArn": role, "definition": asl, "loggingConfiguration": {"level": [1]}}),
                             ("UpdateStateMachine", {"stateMachineArn": arn, "roleArn": role, "loggingConfiguration": "x"}),
                             ("SendTaskFailure", {"taskToken": "abc", "error": 5, "cause": "c"}), ("SendTaskFailure", {"taskToken": "abc", "error": "e"}),
                             ("SendTaskSuccess", {"taskToken": "abc", "output": 5}), ("StartSyncExecution", {"stateMachineArn": arn, "input": 5})]:
            r = await qa.post("/", data=b if isinstance(b, str) else json.dumps(b), headers=H(a))
            print("quart", a, (b if isinstance(b, str) else {k: v for k, v in b.items() if k not in ("roleArn", "stateMachineArn", "name", "definition") or not isinstance(v, str)}), "->", r.status_code, (await r.get_data(as_text=True))[:30].strip())
    asyncio.run(go())
except Exception as e:
    print("quart front end not drivable here:", type(e).__name__, e)
