from harness import *
import logging; logging.disable(logging.CRITICAL)
inner={"StartAt":"I","States":{"I":{"Type":"Pass","End":True}}}
A={"StartAt":"A0","States":{"A0":{"Type":"Pass","Next":"A1"},"A1":{"Type":"Fail","Error":"E","Cause":"c"}}}
B={"StartAt":"B0","States":{"B0":{"Type":"Pass","Next":"B1"},"B1":{"Type":"Parallel","Branches":[inner],"End":True}}}
r=run({"StartAt":"P","States":{"P":{"Type":"Parallel","Branches":[A,B],"End":True}}}, {})
print(r[0]); print('unacked:', {k:(v['context']['State']['Name']) for k,v in r[1].items()}); print('branch_metadata', list(r[2].branch_metadata))
