import sys
sys.path.insert(0,'/repo/asl-workflow-engine/py')
from statelint.statelint import StateLint
sl=StateLint()
def t(label, d):
    try: print(label, '=>', sl.validate(d))
    except Exception as e: print(label, 'RAISED', type(e).__name__, e)
t('list', [1]); t('str','x'); t('int',5); t('empty', {}); t('none', None)
t('empty state', {"StartAt":"A","States":{"A":{}}})
t('nondict state via Default', {"StartAt":"C","States":{"C":{"Type":"Choice","Choices":[{"Variable":"$.x","IsPresent":True,"Next":"B"}],"Default":"A"},"A":5,"B":{"Type":"Succeed"}}})
t('empty state via Default', {"StartAt":"C","States":{"C":{"Type":"Choice","Choices":[{"Variable":"$.x","IsPresent":True,"Next":"B"}],"Default":"A"},"A":{},"B":{"Type":"Succeed"}}})
t('ok', {"StartAt":"A","States":{"A":{"Type":"Pass","End":True}}})
t('bad types', {"StartAt":5,"States":{"A":{"Type":"Pass","End":True, "Parameters":{"a.$":5}}}})
t('choices weird', {"StartAt":"A","States":{"A":{"Type":"Choice","Choices":[5,{"Variable":5,"Next":"A","IsNull":True}]}}})
t('retry weird', {"StartAt":"A","States":{"A":{"Type":"Task","Resource":"x","End":True,"Retry":[{"ErrorEquals":["States.ALL","x"]}],"Catch":"x"}}})
t('Map no processor StartAt', {"StartAt":"A","States":{"A":{"Type":"Map","End":True,"ItemProcessor":{}}}})
t('dup nested', {"StartAt":"A","States":{"A":{"Type":"Parallel","End":True,"Branches":[{"StartAt":"A","States":{"A":{"Type":"Pass","End":True}}}]}}})
t('key int?', {"StartAt":"A","States":{"A":{"Type":"Pass","End":True,"Parameters":{"x":{"y.$":"States.Foo(1)"}}}}})
