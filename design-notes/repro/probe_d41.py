import sys; sys.path.insert(0,'/verif/design-notes/repro')
from harness import *
import logging; logging.disable(logging.CRITICAL)
asl={"StartAt":"A","States":{"A":{"Type":"Pass","Result":1,"ResultPath":"$.added","Next":"B"},"B":{"Type":"Pass","Parameters":{"orig.$":"$$.Execution.Input"},"End":True}}}
for typ in ("STANDARD","EXPRESS"):
    r=run(asl, {"a": 1}, typ)
    print(typ, r[0][-1], [ (s.split('.')[-1], d.get('input')) for s,d in r[2].event_dispatcher.notes])
