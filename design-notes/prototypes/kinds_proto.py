"""Throw-away feasibility prototype for E7 (JSON-kind narrowing) on the Flask front end."""
import ast
SRC='/repo/asl-workflow-engine/py/asl_workflow_engine/rest_api.py'
tree=ast.parse(open(SRC).read())
ALL=frozenset("null false true int float str0 str list0 list dict0 dict".split())
FALSY=frozenset("null false str0 list0 dict0".split())  # int 0 / 0.0 folded into int/float: treat int,float as maybe-falsy
STR=frozenset({"str0","str"}); SIZED=frozenset("str0 str list0 list dict0 dict".split())
HASHABLE=ALL-frozenset("list0 list dict0 dict".split())
# summaries of the repo's predicates: valid_* all start with isinstance(x, str)
def summarise_valid(fn):
    # true-branch kinds: intersect isinstance tests found in the returned conjunction
    ks=set(ALL)
    for n in ast.walk(fn):
        if isinstance(n,ast.Call) and getattr(n.func,'id','')=='isinstance' and n.args[1].id=='str': ks&=STR
        if isinstance(n,ast.Compare) and isinstance(n.left,ast.Call) and getattr(n.left.func,'id','')=='len' and isinstance(n.ops[0],ast.Gt): ks-= {"str0"}
    return frozenset(ks)
VALID={f.name:summarise_valid(f) for f in tree.body if isinstance(f,ast.FunctionDef) and f.name.startswith('valid_')}
print('predicate summaries:',{k:sorted(v) for k,v in VALID.items()})
def lit_kind(c):
    v=c.value
    if v is None: return {"null"}
    if v is True: return {"true"}
    if v is False: return {"false"}
    if isinstance(v,str): return {"str" if v else "str0"}
    if isinstance(v,int): return {"int"}
    return {"float"}
findings=[]
def analyse(fn):
    env={}
    def kinds_of(e):
        if isinstance(e,ast.Name): return env.get(e.id)
        return None
    def narrow(test, truth):
        """return dict var->kinds under test==truth (only idioms the repo uses)"""
        out={}
        if isinstance(test,ast.UnaryOp) and isinstance(test.op,ast.Not): return narrow(test.operand, not truth)
        if isinstance(test,ast.Name) and test.id in env:
            k=env[test.id]; out[test.id]= (k-FALSY) if truth else (k&(FALSY|{"int","float"}))
        if isinstance(test,ast.Call) and getattr(test.func,'id','') in VALID and isinstance(test.args[0],ast.Name) and test.args[0].id in env:
            v=test.args[0].id
            if truth: out[v]=env[v]&VALID[test.func.id]
        if isinstance(test,ast.BoolOp) and isinstance(test.op,ast.And) and truth:
            for t in test.values: out.update(narrow(t,True))
        if isinstance(test,ast.BoolOp) and isinstance(test.op,ast.And) and not truth and len(test.values)==2:
            pass
        return out
    def sinks(node, caught):
        for n in ast.walk(node):
            if isinstance(n,ast.Call) and getattr(n.func,'id','')=='len' and isinstance(n.args[0],ast.Name) and n.args[0].id in env:
                bad=env[n.args[0].id]-SIZED
                if bad and 'TypeError' not in caught: findings.append((fn.name,f'len({n.args[0].id})',sorted(bad),n.lineno))
            if isinstance(n,ast.Compare) and isinstance(n.ops[0],(ast.In,ast.NotIn)) and isinstance(n.comparators[0],ast.Set) and isinstance(n.left,ast.Name) and n.left.id in env:
                bad=env[n.left.id]-HASHABLE
                if bad and 'TypeError' not in caught: findings.append((fn.name,f'{n.left.id} in {{set}}',sorted(bad),n.lineno))
            if isinstance(n,ast.Call) and isinstance(n.func,ast.Attribute) and n.func.attr=='get' and isinstance(n.func.value,ast.Name) and n.func.value.id in env:
                bad=env[n.func.value.id]-{"dict","dict0"}
                if bad: findings.append((fn.name,f'{n.func.value.id}.get',sorted(bad),n.lineno))
    def ends_in_return(body): return bool(body) and isinstance(body[-1],ast.Return)
    def block(stmts, caught=frozenset()):
        for s in stmts:
            if isinstance(s,ast.Assign) and isinstance(s.targets[0],ast.Name):
                v=s.value; name=s.targets[0].id
                sinks(v,caught)
                if isinstance(v,ast.Call) and isinstance(v.func,ast.Attribute) and v.func.attr=='get' and getattr(v.func.value,'id','')=='params':
                    ks=set(ALL)
                    if len(v.args)==1: pass  # absent -> None, already in ALL
                    elif isinstance(v.args[1],ast.Constant): ks|=lit_kind(v.args[1])
                    env[name]=frozenset(ks)
                elif isinstance(v,ast.Call) and getattr(v.func,'attr','')=='loads': env.pop(name,None)
                else: env.pop(name,None)
            elif isinstance(s,ast.If):
                sinks(s.test,caught)
                saved=dict(env)
                env.update(narrow(s.test,True)); block(s.body,caught); t_env=dict(env); t_ret=ends_in_return(s.body)
                env.clear(); env.update(saved); env.update(narrow(s.test,False)); block(s.orelse,caught); f_env=dict(env)
                if t_ret: env.clear(); env.update(f_env)
                else:
                    env.clear()
                    for k in set(t_env)&set(f_env): env[k]=t_env[k]|f_env[k]
            elif isinstance(s,ast.Try):
                c=set()
                for h in s.handlers:
                    t=h.type
                    if t is None: c|={'TypeError','ValueError','Exception'}
                    elif isinstance(t,ast.Name): c.add(t.id)
                    elif isinstance(t,ast.Tuple): c|={x.id for x in t.elts}
                if 'Exception' in c: c|={'TypeError','ValueError'}
                block(s.body, caught|frozenset(c))
                for h in s.handlers: block(h.body,caught)
            elif isinstance(s,ast.With): block(s.body,caught)
            else: sinks(s,caught)
    block(fn.body)
for n in ast.walk(tree):
    if isinstance(n,ast.FunctionDef) and n.name.startswith('aws_api_'): analyse(n)
for f in findings: print(f)
print(len(findings),'findings')
