"""Throw-away feasibility prototype for C02.R5 / C03.R1 / C03.R2 (not framework code)."""
import ast, sys, collections
SRC='/repo/asl-workflow-engine/py/asl_workflow_engine/state_engine.py'
tree=ast.parse(open(SRC).read())
# --- locate notify and nested functions
cls=[n for n in tree.body if isinstance(n,ast.ClassDef) and n.name=='StateEngine'][0]
meth={f.name:f for f in cls.body if isinstance(f,ast.FunctionDef)}
notify=meth['notify']
nested={}
def collect(fn,prefix):
    for n in ast.walk(fn):
        if isinstance(n,ast.FunctionDef) and n is not fn:
            nested.setdefault(n.name,n)
collect(notify,'notify')
MAYRAISE={'apply_path','apply_jsonpath','evaluate_payload_template','merge_result','apply_resultpath'}
# --- effect classification of a simple statement / expression
def callname(c):
    f=c.func
    parts=[]
    while isinstance(f,ast.Attribute): parts.append(f.attr); f=f.value
    if isinstance(f,ast.Name): parts.append(f.id)
    return '.'.join(reversed(parts))
def effects(node):
    """ordered list of effects in evaluation order (approx: ast.walk order of Call nodes, post-order)"""
    out=[]
    class V(ast.NodeVisitor):
        def visit_FunctionDef(self,n): pass
        def visit_Lambda(self,n): pass
        def visit_Call(self,n):
            self.generic_visit(n)
            nm=callname(n)
            if nm=='self.event_dispatcher.acknowledge':
                a=n.args[0]
                out.append(('ACK', a.id if isinstance(a,ast.Name) else '?'))
            elif nm=='self.log_and_drop': out.append(('ACK','id')); out.append(('DROP',))
            elif nm=='self.event_dispatcher.publish': out.append(('PUB',))
            elif nm=='self.change_state': out.append(('CS',))
            elif nm=='handle_error': out.append(('HE',))
            elif nm=='handle_terminal_state':
                has_id=len(n.args)>=3
                out.append(('HT',has_id))
            elif nm=='self.end_execution': out.append(('END',))
            elif nm=='asl_state_collect_results': out.append(('JOIN',))
            elif nm=='self.acknowledge_event_list': out.append(('ACKLIST',))
            elif nm=='self.event_dispatcher.set_timeout':
                f=n.args[0]; out.append(('DEFER', f.id if isinstance(f,ast.Name) else '?'))
            elif nm=='self.task_dispatcher.execute_task':
                out.append(('DEFER','on_response'))
            elif nm.split('.')[-1] in MAYRAISE: out.append(('RAISE?',))
    V().visit(node)
    return out
# --- tiny CFG: nodes are (id, stmt, effects); edges list
class CFG:
    def __init__(self): self.succ=collections.defaultdict(list); self.info={}; self.n=0
    def new(self,label,eff=(),stmt=None):
        self.n+=1; self.info[self.n]=(label,list(eff),stmt); return self.n
    def edge(self,a,b,lab=None): self.succ[a].append((b,lab))
def build(fn):
    g=CFG(); entry=g.new('entry'); exit_=g.new('exit')
    def seq(stmts,preds,ctx):
        # preds: list of (node,label); returns list of open ends
        for s in stmts:
            preds=stmt(s,preds,ctx)
        return preds
    def link(preds,n):
        for p,l in preds: g.edge(p,n,l)
    def stmt(s,preds,ctx):
        if isinstance(s,(ast.FunctionDef,ast.AsyncFunctionDef,ast.ClassDef)): return preds
        if isinstance(s,ast.Expr) and isinstance(s.value,ast.Constant): return preds
        if isinstance(s,ast.If):
            n=g.new('if',effects(s.test),s); link(preds,n)
            t=seq(s.body,[(n,('T',s))],ctx); f=seq(s.orelse,[(n,('F',s))],ctx)
            return t+f
        if isinstance(s,(ast.For,ast.While)):
            hdr=g.new('loop',effects(s.iter if isinstance(s,ast.For) else s.test),s); link(preds,hdr)
            lctx=dict(ctx,brk=[],cont=hdr)
            body=seq(s.body,[(hdr,'iter')],lctx); link(body,hdr)
            out=[(hdr,'done')]+[(b,None) for b in lctx['brk']]
            if s.orelse: out=seq(s.orelse,[(hdr,'done')],ctx)+[(b,None) for b in lctx['brk']]
            return out
        if isinstance(s,ast.Break):
            n=g.new('break',(),s); link(preds,n); ctx['brk'].append(n); return []
        if isinstance(s,ast.Continue):
            n=g.new('continue',(),s); link(preds,n); g.edge(n,ctx['cont']); return []
        if isinstance(s,ast.Return):
            n=g.new('return',effects(s),s); link(preds,n); g.edge(n,exit_); return []
        if isinstance(s,ast.Raise):
            n=g.new('raise',effects(s),s); link(preds,n)
            for h in ctx.get('handlers',[]): g.edge(n,h,'exc')
            return []
        if isinstance(s,ast.Try):
            hentries=[g.new('except',(),h) for h in s.handlers]
            tctx=dict(ctx,handlers=hentries)
            body=seq(s.body,preds,tctx)
            body=seq(s.orelse,body,ctx)
            outs=list(body)
            for h,he in zip(s.handlers,hentries):
                outs+=seq(h.body,[(he,None)],ctx)
            if s.finalbody: outs=seq(s.finalbody,outs,ctx)
            return outs
        if isinstance(s,ast.With):
            n=g.new('with',[e for i in s.items for e in effects(i.context_expr)],s); link(preds,n)
            return seq(s.body,[(n,None)],ctx)
        eff=effects(s)
        n=g.new('stmt',eff,s); link(preds,n)
        if any(e[0]=='RAISE?' for e in eff):
            for h in ctx.get('handlers',[]): g.edge(n,h,'exc')
        return [(n,None)]
    ends=seq(fn.body,[(entry,None)],{})
    for p,l in ends: g.edge(p,exit_,l)
    return g,entry,exit_
# --- typestate: (acked, conts(0,1,2), disposed, csvar, csout)
def analyse(name,fn):
    g,entry,exit_=build(fn)
    findings=[]
    init=(False,0,False,None,None)
    seen=collections.defaultdict(set); work=[(entry,init,())]
    while work:
        node,st,trail=work.pop()
        if st in seen[node]: continue
        seen[node].add(st)
        label,eff,s=g.info[node]
        states=[st]
        for e in eff:
            nxt=[]
            for (acked,conts,disp,csvar,csout) in states:
                k=e[0]
                def cons(tag):
                    if acked: findings.append((name,'C03.R1 consequence after ack',tag,getattr(s,'lineno',0)))
                if k=='ACK':
                    nxt.append((True,conts,True,csvar,csout))
                elif k=='DROP': nxt.append((acked,min(conts+1,2),disp,csvar,csout))
                elif k in('PUB','HE','END'):
                    cons(k); nxt.append((acked,min(conts+1,2),disp,csvar,csout))
                elif k=='JOIN':
                    cons(k); nxt.append((acked,min(conts+1,2),True,csvar,csout))
                elif k=='HT':
                    cons(k); nxt.append((acked,min(conts+1,2),disp or e[1],csvar,csout))
                elif k=='DEFER':
                    nxt.append((acked,min(conts+1,2),True,csvar,csout))
                elif k=='ACKLIST': nxt.append((acked,conts,disp,csvar,csout))
                elif k=='CS':
                    cons(k)
                    # bound var?
                    var=None
                    if isinstance(s,ast.Assign) and isinstance(s.targets[0],ast.Tuple): var=s.targets[0].elts[0].id
                    nxt.append((acked,min(conts+1,2),disp,var,'ok'))
                    nxt.append((acked,conts,disp,var,'err'))
                else: nxt.append((acked,conts,disp,csvar,csout))
            states=nxt
        for st2 in states:
            if node==exit_:
                acked,conts,disp,csvar,csout=st2
                if conts==0: findings.append((name,'C02.R5 path with NO continuation',trail[-6:],0))
                if conts>=2: findings.append((name,'C02.R5 path with >1 continuation',trail[-8:],0))
                if not disp: findings.append((name,'C03.R2 id not disposed',trail[-6:],0))
                continue
            for (b,lab) in g.succ[node]:
                st3=st2
                if isinstance(lab,tuple):
                    tf,ifs=lab; t=ifs.test
                    acked,conts,disp,csvar,csout=st2
                    if isinstance(t,ast.Name) and t.id==csvar and csout:
                        if (tf=='T' and csout=='ok') or (tf=='F' and csout=='err'): continue
                        st3=(acked,conts,disp,None,None)
                work.append((b,st3,trail+((getattr(g.info[b][2],'lineno',0),g.info[b][0],lab if not isinstance(lab,tuple) else lab[0]),)))
    return findings
targets=['asl_state_Pass','asl_state_Task_delegate','on_response','asl_state_Task','asl_state_Choice','asl_state_Wait','on_timeout','asl_state_Succeed','asl_state_Fail','asl_state_Parallel_delegate','asl_state_Parallel','asl_state_Map_delegate','asl_state_Map','asl_state_collect_results','handle_error','handle_terminal_state']
for t in targets:
    fs=analyse(t,nested[t])
    uniq=[]
    for f in fs:
        key=(f[0],f[1],str(f[2])[-160:])
        if key not in uniq: uniq.append(key)
    print(f'== {t}: {len(uniq)} finding(s)')
    for u in uniq[:6]: print('   ',u[1],'|',u[2])
