import ast, sys, difflib
A='/repo/asl-workflow-engine/py/asl_workflow_engine/amqp_0_9_1_messaging_asyncio.py'
B='/repo/asl-workflow-engine/py/asl_workflow_engine/amqp_0_9_1_messaging.py'
class Norm(ast.NodeTransformer):
    def visit_Await(self,n): return self.visit(n.value)
    def visit_AsyncFunctionDef(self,n):
        n=self.generic_visit(n)
        return ast.FunctionDef(name=n.name,args=n.args,body=n.body,decorator_list=n.decorator_list,returns=n.returns,type_comment=None, lineno=n.lineno,col_offset=0)
    def visit_Expr(self,n):
        if isinstance(n.value,ast.Constant) and isinstance(n.value.value,str): return None
        return self.generic_visit(n)
def funcs(p):
    t=ast.parse(open(p).read())
    out={}
    for c in t.body:
        if isinstance(c,ast.ClassDef):
            for f in c.body:
                if isinstance(f,(ast.FunctionDef,ast.AsyncFunctionDef)):
                    g=Norm().visit(f); ast.fix_missing_locations(g)
                    out[c.name+'.'+f.name]=ast.unparse(g)
    return out
a,b=funcs(A),funcs(B)
for k in sorted(set(a)|set(b)):
    if k not in a: print('ONLY blocking',k); continue
    if k not in b: print('ONLY asyncio',k); continue
    if a[k]!=b[k]:
        d=list(difflib.unified_diff(b[k].splitlines(),a[k].splitlines(),'blocking','asyncio',lineterm='',n=1))
        print('=== DIFF',k,len(d))
        if k in sys.argv[1:]: print('\n'.join(d))
    else: print('same',k)
