import ast, builtins, sys, os, glob
ROOT='/repo/asl-workflow-engine/py'
files=glob.glob(ROOT+'/asl_workflow_engine/*.py')+glob.glob(ROOT+'/statelint/*.py')
mods={}
for f in files: mods[f]=ast.parse(open(f).read(), f)
def module_names(tree, seen=None):
    names=set()
    for n in ast.walk(tree):
        pass
    for n in tree.body:
        for m in ast.walk(n) if isinstance(n,(ast.Try,ast.If,ast.With)) else [n]:
            if isinstance(m,(ast.FunctionDef,ast.AsyncFunctionDef,ast.ClassDef)): names.add(m.name)
            elif isinstance(m,ast.Import):
                for a in m.names: names.add((a.asname or a.name).split('.')[0])
            elif isinstance(m,ast.ImportFrom):
                for a in m.names:
                    if a.name=='*':
                        p=ROOT+'/'+m.module.replace('.','/')+'.py'
                        if os.path.exists(p): names|=module_names(ast.parse(open(p).read()))
                    else: names.add(a.asname or a.name)
            elif isinstance(m,(ast.Assign,ast.AugAssign,ast.AnnAssign)):
                for t in (m.targets if isinstance(m,ast.Assign) else [m.target]):
                    for x in ast.walk(t):
                        if isinstance(x,ast.Name): names.add(x.id)
    return names
import symtable
for f in files:
    src=open(f).read(); st=symtable.symtable(src,f,'exec')
    mn=module_names(mods[f])|set(dir(builtins))|{'__name__','__file__'}
    def walk(t):
        for s in t.get_symbols():
            if s.is_global() and s.is_referenced() and s.get_name() not in mn:
                print(os.path.basename(f), t.get_name(), t.get_lineno(), 'UNDEFINED', s.get_name())
        for c in t.get_children(): walk(c)
    walk(st)
